"""Shared Hypothesis strategies (all cases are plain JSON-able data)."""
from __future__ import annotations

import math

from hypothesis import strategies as st

ROUTH = 0.5 * (1.0 - math.sqrt(69.0) / 9.0)   # 0.0385208965...

_catalogue = None


def catalogue_pairs():
    """All primary/secondary pairs of hiten's built-in catalogue with their mass ratio."""
    global _catalogue
    if _catalogue is None:
        from hiten.utils.constants import Constants
        out = []
        for p, d in Constants.orbital_distances.items():
            for s in d:
                m1 = float(Constants.get_mass(p)); m2 = float(Constants.get_mass(s))
                out.append((p, s, m2 / (m1 + m2)))
        _catalogue = sorted(out)
    return _catalogue


def _logu(lo, hi):
    return st.floats(math.log(lo), math.log(hi)).map(math.exp)


def mu(lo=1e-9, edge=True):
    cat = [m for _, _, m in catalogue_pairs() if m >= lo]
    parts = [_logu(lo, 0.5), _logu(lo, 0.5), st.sampled_from(cat), st.floats(1e-3, 0.5)]
    if edge:
        parts.append(st.sampled_from([0.5, ROUTH - 1e-6, ROUTH + 1e-6, 3.0e-6, 0.01215058560962404, 3.0034805945423304e-06]))
    return st.one_of(*parts)


@st.composite
def state6(draw, mu_val, delta=1e-3, spatial=None, vmax=2.0):
    """6-D synodic state at distance >= delta from both primaries, by construction."""
    anchor = draw(st.sampled_from(["m1", "m2", "box", "box", "far"]))
    if anchor in ("m1", "m2"):
        cx = -mu_val if anchor == "m1" else 1.0 - mu_val
        r = draw(_logu(max(delta * 1.01, 1e-3), 1.5))
        th = draw(st.floats(0, 2 * math.pi)); ph = draw(st.floats(-1.0, 1.0))
        c = math.sqrt(max(0.0, 1 - ph * ph))
        x, y, z = cx + r * c * math.cos(th), r * c * math.sin(th), r * ph
    else:
        w = 1.5 if anchor == "box" else 3.0
        x, y, z = draw(st.floats(-w, w)), draw(st.floats(-w, w)), draw(st.floats(-w, w))
    if spatial is None:
        spatial = draw(st.integers(0, 3)) > 0
    if not spatial:
        z = 0.0
    # push away from the primaries along the radial direction if too close (construction, not rejection)
    for cx in (-mu_val, 1.0 - mu_val):
        dx, dy, dz = x - cx, y, z
        d = math.sqrt(dx * dx + dy * dy + dz * dz)
        if d < delta * 1.01:
            if d == 0.0:
                dx, dy, dz, d = 1.0, 0.0, 0.0, 1.0
            k = delta * 1.5 / d
            x, y, z = cx + dx * k, dy * k, dz * k
    v = [draw(st.floats(-vmax, vmax)) for _ in range(3)]
    if not spatial:
        v[2] = 0.0
    elif abs(z) < 1e-3 or abs(v[2]) < 1e-3:
        z = z + (0.01 if z >= 0 else -0.01)
        v[2] = v[2] + (0.01 if v[2] >= 0 else -0.01)
    return [float(x), float(y), float(z), float(v[0]), float(v[1]), float(v[2])]
