"""Bridge between sparse dictionary polynomials and hiten's packed Hamiltonian systems,
plus an independent NumPy evaluator of the Hamilton field (used as oracle by C02/C10/C16/C17).

A Hamiltonian is a list of [k0..k5, coeff] rows (JSON-able); variables are
(q1,q2,q3,p1,p2,p3) = polynomial variables 0..5 (hiten: Q_POLY_INDICES=[0,1,2], P_POLY_INDICES=[3,4,5]).
"""
from __future__ import annotations

import numpy as np
from hypothesis import strategies as st

_tables = {}


def tables(maxdeg):
    if maxdeg not in _tables:
        from hiten.algorithms.polynomial.base import _create_encode_dict_from_clmo, _init_index_tables
        psi, clmo = _init_index_tables(maxdeg)
        enc = _create_encode_dict_from_clmo(clmo)
        _tables[maxdeg] = (psi, clmo, enc)
    return _tables[maxdeg]


def build_blocks(terms, maxdeg, dtype=np.complex128):
    """Packed coefficient blocks (numba typed List) of the polynomial given by `terms`."""
    from numba.typed import List
    from hiten.algorithms.polynomial.base import _encode_multiindex
    psi, clmo, enc = tables(maxdeg)
    blocks = [np.zeros(psi[6, d], dtype=dtype) for d in range(maxdeg + 1)]
    for row in terms:
        k = np.array(row[:6], dtype=np.int64)
        d = int(k.sum())
        pos = _encode_multiindex(k, d, enc)
        if pos < 0:
            raise ValueError("monomial not encodable: %r" % (row,))
        blocks[d][pos] += row[6]
    out = List()
    for b in blocks:
        out.append(b)
    return out


def make_hamsys(terms, maxdeg, name="vf-ham"):
    from hiten.algorithms.dynamics.hamiltonian import create_hamiltonian_system
    psi, clmo, enc = tables(maxdeg)
    return create_hamiltonian_system(build_blocks(terms, maxdeg), maxdeg, psi, clmo, enc, n_dof=3, name=name)


# ----------------------------------------------------------------- independent evaluator
def compile_terms(terms):
    K = np.array([r[:6] for r in terms], dtype=np.int64).reshape(-1, 6)
    c = np.array([float(r[6]) for r in terms], dtype=float)
    return K, c


def H_value(KC, x):
    K, c = KC
    x = np.asarray(x, dtype=float)
    return float(np.sum(c * np.prod(x[None, :] ** K, axis=1)))


def H_grad(KC, x):
    """Gradient of H wrt the six variables (plain monomial differentiation)."""
    K, c = KC
    x = np.asarray(x, dtype=float)
    g = np.zeros(6)
    for v in range(6):
        m = K[:, v] > 0
        if not np.any(m):
            continue
        Kd = K[m].copy()
        coef = c[m] * Kd[:, v]
        Kd[:, v] -= 1
        g[v] = np.sum(coef * np.prod(x[None, :] ** Kd, axis=1))
    return g


def ham_field(KC, x):
    """(dH/dP, -dH/dQ) at x = (Q, P)."""
    g = H_grad(KC, x)
    return np.concatenate([g[3:], -g[:3]])


def ref_flow(KC, x0, t_eval, rtol=1e-13, atol=1e-13):
    from scipy.integrate import solve_ivp
    t_eval = np.asarray(t_eval, dtype=float)
    sol = solve_ivp(lambda t, y: ham_field(KC, y), (float(t_eval[0]), float(t_eval[-1])), np.asarray(x0, float),
                    method="DOP853", rtol=rtol, atol=atol, t_eval=t_eval)
    if not sol.success:
        raise RuntimeError("reference integration failed")
    return sol.y.T


# ----------------------------------------------------------------- generator
@st.composite
def polyham(draw, maxdeg=4, eps_max=0.3, nonsep=None):
    """Random 3-DOF polynomial Hamiltonian with positive-definite quadratic part
    sum w_i (q_i^2 + p_i^2)/2 and random terms of degree 3..maxdeg scaled by eps^(k-2);
    50% non-separable (mixed q.p monomials, cross-DOF coupling)."""
    w = [draw(st.floats(0.5, 2.0)) for _ in range(3)]
    terms = []
    for i in range(3):
        kq = [0] * 6; kq[i] = 2
        kp = [0] * 6; kp[3 + i] = 2
        terms.append(kq + [0.5 * w[i]]); terms.append(kp + [0.5 * w[i]])
    if nonsep is None:
        nonsep = draw(st.booleans())
    eps = draw(st.floats(0.02, eps_max))
    nterms = draw(st.integers(1, 6))
    seen = set()
    for _ in range(nterms):
        d = draw(st.integers(3, maxdeg)) if maxdeg >= 3 else 2
        if nonsep:
            vars_ = [draw(st.integers(0, 5)) for _ in range(d)]
        else:
            side = draw(st.integers(0, 1))
            vars_ = [3 * side + draw(st.integers(0, 2)) for _ in range(d)]
        k = [0] * 6
        for v in vars_:
            k[v] += 1
        if tuple(k) in seen:
            continue
        seen.add(tuple(k))
        cf = draw(st.floats(-1.0, 1.0))
        terms.append(k + [cf * eps ** (d - 2)])
    return {"terms": terms, "maxdeg": maxdeg, "nonsep": bool(nonsep)}


def is_nonseparable(terms):
    for r in terms:
        if sum(r[:3]) > 0 and sum(r[3:6]) > 0:
            return True
    return False
