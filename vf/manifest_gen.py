"""Regenerate MANIFEST.json from the table below:  /venv/bin/python -m vf.manifest_gen"""
import json
import os

ROOT = os.path.dirname(os.path.dirname(os.path.abspath(__file__)))
BASELINE = ("cd /repo && /venv/bin/python -m pytest -ra -q -p no:cacheprovider --timeout=900 "
            "--continue-on-collection-errors --junitxml=/tmp/hiten-baseline.junit.xml")

# id -> (category, technique, text, note, design_ref)
CHECKS = {
    "C01": ("exploration",
            "property-based testing (Hypothesis) against a SymPy-derived reference model; pointwise Lie-derivative oracle for first integrals",
            "Generated (mu log-uniform to 1e-9 + catalogue, states incl. spatial and near-primary, random Phi) through the field/Jacobian/variational "
            "kernels, the System-level compiled closures and System.propagate for every method/order/direction. Oracles: SymPy-differentiated field and "
            "Jacobian, Richardson finite differences of the library's own field, F@Phi for random Phi, d/dt of every reported energy/Jacobi formula along "
            "the library's own field, and energy constancy along produced trajectories. Sampling over R^6 x (0,0.5], not a proof.",
            "Trusts SymPy/NumPy/SciPy; tolerances are rounding/conditioning formulas (see vf/oracle/cr3bp.py); states within 1e-3 of a primary excluded.",
            "DESIGN.md §4 C01"),
    "C02": ("exploration",
            "exhaustive rooted-tree (Butcher) probe forest through the real stepping code + property-based testing on generated ODEs",
            "All 200 rooted trees of order <= 8 (autonomous and time-leaf variants) are integrated by one step of RungeKutta/FixedRK(order).integrate, the raw "
            "step kernels (rk_embedded, rk45, dop853 incl. embedded error estimators), the RK45/DOP853 dense outputs and the CM map's table selector; the returned "
            "elementary weights must equal 1/gamma up to the declared order (exhaustive for the order-condition clause, a 1e-9 coefficient perturbation is visible). "
            "Generated non-linear non-autonomous vector fields and polynomial Hamiltonians (fast path) give observed order by step halving and err/tol bounds against a "
            "1e-13 SciPy reference. The ODE layer is sampling.",
            "Trusts SciPy DOP853 at 1e-13 as reference and its RK45/DOP853 as calibration of the tolerance multiple; order criterion p-0.5 on the finest halvings.",
            "DESIGN.md §4 C02"),
    "C03": ("exploration",
            "Hypothesis-generated arcs and library-corrected orbits with differential oracles: Richardson finite differences of the library's own flow, SciPy/SymPy variational reference, canonical-momentum symplectic algebra, flow equivariance, conditioning-aware spectrum comparison",
            "Generated (mu to 1e-9, states, spans, fixed 4/6/8 and adaptive 5/8) through _compute_stm: Phi equals the Richardson finite-difference derivative of the library's own flow "
            "(STM trajectory and System.propagate end states from perturbed starts), equals the oracle variational flow at tf and at an intermediate PHI row, is symplectic in canonical "
            "momenta (M^T J M = J, det 1, palindromic characteristic polynomial), maps f(x0) to f(x(tf)); for corrected halo/Lyapunov orbits the monodromy equals the oracle monodromy, "
            "maps the velocity vector to itself up to the closure error, and eigenvalues / stability indices equal those of the oracle's reciprocal pairs.",
            "Arcs closer than 0.05 to a primary or with ||Phi|| > 1e6 are classified and skipped; backward STMs are not asserted here (C12); tolerances are formulas of the measured trajectory error, ||Phi||, r_min and step count.",
            "DESIGN.md §4 C03"),
    "C04": ("exploration",
            "property-based testing (Hypothesis) over mass ratios with mpmath/SymPy reference model; catalogue enumerated exhaustively",
            "Mass ratios log-uniform down to 1e-9, every catalogue pair through System.from_bodies (exhaustive) and edge values derived from constants in the code, "
            "x L1..L5: the point is returned, is an equilibrium of an independent field, lies on the right side of the primaries, agrees with a 30-digit root, "
            "gamma matches the position, c_n match the Taylor coefficients of the exact potential along the library's own local axis, reported modes equal the "
            "eigenvalues of the independently derived Jacobian (vertical mode identified by eigenvector support), C is symplectic and C^T Hess(H2) C equals the "
            "stated normal form. Sampling over mu, not a proof.",
            "Trusts SymPy/mpmath/NumPy eig; above Routh's ratio a RuntimeError from triangular linear_modes is accepted; tolerances derived from the library's documented Brent xtol.",
            "DESIGN.md §4 C04"),
    "C05": ("exploration",
            "property-based testing: Hypothesis-generated residual maps through the real Newton backend with a logged oracle; end-to-end corrections re-propagated independently",
            "Harness A drives the real _NewtonBackend with Armijo/plain steppers on generated residual maps (affine incl. singular/rectangular, polynomial with planted "
            "root, trigonometric, rootless, NaN/raising), logs every evaluation and iterate, and checks: return => recomputed ||R|| < tol and consistent report; otherwise "
            "ConvergenceError; Armijo residuals never increase; no update exceeds max_delta. Harness B corrects halo N/S, Lyapunov and vertical (analytic and CM seeds) "
            "orbits at L1/L2 for several mass ratios and re-propagates initial_state for one period with SciPy DOP853 on an independent field: closure <= 100*max(tol,1e-12)*||M||, "
            "half-period symmetry residual, Yorke period bound; failed corrections must leave state/period untouched.",
            "Sampling over maps, families and amplitudes; exceptions raised by the residual map itself are accepted in any type; trusts SciPy DOP853 at 1e-13.",
            "DESIGN.md §4 C05"),
    "C06": ("exploration",
            "exhaustive enumeration (index tables) + Hypothesis differential testing against an exact rational dictionary-polynomial oracle + metamorphic laws + harness-owned schedule sweep with bit-exact integer inputs",
            "Encoding clause exhaustive in both tiers: all 1,947,792 multi-indices of degree <= 30 through the real encode/decode (round trips, distinct keys, psi counts, "
            "out-of-table -> -1). Operations: generated real/complex, sparse/dense polynomials through every kernel and list-level operation against exact Fraction / Gaussian-"
            "rational reference (integer inputs bit-exact) plus Leibniz/Jacobi/d-int/eval-product/eval-substitution laws. Schedules: threads 1..16 x prange chunk sizes x "
            "repetitions x omp/workqueue layers x concurrent Python callers must give bit-identical arrays equal to the exact result.",
            "Operations and schedules are sampled (degree <= 5 quick / <= 8 thorough). The harness controls thread count, chunking, layer and repetition, not instruction interleavings: no discrepancy over N runs is evidence of race freedom, not proof.",
            "DESIGN.md §4 C06"),
    "C07": ("exploration",
            "property-based testing (Hypothesis) over (mu, point, degree, ray directions) with a multi-precision power-series (Taylor-arithmetic) reference of the exact CR3BP energy and accelerations along rays through the library's own local-to-synodic map",
            "mu log-uniform to 1e-9 plus catalogue and edge values x L1..L5 x N 2..8 (quick) / 2..10 (thorough) x generic directions, through the builders, the pipeline and the public "
            "route: every Taylor coefficient of the value (d <= N) and of the acceleration (d <= N-1) along the ray is compared with the exact expansion at rounding-level "
            "tolerances (equivalent to the O(r^(N+1)) / O(r^N) statement and not limited by the rounding floor); in addition the literal 8-rung radius ladder with a rigorous "
            "Legendre remainder bound, guarded slope and add-a-degree rules; library evaluator vs own evaluator.",
            "Trusts mpmath; local coordinates are defined by the library's own map measured as affine; both time directions of the Coriolis term accepted (L3 uses the reversed one, Note N-1); slope rules asserted only where the exact remainder is asymptotic.",
            "DESIGN.md §4 C07"),
    "C08": ("exploration",
            "Hypothesis-generated (mu, point, degree) pipelines and synthetic Hamiltonians; coefficient-pattern oracle with conditioning-derived rounding allowance; conjugacy, canonicity and inverse by radius-ladder slope tests in long double on decoded coefficients; independent SciPy-integrated generator flows; polyref exact Jacobians",
            "Both Lie routines on pipeline and synthetic inputs (non-resonant, free and exactly resonant frequency sets): every coefficient of the partial and full normal forms is "
            "decoded and classified (k0 == k3 resp. resonant within the library's 1e-14); H_new = H_old o Phi to O(r^(N+1)) for the library's forward series and, independently, for the "
            "numerically integrated time-one flows of G_3..G_N (so swapped series or a wrong sign convention is visible); DPhi^T J DPhi - J = O(r^N); Phi^-1 o Phi and Phi o Phi^-1 = id "
            "to O(r^(N+1)); _evaluate_transform agrees with the decoded series.",
            "(mu, N, polynomial, directions) sampled; orders judged on the finest rungs above a stated rounding floor and a failure needs six consecutive low slopes, so a defect of order exactly N is decidable only for N <~ 8; the full-normal-form coordinate series comes from a direct _lie_expansion call.",
            "DESIGN.md §4 C08"),
    "C09": ("exploration",
            "generated amplitude ladders (batch-RMS) for the round-trip and energy scaling laws r^(N+1) against a 40-digit energy oracle and an own evaluator of H_cm; constructed section points with a unique-root precheck",
            "Catalogue systems and generated mu x L1/L2 x degree 4/6 (quick) 4..10 (thorough): for batches of generated directions on S^3 the round trip to_cm(to_synodic(p)) - p and "
            "[E_exact(to_synodic(p)) - E_exact(L)]/gamma^2 - H_cm,N(p) are measured on radius ladders down to the rounding floor and must decay with slope >= N+1-0.5 (a sign or "
            "scaling error in one modal column gives slope 2); section conversion of constructed points lies on the section, reproduces the plane point and sits on the energy level "
            "within the Brent tolerance.",
            "Law asserted as: best of the <=3 finest above-floor log-ratios of the batch RMS; degrees 8 and 10 only in the thorough tier; the hyperbolic offset and the dynamical push-forward are not covered (outside the statement).",
            "DESIGN.md §4 C09"),
    "C10": ("exploration",
            "property-based testing (Hypothesis) against reference flows of the unwrapped field at signed times; reject-or-correct oracle on generated descending / non-uniform / zero-span grids",
            "Generated (CR3BP kernel and System.propagate, 42-D variational with selective flip, polynomial Hamiltonian, autonomous and time-dependent user rhs) x method "
            "(fixed 4/6/8, adaptive 5/8, symplectic 2..8) x span x steps x direction through _propagate_dynsys: time stamps start at 0, are non-positive and decreasing for "
            "forward=-1 and lie on the requested grid; the state at returned time -t equals the SciPy 1e-13 reference flow of the unwrapped field at -t; forward-then-backward "
            "round trip; first sample bit-equal to y0. Low level: Integrator.integrate on ascending, strictly descending, non-uniform, two-node and zero-span grids with and "
            "without an inactive event: either raises or every sample matches the reference at the requested times; times returned exactly; interpolation on descending solutions.",
            "Accuracy budgets come from the run's own self-convergence (|X_N-X_2N|) so only direction/grid semantics are judged; selective flipping asserts only the flipped autonomous block; sampling, not proof.",
            "DESIGN.md §4 C10"),
    "C11": ("exploration",
            "property-based testing (Hypothesis) over exact-flow linear/Hamiltonian systems with y-augmented njit templates; certified root scan of the exact event function as oracle; Hamiltonian/generic twin differential",
            "Generated planar linear systems (rotation, spiral, ellipse, saddle, uniform motion) and quadratic Hamiltonians with exact flows; plane / moving-plane / circle "
            "events, directions -1/0/+1, tolerances, starts on/near the surface, crossings exactly on grid nodes, through all seven event drivers (fixed RK, RK45, DOP853 "
            "each generic+Hamiltonian, symplectic). Oracle: all zeros of g on the exact flow (certified scan + bisection): hit iff an admissible zero exists, time/state/"
            "residual within derived bounds, filtered crossings skipped, no hit => (tf, flow(tf)).",
            "Precondition enforced by construction: crossings more than 2.5 steps apart and transversal; forward time and terminal=True only; planar linear systems only; integration accuracy itself is C02/C16.",
            "DESIGN.md §4 C11"),
    "C12": ("exploration",
            "Hypothesis-generated manifold configurations on library-corrected L1/L2 halo/Lyapunov orbits vs an independent SciPy/SymPy Floquet oracle (exact monodromy re-integrated at each seed's own closest orbit point, conditioning-derived tolerances)",
            "For corrected hyperbolic orbits and generated (stable/unstable, positive/negative, step, displacement, integration fraction, method, energy_tol) the public "
            "orbit.manifold(...).compute(...) is run; for each seed the oracle finds the closest orbit point on its own dense solution, re-integrates the exact monodromy there and "
            "requires the displacement to lie in span{f, v_s/u} with |beta|*||v_pos|| = displacement, sign fixed by the requested direction; stable branches have non-positive "
            "decreasing times, unstable increasing; retained trajectories keep the oracle's Jacobi constant within energy_tol and are flows of their seeds.",
            "Seeds sampled (<= 8 per manifold quick); 4 orbits quick / 60 thorough; |lambda_u| 8e2-3e3; halo and Lyapunov only; the along-flow component of the displacement is unconstrained by construction.",
            "DESIGN.md §4 C12"),
    "C13": ("fault_enumeration",
            "exhaustive fault-sequence enumeration (accept/reject/raise scripts) on the real predictor-corrector backend against a reference loop model + Hypothesis long scripts + end-to-end families re-checked by independent SciPy propagation",
            "Every corrector outcome string over {accept, reject, raise} up to length 7 (quick) / 9 (thorough) x a 1536-configuration grid (step sign/magnitude, target "
            "interval, member and retry limits, natural and secant steppers, shrink policies) is driven through the real _PredictorCorrectorContinuationBackend.run with a "
            "scripted corrector and compared with a reference model written from the statement (prediction offsets, target stop, clamp/shrink, give-up, counters). "
            "Hypothesis adds scripts up to length 60 with float steps; end-to-end orbit.generate families have every member re-propagated over its own period with SciPy "
            "on an independent CR3BP field.",
            "Outcome strings and grid enumerated exhaustively; longer scripts, float steps and end-to-end families are sampled. Model assumes no step growth after an accept; members exactly on the boundary count as inside.",
            "DESIGN.md §4 C13"),
    "C14": ("exploration",
            "generated map problems per precomputed centre manifold; own polynomial evaluator + DOP853 return reference; injective set-wise predecessor matching under one direction rule; bit-for-bit partition sweep (workers x numba threads x chunk); dt/2 envelope",
            "Per shard one centre manifold; generated (energy, section q2/p2/q3/p3, seeding strategy, n_iter, fixed 4/6/8 or symplectic 2/4/6, dt, n_workers, numba threads, chunk): "
            "section coordinate exactly 0; |H_cm - E| within a derived dt-bound that shrinks >= 4x under dt/2; every returned point is the next crossing (own reduced-flow "
            "integration with terminal event) of a distinct seed-or-returned point in one crossing direction; points are the labelled projection of states; the multiset of returned "
            "states is bit-identical for all worker/thread/chunk partitions.",
            "Worker/thread counts and chunk sizes are owned by the harness, not interleavings; symplectic tolerance bounded by Tao's estimate with the effective order of the open C16 finding; fresh map object per configuration (the compute cache ignores option values, see C20).",
            "DESIGN.md §4 C14"),
    "C15": ("exploration",
            "Hypothesis grammar-generated section-value sequences on an exact dyadic realisation vs. an event-matching reference detector; analytic refinement ladders (bounds + observed order); engine/backend differential",
            "Sample level: generated g-sequences (strict signs, exact zeros, |g|<tol, touch-and-return, repeated zeros, crossing on a sample, first/last segment) realised "
            "exactly as 6-D states on a dyadic lattice, uniform/non-uniform times, axis/oblique/scaled normals, directions, linear/cubic, segment_refine 0..k, dedup tolerances, "
            "max_hits; a reference detector written from the statement and the documented on-surface/dedup rules accepts every order-preserving explanation: one hit per "
            "admissible sign change, nothing unexplained, time order, bracketing, on-plane (linear). Analytic ladders (ellipse, cubic, Lissajous) at h..h/8 check the linear-"
            "interpolation error bound and observed order (>=1.7 linear, >=2.5 cubic uniform). Engine returns exactly the backend hits for n_workers 1..8.",
            "Exactly-once asserted only where statement+docs pin the answer (cubic+refine only where the interpolant is provably monotone); CR3BP arcs and SynodicMap.compute not used (JIT-heavy); atheris target not built (not installed in /venv).",
            "DESIGN.md §4 C15"),
    "C16": ("exploration",
            "property-based exploration of generated 3-DOF polynomial Hamiltonians through the real numba step kernels: FD-Richardson Jacobians for D^T J D = J, there-and-back identity, step-halving order vs SciPy 1e-13 reference with omega fixed, long-run energy envelopes with RK4 positive control",
            "For generated polynomial Hamiltonians (degree <= 6, 50% non-separable), orders 2/4/6/8, step sizes and coupling constants: one step of the extended map on R^12 and "
            "each sub-flow phi_a/phi_b/phi_c are symplectic for dQ^dP + dX^dY (Richardson finite-difference Jacobians), step(-h) after step(h) restores the state to a few eps, "
            "integrate equals manual extended stepping on ascending/descending grids, observed order from step halving with omega fixed, and energy-error envelopes do not drift "
            "(RK4 positive control must drift).",
            "Symplecticity at sampled points; order in the regime (omega+Lambda)h <= 0.5; energy only for omega >= largest linear frequency over <= 1e5 steps (weak coupling drifts legitimately in Tao's method). One open known finding (orders 4/6/8 converge at rate 2).",
            "DESIGN.md §4 C16"),
    "C17": ("exploration",
            "differential testing of program variants (Hamiltonian fast path vs generic twin generated from an independent symbolic gradient) on Hypothesis-generated polynomial Hamiltonians",
            "For generated 3-DOF polynomial Hamiltonians (50% non-separable): hamsys.rhs / dH_dQ / dH_dP / _hamiltonian_rhs equal an independently differentiated field; "
            "then every variant RK4/6/8, RK45, DOP853 x event off/on (direction -1/0/+1) x uniform/non-uniform grid integrates the Hamiltonian system through the *_ham kernels "
            "and the same field supplied as an ordinary numba function (generated source, no library polynomial code) through the generic kernels; times, states, derivatives "
            "and event results must agree to rounding amplification; also through _propagate_dynsys(hamsys, fixed|adaptive, forward=+-1).",
            "Few Hamiltonians per run (each costs several JIT compilations), many runs per Hamiltonian; adaptive paths may legitimately differ at tolerance level when a rounding-level difference flips a controller decision: such 'soft' mismatches are reported only when frequent (>20% of a variant's cases).",
            "DESIGN.md §4 C17"),
    "C18": ("exploration",
            "registry walk (all edges enumerated at run time) x generated (mu, point, degree, pipeline / generated polynomial) with round-trip, polynomial-vs-coordinate and point-map inverse oracles; own NumPy evaluator over the packed layout",
            "Every edge of the conversion registry (13, enumerated at run time) is executed in every run on pipeline Hamiltonians and on generated polynomials (Lie edges get "
            "the quadratic part they expect): result type/name/degree; every two-way pair round-trips from both sides within a conditioning-derived tolerance; for each "
            "linear/complexifying change P_new(f(x)) == P_old(x) with f the coordinate function of the same name; point maps synodic<->local<->modal<->complex compose to the "
            "identity for L1..L5; _M @ _M_inv == I and symplectic for all pair subsets; pipeline forms independent of request order and cache clearing.",
            "(mu, degree, polynomial, vector) are sampled; Lie edges are only required to run (their content is C08); order independence up to sqrt(eps) because thread-private partial sums are not bitwise reproducible.",
            "DESIGN.md §4 C18"),
    "C19": ("exploration",
            "property-based testing (Hypothesis) with brute-force and exact-rational geometric oracle",
            "Generated cloud pairs / thresholds / segment pairs (lattice ties, parallel, collinear, zero-length, near-parallel) through "
            "_ConnectionsBackend.run and _closest_points_on_segments_2d; every reported connection is re-validated by an O(NM) "
            "brute-force mutual-nearest test, recomputed delta-v/labels/sort order, and an exact rational segment-distance predicate. "
            "Sampling, not proof; finds boundary/degenerate-geometry defects unit tests with one generic cloud miss.",
            "Trusts numpy and Python Fractions; states carry plane coordinates in components 0,1; completeness of the pairing is not asserted.",
            "DESIGN.md §4 C19"),
    "C20": ("exploration",
            "model-based stateful testing with a fresh-twin model (Hypothesis RuleBasedStateMachine random walks + bounded-exhaustive operation sequences via itertools.product); independent CR3BP reference flow for cross-object checks",
            "After every operation on a System / LibrationPoint / PeriodicOrbit / CenterManifold (setters, correct with option pools, propagate pools, period changes, degree "
            "changes, stability queries, pickle / save / load / load_inplace) a NEW object is built from the logical state only and asked the same question; answers must agree "
            "(1e-9). All operation sequences of length <= 3 (orbit <= 4) over reduced alphabets are enumerated, longer histories are random walks; two objects of different mu share "
            "the process-wide compiled caches and are compared with an independent reference flow; distinct quantities must not alias; loaded objects pass the same twin test.",
            "Every comparison is SUT-after-history vs an object rebuilt from the logical state; Manifold objects are not in the alphabet (one compute costs 5-12 s); histories are shrunk by a module-level greedy shrinker.",
            "DESIGN.md §4 C20"),
}

NOT_YET = "check not built yet in this session (in progress; see DESIGN.md §4 for the planned generated-input check)"


def main():
    props = [json.loads(l)["id"] for l in open(os.path.join(ROOT, "properties.jsonl"))]
    checks = []
    for pid in props:
        if pid not in CHECKS:
            continue
        cat, tech, text, note, ref = CHECKS[pid]
        checks.append({
            "property_id": pid,
            "quick_cmd": "./check %s --tier quick" % pid,
            "thorough_cmd": "./check %s --tier thorough" % pid,
            "evidence_file": "evidence/%s.json" % pid,
            "replay_cmd_template": "./check %s --replay {path}" % pid,
            "engine": "vf",
            "level_claimed": {"category": cat, "text": text, "design_ref": ref},
            "level_note": note,
            "technique": tech,
        })
    man = {
        "version": 1,
        "setup_cmd": "/venv/bin/pip install -q --no-index --find-links /opt/veriftools/wheels --target /verif/.deps jsonschema >/dev/null 2>&1; "
                     "/venv/bin/python -c 'import hypothesis' || /venv/bin/pip install -q --no-index --find-links /opt/veriftools/wheels hypothesis; "
                     "/venv/bin/python -m compileall -q vf >/dev/null; true",
        "hooks": {
            "guard": "HITEN_VERIF",
            "enable": "none required: no source hooks were added; checks import hiten from /repo/src (editable install) in a fresh process",
            "baseline_off_cmd": BASELINE,
            "source_commits": [],
            "add_only": True,
        },
        "engines": [{"name": "vf", "path": "vf/", "serves_properties": [c["property_id"] for c in checks],
                     "kind_free_text": "Hypothesis-driven property-based testing / fuzzing with independent oracles; collect-then-shrink; sharded over processes"}],
        "checks": checks,
        "notes": "Single entry point ./check <ID> --tier quick|thorough [--replay FILE]; evidence rewritten on every run; "
                 "known_findings.json lists fixed/open findings; replays/<ID>/reg-*.json are shrunk regression inputs replayed first in every run.",
        "not_applicable": [{"property_id": p, "reason": NOT_YET} for p in props if p not in CHECKS],
    }
    with open(os.path.join(ROOT, "MANIFEST.json"), "w") as f:
        json.dump(man, f, indent=1)
    try:
        import jsonschema
        jsonschema.validate(man, json.load(open("/root/.vp/MANIFEST.schema.json")))
        print("MANIFEST.json valid; %d checks, %d not_applicable" % (len(checks), len(man["not_applicable"])))
    except ImportError:
        print("written (jsonschema not importable)")


if __name__ == "__main__":
    main()
