"""C05 — a successful differential correction yields a genuinely periodic orbit; solver contract.

(A) Solver contract: the REAL `_NewtonBackend(stepper_factory=make_armijo_stepper(...)|make_plain_stepper())
    .run(request=CorrectorInput(...))` is driven on generated residual maps R: R^n -> R^m (n, m <= 5): affine
    (regular / singular / rectangular / inconsistent), polynomial with a planted (possibly degenerate) root,
    trigonometric with many roots, maps without a root (g^2 + c), and maps that return NaN or raise outside a ball;
    analytic or finite-difference Jacobian, tol in 10^[-14,-3], max_attempts 1..30, max_delta in {None, inf,
    10^[-4,1]}, near/far starts.  Every residual evaluation is logged, `on_iteration` is recorded by a subclass, and
    the real stepper is wrapped by a transparent recorder (x, delta, |r|) -> (x_new, |r_new|, alpha).
    Oracle (recomputed by the harness from the pure map): a return has |R(x)| < tol and truthful
    residual_norm / iterations; otherwise ConvergenceError; Armijo: residual norms of successive iterates never
    increase; no accepted update exceeds max_delta in the infinity norm.

(B) End-to-end: generated (system, L1/L2, family, amplitude, tol, order, max_attempts) -> `orbit.correct()`.
    On success the returned (initial_state, period) is propagated by SciPy DOP853 on an independent numpy CR3BP
    field with its own variational equations: closure, symmetric-plane residual at T/2.  On failure the orbit's
    initial_state / period must be untouched.
"""
from __future__ import annotations

import logging
import math

import numpy as np
from hypothesis import strategies as st

from ..hyp import explore
from ..oracle import c05_cr3bp as own
from ..runner import HarnessError

PROPERTY = "C05"
LEVEL = "exploration"
SHARDS = {"quick": 6, "thorough": 12}
NUMBA_THREADS = {"quick": 2, "thorough": 1}
REPLAY_IN_RUN = True    # regression inputs are orbit corrections (JIT-heavy): replayed inside shard 1, not in the parent
RULE = ("(A) cases = generated (residual map, start, tol, max_attempts, max_delta, stepper, Jacobian mode, norm) through "
        "_NewtonBackend.run; non-trivial = >= 2 accepted Newton updates with >= 1 Armijo backtrack (alpha < 1), or a "
        "no-root map on which the backend raised after >= 1 accepted update, or a return whose recomputed norm lies in "
        "[tol/10, tol). (B) cases = generated (system, point, family, amplitude, tol, order, max_attempts) through "
        "orbit.correct(); non-trivial = correction reported success and the closure / half-period residual were "
        "evaluated by the independent propagation, or correction failed after the seed was built and the orbit was "
        "compared with its pre-correction state. Distinct by full input.")
ASSUMPTIONS = [
    "generated residual maps are deterministic; the harness recomputes |R(x)| with the same norm the request configured (L2 default or the infinity norm the orbit interface uses)",
    "for maps that return non-finite values or raise outside a ball, any exception type is accepted (the statement only requires 'raises an error'); for finite, everywhere-defined maps the documented ConvergenceError is required",
    "liveness is asserted only for well-conditioned (cond_2 <= 1e3) consistent square affine maps with analytic Jacobian, no step cap, max_attempts >= 3 and tol >= 1024*n*eps*(|A|_inf*max(1,|x*|_inf)+|b|_inf): an exact Newton step must converge (docstring of _solve_delta_dense: J*delta = -r)",
    "the library locates the half-period crossing with its own DOP853 at rtol=atol=1e-12 (poincare/singlehit/backend.py); the closure bound is K*max(tol,1e-12)*|M|_2 and the half-period symmetric-plane bound is tol + K*1e-12*|Phi(T/2)|_2 with K = 100 (<= ~100 accepted steps, each contributing <= the local tolerance amplified by <= |Phi|)",
    "(B) samples families/amplitudes; amplitudes are log-uniform in [1e-3, 0.75] relative to gamma (halo amplitude_z is already gamma-normalised by the library), CM-seeded vertical orbits only for Earth-Moon (cost)",
]

EPS = float(np.finfo(float).eps)
K_CLOSE = 100.0
TAU_INT = 1e-12

# ===================================================================== (A)
_lib = None


class RRaised(ArithmeticError):
    """Thrown by generated residual maps outside their domain ball."""


def _L():
    global _lib
    if _lib is None:
        logging.disable(logging.CRITICAL)
        from hiten.algorithms.corrector.backends.newton import _NewtonBackend
        from hiten.algorithms.corrector.stepping import make_armijo_stepper, make_plain_stepper
        from hiten.algorithms.corrector.types import CorrectorInput
        from hiten.algorithms.types.exceptions import ConvergenceError

        class Rec(_NewtonBackend):
            def __init__(self, **kw):
                super().__init__(**kw)
                self.it = []
                self.accepted = []
                self.failed = []

            def on_iteration(self, k, x, r_norm):
                self.it.append((int(k), np.array(x, dtype=float, copy=True), float(r_norm)))

            def on_accept(self, x, *, iterations, residual_norm):
                self.accepted.append((int(iterations), float(residual_norm)))

            def on_failure(self, x, *, iterations, residual_norm):
                self.failed.append((int(iterations), float(residual_norm)))

        _lib = {"Rec": Rec, "armijo": make_armijo_stepper, "plain": make_plain_stepper,
                "Input": CorrectorInput, "CE": ConvergenceError}
    return _lib


# ---------------------------------------------------------------- generators
_coef = st.integers(-4, 4)
_KINDS = ["affine", "affine", "poly", "poly", "poly", "trig", "trig", "noroot", "noroot", "ball_nan", "ball_raise"]


def _mat(draw, m, n, sc):
    return [[draw(_coef) * sc for _ in range(n)] for _ in range(m)]


@st.composite
def solver_case(draw):
    kind = draw(st.sampled_from(_KINDS))
    n = draw(st.integers(1, 5))
    m = n if draw(st.integers(0, 3)) else draw(st.integers(1, 5))
    sc = draw(st.sampled_from([1.0, 1.0, 0.5, 0.1, 10.0]))
    xs = [draw(st.integers(-6, 6)) * 0.5 for _ in range(n)]
    c = {"kind": kind, "n": n, "m": m, "xs": xs}
    base = kind
    if kind.startswith("ball"):
        base = draw(st.sampled_from(["poly", "trig", "affine"]))
        c["base"] = base
        c["rad"] = draw(st.sampled_from([0.5, 2.0, 20.0]))
    if base == "affine":
        shape = draw(st.sampled_from(["regular", "regular", "rank1", "duprow", "zero", "diagdom"]))
        A = _mat(draw, m, n, sc)
        if shape == "rank1":
            u = [draw(_coef) for _ in range(m)]
            v = [draw(_coef) * sc for _ in range(n)]
            A = [[u[i] * v[j] for j in range(n)] for i in range(m)]
        elif shape == "duprow" and m >= 2:
            A[m - 1] = list(A[0])
        elif shape == "zero":
            A = [[0.0] * n for _ in range(m)]
        elif shape == "diagdom":
            for i in range(min(m, n)):
                A[i][i] = (9 + abs(draw(_coef))) * sc * (1 if draw(st.booleans()) else -1)
        c["shape"] = shape
        c["A"] = A
        consistent = draw(st.integers(0, 3)) > 0
        c["consistent"] = consistent
        if consistent:
            c["b"] = [float(v) for v in (np.asarray(A, dtype=float).reshape(m, n) @ np.asarray(xs, dtype=float))]
        else:
            c["b"] = [draw(_coef) * sc for _ in range(m)]
    elif base == "poly":
        lin = draw(st.sampled_from(["full", "full", "zero", "rank1"]))
        A = _mat(draw, m, n, sc)
        if lin == "zero":
            A = [[0.0] * n for _ in range(m)]
        elif lin == "rank1":
            u = [draw(_coef) for _ in range(m)]
            v = [draw(_coef) * sc for _ in range(n)]
            A = [[u[i] * v[j] for j in range(n)] for i in range(m)]
        c["lin"] = lin
        c["A"] = A
        c["Q"] = _mat(draw, m, n, draw(st.sampled_from([1.0, 0.25, 0.0])))
        c["C"] = [draw(_coef) * draw(st.sampled_from([0.0, 0.5, 1.0])) for _ in range(m)]
    elif base == "trig":
        c["A"] = _mat(draw, m, n, draw(st.sampled_from([1.0, 0.5, 2.0])))
        c["s"] = [draw(st.integers(-8, 8)) / 8.0 for _ in range(m)]
    else:  # noroot
        c["A"] = _mat(draw, m, n, sc)
        c["cpos"] = [draw(st.sampled_from([0.01, 0.25, 1.0, 4.0])) for _ in range(m)]
    dist = draw(st.sampled_from([0.0, 1e-6, 1e-3, 0.1, 0.1, 1.0, 1.0, 10.0, 100.0, 1e4]))
    c["x0"] = [xs[j] + dist * draw(st.floats(-1.0, 1.0, allow_nan=False, width=32)) for j in range(n)]
    c["tol_exp"] = draw(st.floats(-14.0, -3.0, allow_nan=False, width=32))
    c["max_attempts"] = draw(st.integers(1, 30))
    mdk = draw(st.sampled_from(["none", "inf", "num", "num", "num"]))
    c["max_delta"] = None if mdk == "none" else ("inf" if mdk == "inf" else 10.0 ** draw(st.floats(-4.0, 1.0, allow_nan=False, width=32)))
    c["stepper"] = draw(st.sampled_from(["armijo", "armijo", "plain"]))
    if c["stepper"] == "armijo":
        c["ls"] = draw(st.sampled_from([[0.5, 1e-4, 0.1], [0.5, 1e-4, 0.1], [0.7, 1e-3, 1e-4], [0.25, 1e-6, 0.5], [0.5, 0.3, 0.1]]))
    c["jac"] = draw(st.sampled_from(["analytic", "analytic", "fd"]))
    c["fd_step"] = draw(st.sampled_from([1e-8, 1e-6]))
    c["norm"] = draw(st.sampled_from(["l2", "l2", "inf"]))
    return c


# ---------------------------------------------------------------- residual maps
def build_map(c):
    kind = c["kind"]
    base = c.get("base", kind)
    n, m = c["n"], c["m"]
    xs = np.asarray(c["xs"], dtype=float)
    A = np.asarray(c["A"], dtype=float).reshape(m, n)
    if base == "affine":
        b = np.asarray(c["b"], dtype=float)

        def R(x):
            return A @ x - b

        def J(x):
            return A.copy()
    elif base == "poly":
        Q = np.asarray(c["Q"], dtype=float).reshape(m, n)
        C = np.asarray(c["C"], dtype=float)
        idx = np.arange(m) % n

        def R(x):
            d = x - xs
            return A @ d + Q @ (d * d) + C * d[idx] ** 3

        def J(x):
            d = x - xs
            Jm = A + 2.0 * Q * d[None, :]
            Jm[np.arange(m), idx] += 3.0 * C * d[idx] ** 2
            return Jm
    elif base == "trig":
        s = np.asarray(c["s"], dtype=float)

        def R(x):
            return np.sin(A @ x) - s

        def J(x):
            return np.cos(A @ x)[:, None] * A
    else:
        cpos = np.asarray(c["cpos"], dtype=float)

        def R(x):
            g = A @ (x - xs)
            return g * g + cpos

        def J(x):
            g = A @ (x - xs)
            return 2.0 * g[:, None] * A
    if kind.startswith("ball"):
        rad = float(c["rad"])
        R0, J0 = R, J
        if kind == "ball_nan":
            def R(x):
                if not (np.linalg.norm(x - xs) <= rad):
                    return np.full(m, np.nan)
                return R0(x)

            def J(x):
                if not (np.linalg.norm(x - xs) <= rad):
                    return np.full((m, n), np.nan)
                return J0(x)
        else:
            def R(x):
                if not (np.linalg.norm(x - xs) <= rad):
                    raise RRaised("residual undefined outside the ball")
                return R0(x)

            def J(x):
                if not (np.linalg.norm(x - xs) <= rad):
                    raise RRaised("jacobian undefined outside the ball")
                return J0(x)
    return R, J


def _norm_fn(name):
    if name == "inf":
        return lambda r: float(np.linalg.norm(r, ord=np.inf))
    return lambda r: float(np.linalg.norm(r))


def _safe_norm(R, hn, x):
    """|R(x)| recomputed from the pure map; None when R raises there."""
    try:
        return hn(R(np.asarray(x, dtype=float)))
    except RRaised:
        return None


def _liveness_applies(c, tol):
    if c["kind"] != "affine" or c["n"] != c["m"] or not c.get("consistent") or c["jac"] != "analytic":
        return False
    if c["max_delta"] not in (None, "inf") or c["max_attempts"] < 3:
        return False
    n = c["n"]
    A = np.asarray(c["A"], dtype=float).reshape(n, n)
    sv = np.linalg.svd(A, compute_uv=False)
    if sv[-1] <= 0.0 or sv[0] / sv[-1] > 1e3:
        return False
    level = n * EPS * (np.linalg.norm(A, np.inf) * max(1.0, float(np.max(np.abs(c["xs"])))) + float(np.max(np.abs(c["b"]))))
    return tol >= 1024.0 * level


def eval_solver(case, ctx):
    lib = _L()
    c = case
    R, J = build_map(c)
    n, m = c["n"], c["m"]
    tol = 10.0 ** float(c["tol_exp"])
    md = c["max_delta"]
    md_val = None if md is None else (math.inf if md == "inf" else float(md))
    hn = _norm_fn(c["norm"])
    x0 = np.asarray(c["x0"], dtype=float)
    evlog = []          # status of every residual evaluation the library made

    def Rw(x):
        x = np.asarray(x, dtype=float)
        try:
            r = R(x)
        except RRaised:
            evlog.append("raised")
            raise
        evlog.append("ok" if np.all(np.isfinite(r)) else "nonfinite")
        return r

    Jw = None if c["jac"] == "fd" else (lambda x: J(np.asarray(x, dtype=float)))
    if c["stepper"] == "armijo":
        ar, mina, cc = c["ls"]
        base_factory = lib["armijo"](alpha_reduction=ar, min_alpha=mina, armijo_c=cc)
    else:
        base_factory = lib["plain"]()
    steps = []

    def factory(residual_fn, norm_fn, max_delta):
        inner = base_factory(residual_fn, norm_fn, max_delta)

        def stepper(x, delta, current_norm):
            rec = {"x": np.array(x, dtype=float, copy=True), "delta": np.array(delta, dtype=float, copy=True),
                   "cur": float(current_norm), "done": False}
            steps.append(rec)
            out = inner(x, delta, current_norm)
            rec["x_new"] = np.array(out[0], dtype=float, copy=True)
            rec["norm_new"] = float(out[1])
            rec["alpha"] = float(out[2])
            rec["done"] = True
            return out

        return stepper

    be = lib["Rec"](stepper_factory=factory)
    req = lib["Input"](initial_guess=x0.copy(), residual_fn=Rw, jacobian_fn=Jw,
                       norm_fn=(None if c["norm"] == "l2" else hn), max_attempts=int(c["max_attempts"]), tol=tol,
                       max_delta=md_val, fd_step=float(c["fd_step"]))
    out = None
    exc = None
    try:
        out = be.run(request=req)
    except Exception as e:  # noqa: BLE001 - classified below
        exc = e

    st_tag = c["stepper"]
    fails = []
    cls = ["A:" + c["kind"], "A:" + st_tag, "A:jac=" + c["jac"],
           "A:shape=" + ("square" if n == m else ("over" if m > n else "under"))]
    done = [s for s in steps if s["done"]]
    nacc = len(done)
    nonfinite_seen = (not np.all(np.isfinite(x0))) or any(e != "ok" for e in evlog)

    # ---- (1) return => converged, truthfully reported
    near_tol = False
    if out is not None:
        cls.append("A:returned")
        xr = np.asarray(out.x_corrected, dtype=float)
        nr = _safe_norm(R, hn, xr)
        where = "in-loop" if int(out.iterations) < int(c["max_attempts"]) else "final-check"
        if nr is None or not (nr < tol):
            fails.append(("returned-unconverged:" + where,
                          "returned x with recomputed |R(x)| = %r, tol = %r (reported %r after %r iterations)" % (nr, tol, out.residual_norm, out.iterations)))
        else:
            near_tol = nr >= 0.1 * tol
            if abs(float(out.residual_norm) - nr) > 8.0 * EPS * m * nr + 1e-300:
                fails.append(("reported-residual-norm-mismatch", "reported %r, recomputed %r" % (out.residual_norm, nr)))
        if int(out.iterations) != nacc or int(out.iterations) > int(c["max_attempts"]):
            fails.append(("reported-iterations-mismatch", "reported iterations=%r, accepted updates observed=%d, max_attempts=%d" % (out.iterations, nacc, c["max_attempts"])))
        if where == "in-loop" and (not be.it or be.it[-1][0] != int(out.iterations)):
            fails.append(("reported-iterations-mismatch", "reported iterations=%r but last on_iteration index was %r" % (out.iterations, be.it[-1][0] if be.it else None)))
        md_it = out.metadata.get("iterations", out.iterations)
        md_rn = out.metadata.get("residual_norm", out.residual_norm)
        if md_it != out.iterations or not (md_rn == out.residual_norm or (md_rn != md_rn and out.residual_norm != out.residual_norm)):
            fails.append(("metadata-mismatch", "metadata (%r, %r) vs fields (%r, %r)" % (md_it, md_rn, out.iterations, out.residual_norm)))
        last = done[-1]["x_new"] if done else x0
        if not np.array_equal(xr, last, equal_nan=True):
            fails.append(("returned-point-not-last-iterate", "x_corrected differs from the last accepted iterate"))
    # ---- (2) otherwise an error, ConvergenceError for finite everywhere-defined maps
    else:
        tn = type(exc).__name__
        if isinstance(exc, lib["CE"]):
            cls.append("A:ConvergenceError:" + ("stepper" if "Step strategy" in str(exc) else "exhausted"))
        elif isinstance(exc, RRaised):
            cls.append("A:raised:R-own-exception")
            if c["kind"] != "ball_raise":
                raise HarnessError("RRaised from a map that never raises")
        elif nonfinite_seen:
            cls.append("A:raised:%s-on-nonfinite" % tn)
        else:
            fails.append(("non-convergence-exception:" + tn, "finite map, exception %s: %s" % (tn, str(exc)[:200])))
    # ---- hook log must be truthful (k counts 0,1,2,...; norms are the norms at the logged points)
    for i, (k, xk, rk) in enumerate(be.it):
        if k != i:
            fails.append(("on-iteration-index", "on_iteration indices %r" % [e[0] for e in be.it][:8]))
            break
        nk = _safe_norm(R, hn, xk)
        if nk is not None and math.isfinite(nk) and abs(rk - nk) > 8.0 * EPS * m * nk + 1e-300:
            fails.append(("on-iteration-norm-mismatch", "k=%d logged %r recomputed %r" % (k, rk, nk)))
            break
    # ---- (3)/(4) accepted updates: cap (both steppers), monotone residual (Armijo)
    backtracked = 0
    capped = 0
    nonfinite_updates = 0
    for i, s in enumerate(done):
        xa, xb = s["x"], s["x_new"]
        if not (np.all(np.isfinite(xa)) and np.all(np.isfinite(xb)) and np.all(np.isfinite(s["delta"]))):
            nonfinite_updates += 1      # NaN/inf Newton step (non-finite residual or Jacobian): no cap claim
            if st_tag == "armijo" and np.all(np.isfinite(xa)):
                na = _safe_norm(R, hn, xa)
                if na is not None and math.isfinite(na):   # the line search may only accept points it could evaluate
                    fails.append(("armijo-accepted-undefined-point", "update %d moved from a finite point (|R| = %r) to a non-finite one" % (i, na)))
            continue
        if md_val is not None and math.isfinite(md_val):
            dx = float(np.max(np.abs(xb - xa)))
            if float(np.max(np.abs(s["delta"]))) > md_val:
                capped += 1
            lim = md_val * (1.0 + 4.0 * EPS) + 2.0 * EPS * max(float(np.max(np.abs(xa))), float(np.max(np.abs(xb))))
            if not (dx <= lim):
                fails.append(("step-exceeds-cap:" + st_tag, "update %d has |dx|_inf = %r > max_delta = %r" % (i, dx, md_val)))
        if st_tag == "armijo":
            if s["alpha"] < 1.0:
                backtracked += 1
            na = _safe_norm(R, hn, xa)
            nb = _safe_norm(R, hn, xb)
            if na is not None and math.isfinite(na):
                if nb is None or not math.isfinite(nb):
                    fails.append(("armijo-accepted-undefined-point", "update %d accepted a point where |R| = %r (was %r)" % (i, nb, na)))
                elif nb > na * (1.0 + 16.0 * EPS):
                    fails.append(("armijo-residual-increase", "update %d: |R| went %r -> %r (alpha=%r)" % (i, na, nb, s["alpha"])))
    if backtracked:
        cls.append("A:backtracked")
    if capped:
        cls.append("A:capped")
    if nonfinite_updates:
        cls.append("A:nonfinite-update")
    if near_tol:
        cls.append("A:returned-within-10x-of-tol")
    # ---- liveness on well-conditioned affine maps
    if _liveness_applies(c, tol):
        cls.append("A:liveness-checked")
        if out is None:
            fails.append(("affine-newton-does-not-converge:" + st_tag, "well-conditioned consistent affine system, no cap: %s" % (str(exc)[:160])))
    nt = None
    if (nacc >= 2 and backtracked >= 1) or (c["kind"] == "noroot" and out is None and nacc >= 1) or near_tol:
        nt = ("A", repr(case))
    ctx.case(nontrivial=nt, cls=cls,
             sample=({"harness": "A", "case": case, "accepted": nacc, "backtracked": backtracked,
                      "outcome": ("returned it=%d |R|=%.3e" % (out.iterations, out.residual_norm)) if out is not None else type(exc).__name__}
                     if (nt and n <= 2 and m <= 2 and backtracked) else None))
    for b, msg in fails:
        ctx.fail(b, case, msg)


# ===================================================================== (B)
_sys_cache = {}
_cm_cache = {}
_own_ok = [False]
_ratios = []


def _system(name):
    if name not in _sys_cache:
        logging.disable(logging.CRITICAL)
        from hiten import System
        if name == "EM":
            s = System.from_bodies("earth", "moon")
        elif name == "SE":
            s = System.from_bodies("sun", "earth")
        else:
            s = System.from_mu(float(name.split(":", 1)[1]))
        _sys_cache[name] = s
    return _sys_cache[name]


def _cm(name, Lp):
    key = (name, Lp)
    if key not in _cm_cache:
        L = _system(name).get_libration_point(Lp)
        cm = L.get_center_manifold(degree=6)
        cm.compute()
        _cm_cache[key] = cm
    return _cm_cache[key]


def orbit_case(pool, allow_cm):
    fams = ["halo_n", "halo_s", "lyapunov", "lyapunov", "vertical_amp"] + (["vertical_cm", "vertical_cm"] if allow_cm else [])

    @st.composite
    def _s(draw):
        fam = draw(st.sampled_from(fams))
        sysname = pool[0] if fam == "vertical_cm" else draw(st.sampled_from(pool))
        return {"sys": sysname, "L": draw(st.sampled_from([1, 2])), "family": fam,
                "log_amp": draw(st.floats(-3.0, -0.125, allow_nan=False, width=32)),
                "tol": draw(st.sampled_from([1e-8, 1e-10, 1e-12, 1e-12])),
                "order": draw(st.sampled_from([8, 8, 8, 5])),
                "max_attempts": draw(st.sampled_from([50, 50, 50, 50, 50, 3])),
                # warm start: a second, identical orbit gets period = T_corrected*(1+warm) before its own correct()
                # (what continuation does with the previous member's period)
                "warm": draw(st.sampled_from([None, None, None, 1e-6, -4e-6, 1.5e-5]))}

    return _s()


_ANTI = {"halo": (1, 3, 5), "lyapunov": (1, 3, 5), "vertical": (1, 2, 3)}


def _amp_bin(la):
    return "1e%d..1e%d" % (math.floor(la), math.floor(la) + 1) if la < 0 else "1e-1..1e0"


def eval_orbit(case, ctx):
    if not _own_ok[0]:
        why = own.self_test()
        if why:
            raise HarnessError("C05 oracle self-test: " + why)
        _own_ok[0] = True
    c = case
    fam = c["family"]
    group = fam.split("_")[0]
    tag = {"halo_n": "halo", "halo_s": "halo", "lyapunov": "lyapunov",
           "vertical_amp": "vertical-analytic-seed", "vertical_cm": "vertical-cm-seed"}[fam]
    sysobj = _system(c["sys"])
    mu = float(sysobj.mu)
    L = sysobj.get_libration_point(int(c["L"]))
    a_rel = 10.0 ** float(c["log_amp"])
    where = "%s:L%d" % (tag, c["L"])
    def _make():
        gamma = float(L.dynamics.gamma)
        if fam == "halo_n" or fam == "halo_s":
            return L.create_orbit("halo", amplitude_z=a_rel, zenith="northern" if fam == "halo_n" else "southern")
        elif fam == "lyapunov":
            return L.create_orbit("lyapunov", amplitude_x=a_rel * gamma)
        elif fam == "vertical_amp":
            return L.create_orbit("vertical", amplitude_z=a_rel * gamma)
        energy = 0.1 + 0.9 * (float(c["log_amp"]) + 3.0) / 2.875
        seed = _cm(c["sys"], int(c["L"])).to_synodic([0.0, 0.0], energy, "q3")
        return L.create_orbit("vertical", initial_state=np.asarray(seed, dtype=float))
    try:
        orbit = _make()
        seed_state = np.array(orbit.initial_state, dtype=float, copy=True)
        seed_period = orbit.period
        opt = orbit.correction_options
        opt = opt.merge(base=opt.base.merge(
            convergence=opt.base.convergence.merge(tol=float(c["tol"]), max_attempts=int(c["max_attempts"])),
            integration=opt.base.integration.merge(order=int(c["order"]))))
    except Exception as e:  # seed construction is not the property under test
        ctx.case(cls="B:%s:seed-construction-raised:%s" % (where, type(e).__name__))
        return
    if not np.all(np.isfinite(seed_state)):
        ctx.case(cls="B:%s:seed-not-finite" % where)
        return
    try:
        res = orbit.correct(opt)
    except Exception as e:  # noqa: BLE001 - any error is a legal failure report; state must be untouched
        cause = type(e.__cause__).__name__ if e.__cause__ is not None else type(e).__name__
        now_state = np.asarray(orbit.initial_state, dtype=float)
        same = np.array_equal(now_state, seed_state) and (orbit.period == seed_period)
        ctx.case(nontrivial=("B-fail", repr(case)), cls=["B:%s:failed:%s" % (where, cause), "B:failed-amp:%s:%s" % (tag, _amp_bin(c["log_amp"]))])
        if not same:
            ctx.fail("failed-correction-mutated-orbit:" + tag, case,
                     "correct() raised %s but initial_state/period changed: %r -> %r, period %r -> %r" % (
                         type(e).__name__, seed_state.tolist(), now_state.tolist(), seed_period, orbit.period))
        return
    if c.get("warm") is not None and orbit.period is not None:
        # warm start: identical second orbit whose period is preset close to (not equal to) the corrected one
        try:
            orbit2 = _make()
            orbit2.period = float(orbit.period) * (1.0 + float(c["warm"]))
            res2 = orbit2.correct(opt)
            orbit, res = orbit2, res2
            tag = tag + ":warm-start-period"
            ctx.classes["B:warm-start-period"] += 1
        except Exception:
            ctx.classes["B:warm-start-period:raised"] += 1
    tol = float(c["tol"])
    fails = []
    x0 = np.asarray(orbit.initial_state, dtype=float)
    T = orbit.period
    if not (getattr(res, "converged", False) is True and float(res.residual_norm) < tol):
        fails.append(("result-flags:" + tag, "converged=%r residual_norm=%r tol=%r" % (getattr(res, "converged", None), res.residual_norm, tol)))
    if T is None or not np.all(np.isfinite(x0)) or not (math.isfinite(float(T)) and float(T) > 0.0):
        ctx.case(cls="B:%s:success-without-state" % where)
        ctx.fail("success-without-finite-state:" + tag, case, "initial_state=%r period=%r" % (x0.tolist(), T))
        return
    T = float(T)
    if not np.array_equal(np.asarray(res.x_corrected, dtype=float), x0) or abs(2.0 * float(res.half_period) - T) > 4.0 * EPS * T:
        fails.append(("result-vs-orbit-mismatch:" + tag, "result (x=%r, half_period=%r) vs orbit (x=%r, period=%r)" % (
            np.asarray(res.x_corrected).tolist(), res.half_period, x0.tolist(), T)))
    NS = 16
    ok, sts, Ms, nsteps = own.flow_with_stm(mu, x0, [T * (i + 1) / NS for i in range(NS)])
    if not ok:
        ctx.case(cls="B:%s:own-integration-failed" % where)
        for b, msg in fails:
            ctx.fail(b, case, msg)
        return
    xh, xT = sts[NS // 2 - 1], sts[-1]
    Ph, M = Ms[NS // 2 - 1], Ms[-1]
    # Yorke (1969): a non-constant periodic solution of x' = f(x) has period >= 2*pi/Lip(f).  Lip is estimated by
    # the largest |Df|_2 over 17 points of the orbit; a factor 10 covers the estimate (genuine L1/L2 orbits have
    # T*Lip ~ 30).  Catches "closed because T ~ 0" (e.g. an event found immediately at the start).
    lip = max(float(np.linalg.norm(own.field_jacobian(mu, s), 2)) for s in [x0] + sts)
    if T * lip < 2.0 * math.pi / 10.0:
        fails.append(("degenerate-period:" + tag, "period %.3e with Lipschitz constant ~%.3e violates T >= 2*pi/L (Yorke): the state is not an equilibrium, so this is not a periodic orbit (x0=%r)" % (T, lip, x0.tolist())))
    nM = float(np.linalg.norm(M, 2))
    nPh = float(np.linalg.norm(Ph, 2))
    closure = float(np.linalg.norm(xT - x0))
    bound_c = K_CLOSE * max(tol, TAU_INT) * nM
    d_half = float(np.max(np.abs(xh[list(_ANTI[group])])))
    bound_h = tol + K_CLOSE * TAU_INT * nPh
    if not (closure <= bound_c):
        fails.append(("not-periodic:" + tag, "|phi_T(x0)-x0| = %.3e > %.0f*max(tol,1e-12)*|M| = %.3e (tol=%g, |M|=%.3e, T=%.6f, x0=%r)" % (
            closure, K_CLOSE, bound_c, tol, nM, T, x0.tolist())))
    if not (d_half <= bound_h):
        fails.append(("half-period-not-on-symmetry-plane:" + tag, "max antisymmetric component at T/2 = %.3e > tol + %.0f*1e-12*|Phi(T/2)| = %.3e (state %r)" % (
            d_half, K_CLOSE, bound_h, xh.tolist())))
    ctx.case(nontrivial=("B-ok", repr(case)),
             cls=["B:%s:converged" % where, "B:converged-amp:%s:%s" % (tag, _amp_bin(c["log_amp"])), "B:tol=%g" % tol, "B:sys=" + c["sys"].split(":")[0]],
             sample={"harness": "B", "case": case, "period": T, "iterations": int(res.iterations), "closure": closure,
                     "closure_bound": bound_c, "half_plane_residual": d_half, "half_bound": bound_h, "norm_M": nM})
    if closure <= bound_c:
        _ratios.append((closure / bound_c, d_half / bound_h, case))
    for b, msg in fails:
        ctx.fail(b, case, msg)


def _draw_mu(ctx):
    """One mass ratio per shard, drawn by Hypothesis (log-uniform in [1e-3, 0.1]); the first example Hypothesis
    produces is its simplest one, so the last of four draws is used."""
    got = []
    explore(ctx, "B-mu", st.floats(-3.0, -1.0, allow_nan=False, width=32), lambda v, _ctx: got.append(float(v)), 4, shrink=False)
    return "mu:%.6g" % (10.0 ** got[-1])


def _replay_regressions(ctx):
    import json
    import os
    from ..runner import ROOT
    rdir = os.path.join(ROOT, "replays", PROPERTY)
    n = 0
    if os.path.isdir(rdir):
        for fn in sorted(os.listdir(rdir)):
            if fn.startswith("reg-") and fn.endswith(".json"):
                with open(os.path.join(rdir, fn)) as f:
                    replay(ctx, json.load(f)["payload"])
                n += 1
    ctx.extra["regression_replays"] = n


def run(ctx):
    if ctx.shard == 1 % ctx.nshards:
        _replay_regressions(ctx)
    # (A) solver contract
    explore(ctx, "A-solver", solver_case(), eval_solver, ctx.share(ctx.scale(9000, 240000)))
    # (B) end-to-end periodicity
    quick = ctx.tier == "quick"
    cm_shard = ctx.shard == 0 if quick else ctx.shard < 3
    if cm_shard:
        pool = ["EM"]
    else:
        pool = [("EM", "SE")[ctx.shard % 2], _draw_mu(ctx)]
    n_orb = ctx.share(ctx.scale(60, 480))
    explore(ctx, "B-orbits", orbit_case(pool, cm_shard), eval_orbit, n_orb, shrink_calls=ctx.scale(12, 40))
    ctx.extra.setdefault("B_systems", [])
    ctx.extra["B_systems"].extend(pool)
    ctx.extra.setdefault("B_tightest_margins", [])   # [closure/bound, half-plane residual/bound, case], two per shard
    seen = set()
    for r in sorted(_ratios, key=lambda t: -max(t[0], t[1])):
        if repr(r[2]) not in seen and len(seen) < 2:
            seen.add(repr(r[2]))
            ctx.extra["B_tightest_margins"].append([r[0], r[1], r[2]])


def replay(ctx, payload):
    if "family" in payload:
        eval_orbit(payload, ctx)
    else:
        eval_solver(payload, ctx)
