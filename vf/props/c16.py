"""C16 — the extended-phase-space (Tao) symplectic integrator is symplectic, reversible,
convergent at its declared order (coupling constant fixed) and energy-bounded.

All clauses drive the REAL stepping code (`_recursive_update_poly`, the three sub-flows,
`ExtendedSymplectic(order).integrate` -> `_integrate_symplectic`) on generated 3-DOF polynomial
Hamiltonians (degree <= 6, separable and non-separable):

  map     one step of the documented extended map q_ext=[Q,P,X,Y] -> step(q_ext) on R^12 at generic
          points (X != Q, Y != P): Jacobian D by Richardson central differences, D^T J12 D = J12 for
          the form dQ^dP + dX^dY; the same for phi_a, phi_b (FD) and phi_c (linear: exact columns);
          step(-h) o step(h) = id to rounding; `integrate` on ascending / descending grids and on the
          time-reversed wrapper equals manual extended stepping from the diagonal, and undoing the
          manual steps in reverse restores the start.
  order   omega passed explicitly and held fixed over n, 2n, 4n, 8n steps: error of the physical
          components against a SciPy DOP853 1e-13 reference flow of an independent NumPy field.
  energy  H(Q,P) (independent NumPy evaluator) along `integrate` over 1e4..1e5 steps: envelope of
          the last third <= 2 x envelope of the first third, confirmed at a 3x longer horizon
          before it is reported.
"""
from __future__ import annotations

import logging
import math

import numpy as np
from hypothesis import strategies as st

from .. import hamtools
from ..hyp import explore
from ..runner import HarnessError

PROPERTY = "C16"
LEVEL = "exploration"
SHARDS = {"quick": 8, "thorough": 16}
# the polynomial Jacobian kernel is a numba-parallel region: with many threads on a shared machine a
# single call costs seconds of spin-wait, with one thread 0.1 ms
NUMBA_THREADS = {"quick": 1, "thorough": 1}
RULE = ("cases = generated (polynomial Hamiltonian deg<=6 in 3 DOF [hamtools.polyham, 50% non-separable], state, |h| in 10^[-3,-0.5] "
        "of either sign, order in {2,4,6,8}, omega explicit in 10^[-1,2] or library heuristic c in {5,20,50}). "
        "map case non-trivial = non-separable H, order >= 4, extended point off the diagonal (|X-Q|,|Y-P| > 1e-3) with >= 2 degrees of "
        "freedom excited; order case non-trivial = >= 2 usable log2 error ratios (errors in [1e-11,1e-2]*scale, >= 8 steps, "
        "(omega+Lambda)*h <= 0.5); energy case non-trivial = bounded orbit whose first-third energy-error envelope is above "
        "the worst-case rounding accumulation 8*N*nsub*eps*max|E|, with coupling omega >= Lambda; distinct by full input")
ASSUMPTIONS = [
    "documented two-form on the extended space is dQ^dP + dX^dY (Tao 2016, cited by the module; q_ext ordering [Q,P,X,Y] from the sub-flow docstrings)",
    "finite-difference Jacobian: 3-level Richardson central differences (d, 2d, 4d, d=1e-2); its error is estimated by the difference of the last two "
    "Richardson levels plus 256*eps*scale/d rounding; symplecticity tolerance 4*(|D|_2*e + e^2), never below 1e-12; cases with e > 1e-6 are counted trivial",
    "reversibility tolerance max(64, 4*nsub)*eps*scale, nsub = 2*5*3^(order/2-1) sub-flow applications in a there-and-back step (each commits O(ulp) of the state scale)",
    "integrate-vs-manual-stepping tolerance: the above per step plus the conditioning of the heuristic omega=(c*dt)^-order itself "
    "(an ulp of omega moves the rotation angle by eps*|2*omega*dt| and the state by that times |dt|*|grad H|); instances where this exceeds 1e-9 are not compared",
    "the (Q,P) round trip through integrate is NOT required to be exact: integrate re-initialises X=Q, Y=P, so only the extended state is exactly reversible",
    "order: better of the two finest pairwise log2 error ratios >= order - 0.5, only resolutions with >= 8 steps, (omega+Lambda)*h <= 0.5 "
    "(Lambda = spectral norm of the Hessian of the quadratic part of H = largest linear frequency; the asymptotic regime of a splitting with a rotation of angle 2*omega*h) and errors in [1e-11,1e-2]*scale; fewer than 2 ratios => trivial, never failed",
    "order, convergence at all: if after three halvings starting from (omega+Lambda)*h <= 0.5 the error is still > 1e-2*scale and has not even halved, the scheme is reported as not convergent",
    "energy: asserted only for effective coupling omega >= Lambda (largest linear frequency of H); for omega << Lambda (e.g. the library heuristic with c*dt > 1, "
    "omega=(c*dt)^-order << 1) the two phase-space copies decouple and H(Q,P) drifts ~t^2 by construction of Tao's method (measured: order 8, c=50, dt=0.061, "
    "omega=1.3e-4: envelope x14 over 3e4 steps; bounded again for omega >= 0.01) - not reported as a violation",
    "energy: orbits that leave |x|_inf <= 5 or become non-finite are outside the domain (bounded region) and counted trivial; "
    "an envelope ratio > 2 is reported only if it is also > 2 on a 3x longer run (a slow beat is not a drift)",
    "reference flow: SciPy DOP853 rtol=atol=1e-13 on an independently written NumPy gradient (vf.hamtools)",
]

logging.disable(logging.CRITICAL)

EPS = float(np.finfo(float).eps)
_J6 = np.block([[np.zeros((3, 3)), np.eye(3)], [-np.eye(3), np.zeros((3, 3))]])
J12 = np.block([[_J6, np.zeros((6, 6))], [np.zeros((6, 6)), _J6]])

_S = {}
_hs = {}


def _lib():
    if not _S:
        from hiten.algorithms.integrators import symplectic as S
        from hiten.algorithms.dynamics.base import _DirectedSystem
        _S["S"] = S
        _S["Directed"] = _DirectedSystem
    return _S["S"]


def _system(H):
    key = repr((H["terms"], H["maxdeg"]))
    if key not in _hs:
        _hs.clear()
        _hs[key] = (hamtools.make_hamsys(H["terms"], H["maxdeg"]), hamtools.compile_terms(H["terms"]))
    return _hs[key]


def _xmax(ctx, key, v):
    """per-shard running maximum (the runner concatenates lists across shards)"""
    v = float(v)
    if not math.isfinite(v):
        return
    cur = ctx.extra.setdefault(key, [v])
    cur[0] = max(cur[0], v)


def _sample_now(ctx, kind, every):
    """Keep the first three non-trivial cases of each clause per shard, then every `every`-th."""
    seen = ctx.__dict__.setdefault("_c16_seen", {})
    seen[kind] = seen.get(kind, 0) + 1
    return seen[kind] <= 3 or seen[kind] % every == 0


def _nsub(order):
    return 5 * 3 ** (order // 2 - 1)


def _Hvec(KC, X):
    K, c = KC
    X = np.asarray(X, dtype=float)
    out = np.empty(X.shape[0])
    for i in range(0, X.shape[0], 20000):
        blk = X[i:i + 20000]
        out[i:i + 20000] = np.sum(c[None, :] * np.prod(blk[:, None, :] ** K[None, :, :], axis=2), axis=1)
    return out


def _lambda(H):
    """Spectral norm of the Hessian of the quadratic part of H (= largest linear frequency for sum w_i (q_i^2+p_i^2)/2)."""
    A = np.zeros((6, 6))
    for r in H["terms"]:
        if sum(r[:6]) != 2:
            continue
        idx = [v for v in range(6) for _ in range(r[v])]
        if idx[0] == idx[1]:
            A[idx[0], idx[0]] += 2.0 * r[6]
        else:
            A[idx[0], idx[1]] += r[6]
            A[idx[1], idx[0]] += r[6]
    return float(np.linalg.norm(A, 2))


# ------------------------------------------------------------------ generators
def _ham(eps_max=0.3):
    return st.sampled_from([4, 6]).flatmap(lambda d: hamtools.polyham(maxdeg=d, eps_max=eps_max))


_omega = st.one_of(
    st.fixed_dictionaries({"kind": st.just("fixed"), "lw": st.floats(-1.0, 2.0)}),
    st.fixed_dictionaries({"kind": st.just("heur"), "c": st.sampled_from([5.0, 20.0, 50.0])}),
)


@st.composite
def map_case(draw):
    return {"kind": "map", "H": draw(_ham()), "z": [draw(st.floats(-0.5, 0.5)) for _ in range(12)],
            "order": draw(st.sampled_from([4, 6, 8, 2])), "lh": draw(st.floats(-3.0, -0.5)),
            "neg": draw(st.booleans()), "om": draw(_omega), "m": draw(st.integers(1, 4)),
            "stretch": [draw(st.sampled_from([1.0, 1.0, 0.5, 0.75, 1.5])) for _ in range(4)]}


@st.composite
def order_case(draw):
    return {"kind": "order", "H": draw(_ham()), "x0": [draw(st.floats(-0.5, 0.5)) for _ in range(6)],
            "order": draw(st.sampled_from([4, 6, 8, 2])), "lw": draw(st.floats(-1.0, 1.0)), "T": draw(st.floats(1.0, 3.0))}


@st.composite
def energy_case(draw):
    """Effective coupling by construction: polyham frequencies are <= 2, explicit omega >= 10^0.5, heuristic omega = (c*h)^-order >= 0.7^-2 > 2."""
    case = {"kind": "energy", "H": draw(_ham(eps_max=0.25)), "x0": [draw(st.floats(-0.3, 0.3)) for _ in range(6)],
            "order": draw(st.sampled_from([4, 2, 2, 4, 6, 8]))}
    if draw(st.booleans()):
        case["om"] = {"kind": "fixed", "lw": draw(st.floats(0.5, 2.0))}
        case["lh"] = draw(st.floats(-1.5, -0.7))
    else:
        c = draw(st.sampled_from([20.0, 5.0, 50.0]))
        case["om"] = {"kind": "heur", "c": c}
        case["lh"] = math.log10(draw(st.floats(0.1, 0.7)) / c)
    return case


# ------------------------------------------------------------------ clause 1 + 2: the step map
def _richardson(f, x, d=1e-2):
    """Jacobian of f at x by 3-level Richardson extrapolation of central differences; returns (D, err_estimate)."""
    n = x.size

    def cd(dd):
        D = np.empty((n, n))
        for j in range(n):
            e = np.zeros(n)
            e[j] = dd
            D[:, j] = (f(x + e) - f(x - e)) / (2.0 * dd)
        return D

    A1, A2, A4 = cd(d), cd(2 * d), cd(4 * d)
    R1 = (4.0 * A1 - A2) / 3.0
    R2 = (4.0 * A2 - A4) / 3.0
    RR = (16.0 * R1 - R2) / 15.0
    return RR, float(np.linalg.norm(RR - R1))


def _sympl_defect(D):
    return float(np.max(np.abs(D.T @ J12 @ D - J12)))


def _check_sympl(ctx, case, name, f, x, scale, linear=False):
    """Returns True when the verdict was meaningful (FD reliable)."""
    if linear:
        n = x.size
        D = np.empty((n, n))
        for j in range(n):
            e = np.zeros(n)
            e[j] = 1.0
            D[:, j] = f(e)
        e_fd = 64.0 * EPS
    else:
        D, e_r = _richardson(f, x)
        e_fd = e_r + 256.0 * EPS * scale / 1e-2
    if not np.all(np.isfinite(D)) or e_fd > 1e-6:
        return False
    nD = float(np.linalg.norm(D, 2))
    tol = max(1e-12, 4.0 * (nD * e_fd + e_fd * e_fd))
    dfc = _sympl_defect(D)
    if not dfc <= tol:
        ctx.fail("not-symplectic:%s" % name, case,
                 "%s: max|D^T J12 D - J12| = %.3g > tol %.3g (|D|_2 = %.3g, FD error estimate %.2g)" % (name, dfc, tol, nD, e_fd))
    return True


def eval_map(case, ctx):
    S = _lib()
    hs, KC = _system(case["H"])
    jac, clmo = hs.jac_H, hs.clmo_H
    order = int(case["order"])
    h = (-1.0 if case["neg"] else 1.0) * 10.0 ** case["lh"]
    z = np.array(case["z"], dtype=float)
    if case["om"]["kind"] == "heur":
        c = float(case["om"]["c"])
        omega = float(S._get_tao_omega(h, order, c))
        want = (c * abs(h)) ** (-order)
        if not abs(omega - want) <= 16.0 * order * EPS * want:
            ctx.fail("omega-heuristic-not-(c*dt)^-order", case, "_get_tao_omega(%r,%d,%r) = %r, documented (c*delta)^(-order) = %r" % (h, order, c, omega, want))
    else:
        omega = 10.0 ** case["om"]["lw"]
        c = omega ** (-1.0 / order) / abs(h)

    def step(x, hh=h):
        q = np.array(x, dtype=float)
        S._recursive_update_poly(q, hh, order, omega, jac, clmo)
        return q

    def phi_a(x):
        q = np.array(x, dtype=float)
        S._phi_H_a_update_poly(q, h, jac, clmo)
        return q

    def phi_b(x):
        q = np.array(x, dtype=float)
        S._phi_H_b_update_poly(q, h, jac, clmo)
        return q

    def phi_c(x):
        q = np.array(x, dtype=float)
        S._phi_omega_H_c_update_poly(q, h, omega)
        return q

    y = step(z)
    if not np.all(np.isfinite(y)):
        ctx.case(cls="map:non-finite-step")
        return
    scale = max(1.0, float(np.max(np.abs(z))), float(np.max(np.abs(y))))
    off = min(float(np.max(np.abs(z[6:9] - z[0:3]))), float(np.max(np.abs(z[9:12] - z[3:6])))) > 1e-3
    ndof = sum(1 for i in range(3) if max(abs(z[i]), abs(z[3 + i]), abs(z[6 + i]), abs(z[9 + i])) > 1e-3)
    nonsep = hamtools.is_nonseparable(case["H"]["terms"])

    # (1) symplecticity of the full step and of each sub-flow
    ok = _check_sympl(ctx, case, "step:order%d" % order, step, z, scale)
    oks = [_check_sympl(ctx, case, "phi_a", phi_a, z, scale), _check_sympl(ctx, case, "phi_b", phi_b, z, scale),
           _check_sympl(ctx, case, "phi_c", phi_c, z, scale, linear=True)]

    # (2) reversibility of one step on the extended state
    back = step(y, -h)
    tol_rt = max(64.0, 4.0 * 2 * _nsub(order)) * EPS * scale
    err = float(np.max(np.abs(back - z)))
    if not err <= tol_rt:
        ctx.fail("step-not-reversible:order%d" % order, case,
                 "step(-h) o step(h) moved the extended state by %.3g (= %.0f eps*scale) > tol %.3g" % (err, err / (EPS * scale), tol_rt))
    _xmax(ctx, "roundtrip_max_eps_per_shard", err / (EPS * scale))

    # (2') integrate == manual extended stepping from the diagonal; reversed problem; undoing restores
    icls = _check_integrate(ctx, case, S, hs, KC, order, h, c, scale)

    nt = ("map", repr(case)) if (ok and nonsep and order >= 4 and off and ndof >= 2) else None
    ctx.case(nontrivial=nt, cls=["map:order%d" % order, "map:nonsep" if nonsep else "map:sep", "map:omega-%s" % case["om"]["kind"],
                                 "map:h<0" if h < 0 else "map:h>0", "map:deg%d" % case["H"]["maxdeg"],
                                 "map:omega*|h|>=1" if omega * abs(h) >= 1 else "map:omega*|h|<1", icls,
                                 "map:fd-reliable" if (ok and all(oks)) else "map:fd-unreliable"],
             sample={"case": case, "omega": omega, "roundtrip_err": err} if nt and _sample_now(ctx, "map", 15) else None)


def _manual(S, hs, order, c, y0, dts):
    """Extended stepping from the diagonal with the real step; returns list of extended states (incl. start)."""
    q = np.concatenate([y0, y0]).astype(float)
    out = [q.copy()]
    for dt in dts:
        om = float(S._get_tao_omega(float(dt), order, c))
        S._recursive_update_poly(q, float(dt), order, om, hs.jac_H, hs.clmo_H)
        out.append(q.copy())
    return out


def _check_integrate(ctx, case, S, hs, KC, order, h, c, scale):
    m = int(case["m"])
    y0 = np.array(case["z"][:6], dtype=float)
    inc = np.array([abs(h) * s for s in case["stretch"][:m]])
    t = np.concatenate([[0.0], np.cumsum(inc)])
    if h < 0:
        t = -t                                   # descending grid: the library's own reversibility test integrates like this
    integ = S.ExtendedSymplectic(order=order, c_omega_heuristic=c)
    if integ.order != order:
        ctx.fail("declared-order-mismatch", case, "ExtendedSymplectic(order=%d).order = %r" % (order, integ.order))
    sol = integ.integrate(hs, y0.copy(), t)
    st_ = np.asarray(sol.states)
    dts = np.diff(t)
    ext = _manual(S, hs, order, c, y0, dts)
    man = np.array([e[:6] for e in ext])
    if not np.all(np.isfinite(man)):
        return "map:integrate:non-finite"
    sc = max(scale, float(np.max(np.abs(man))))
    g = max(float(np.max(np.abs(hamtools.H_grad(KC, e[:6])))) for e in ext)
    g = max(g, max(float(np.max(np.abs(hamtools.H_grad(KC, np.concatenate([e[0:3], e[9:12]]))))) for e in ext))
    dtm = float(np.max(np.abs(dts)))
    om_max = max((c * abs(float(dt))) ** (-order) for dt in dts)
    # conditioning of the heuristic omega: one ulp of omega -> angle error eps*|2 omega dt| per rotation, acting on |Q-X|,|P-Y| = O(|dt| |grad H|)
    cond = 8.0 * EPS * (2.0 * om_max * dtm) * (3.0 * dtm * g + float(max(np.max(np.abs(e[0:6] - e[6:12])) for e in ext))) * _nsub(order) * m
    tol = m * 4.0 * _nsub(order) * EPS * sc + cond
    if cond > 1e-9:
        return "map:integrate:heuristic-omega-ill-conditioned"
    if st_.shape != man.shape:
        ctx.fail("integrate-shape", case, "states shape %r for %d time nodes" % (st_.shape, t.size))
        return "map:integrate:compared"
    if not np.array_equal(st_[0], y0):
        ctx.fail("integrate-first-sample-not-y0", case, "states[0] != y0")
    if not np.array_equal(np.asarray(sol.times), t):
        ctx.fail("integrate-times-not-requested-grid", case, "returned times differ from t_vals")
    e1 = float(np.max(np.abs(st_ - man)))
    grid = "descending-grid" if h < 0 else "ascending-grid"
    if not e1 <= tol:
        ctx.fail("integrate-differs-from-extended-stepping:%s" % grid, case,
                 "integrate vs manual _recursive_update_poly stepping from X=Q,Y=P with omega=(c*dt)^-order: max diff %.3g > tol %.3g" % (e1, tol))
    # time-reversed wrapper (sign carried by the system, grid kept ascending by the caller)
    if h < 0:
        dsys = _S["Directed"](hs, fwd=-1)
        sol2 = integ.integrate(dsys, y0.copy(), -t)
        e2 = float(np.max(np.abs(np.asarray(sol2.states) - man)))
        if not e2 <= tol:
            ctx.fail("integrate-differs-from-extended-stepping:directed-system-backward", case,
                     "integrate(_DirectedSystem(fwd=-1), ascending grid) vs manual stepping with -dt: max diff %.3g > tol %.3g" % (e2, tol))
    # undoing the m steps in reverse order restores the diagonal start (extended state, omega from the heuristic)
    q = ext[-1].copy()
    for dt in dts[::-1]:
        om = float(S._get_tao_omega(float(-dt), order, c))
        S._recursive_update_poly(q, float(-dt), order, om, hs.jac_H, hs.clmo_H)
    e3 = float(np.max(np.abs(q - ext[0])))
    tol3 = m * max(64.0, 8.0 * _nsub(order)) * EPS * sc + cond
    if not e3 <= tol3:
        ctx.fail("multi-step-not-reversible:order%d" % order, case,
                 "%d steps forward then the opposite steps in reverse order: extended state off by %.3g > tol %.3g" % (m, e3, tol3))
    return "map:integrate:compared"


# ------------------------------------------------------------------ clause 3: order with omega fixed
THETA_CAP = 0.5


def eval_order(case, ctx):
    S = _lib()
    hs, KC = _system(case["H"])
    order = int(case["order"])
    omega = 10.0 ** case["lw"]
    T = float(case["T"])
    x0 = np.array(case["x0"], dtype=float)
    nonsep = hamtools.is_nonseparable(case["H"]["terms"])
    try:
        ref = hamtools.ref_flow(KC, x0, [0.0, T])[-1]
    except RuntimeError:
        ref = None
    if ref is None or not np.all(np.isfinite(ref)) or np.max(np.abs(ref)) > 5.0:
        ctx.case(cls="order:reference-unusable")
        return
    scale = max(1.0, float(np.max(np.abs(ref))))
    lam = _lambda(case["H"])
    n0 = 8
    while T * (omega + lam) / n0 > THETA_CAP:
        n0 *= 2
    good = []
    allerr = []
    for k in range(4):
        n = n0 * 2 ** k
        h = T / n
        q = np.concatenate([x0, x0])
        for _ in range(n):
            S._recursive_update_poly(q, h, order, omega, hs.jac_H, hs.clmo_H)
        e = float(np.max(np.abs(q[:6] - ref)))
        if not np.isfinite(e):
            e = float("inf")
        allerr.append((n, e))
        if 1e-11 * scale <= e <= 1e-2 * scale:
            good.append((n, e))
        if e < 1e-11 * scale:
            break
    ratios = [math.log2(good[i][1] / good[i + 1][1]) for i in range(len(good) - 1) if good[i + 1][0] == 2 * good[i][0]]
    nt = ("order", repr(case)) if len(ratios) >= 2 else None
    best = float(max(ratios[-2:])) if len(ratios) >= 2 else None
    ctx.case(nontrivial=nt, cls=["order:order%d" % order, "order:nonsep" if nonsep else "order:sep", "order:ratios=%d" % len(ratios),
                                 "order:omega>=1" if omega >= 1 else "order:omega<1"],
             sample={"case": case, "errors": good, "log2_ratios": ratios} if nt and _sample_now(ctx, "order", 8) else None)
    if len(allerr) == 4 and allerr[-1][1] > 1e-2 * scale and not allerr[-1][1] < 0.5 * allerr[0][1]:
        # "converges" at all: three halvings from (omega+Lambda)*h <= 0.5 must at least halve an error that is still > 1e-2
        ctx.fail("no-convergence:order%d" % order, case,
                 "omega=%.4g fixed, T=%.3g: error does not decrease under step halving: %s" % (omega, T, ["%d:%.2e" % ne for ne in allerr]))
    if best is not None:
        _xmax(ctx, "order_shortfall_max_per_shard:order%d" % order, order - best)
        if best < order - 0.5:
            ctx.fail("observed-order-below-declared:order%d" % order, case,
                     "declared order %d, omega=%.4g fixed, T=%.3g: best of the two finest log2 error ratios %.2f; errors %s"
                     % (order, omega, T, best, ["%d:%.2e" % ne for ne in good]))


# ------------------------------------------------------------------ clause 4: bounded energy
def _nsteps(ctx, order):
    quick = {2: 40000, 4: 20000, 6: 10000, 8: 10000}
    thorough = {2: 100000, 4: 60000, 6: 30000, 8: 15000}
    return (quick if ctx.tier == "quick" else thorough)[order]


def _envelopes(S, hs, KC, order, c, x0, h, N):
    tv = np.arange(N + 1, dtype=float) * h
    sol = S.ExtendedSymplectic(order=order, c_omega_heuristic=c).integrate(hs, x0.copy(), tv)
    tr = np.asarray(sol.states)
    if tr.shape != (N + 1, 6) or not np.all(np.isfinite(tr)) or np.max(np.abs(tr)) > 5.0:
        return None
    E = _Hvec(KC, tr)
    e = np.abs(E - E[0])
    return float(np.max(np.abs(E))), float(e[: N // 3].max()), float(e[N // 3: 2 * N // 3].max()), float(e[2 * N // 3:].max())


def eval_energy(case, ctx, N=None):
    S = _lib()
    hs, KC = _system(case["H"])
    order = int(case["order"])
    h = 10.0 ** case["lh"]
    x0 = np.array(case["x0"], dtype=float)
    if case["om"]["kind"] == "heur":
        c = float(case["om"]["c"])
    else:
        c = (10.0 ** case["om"]["lw"]) ** (-1.0 / order) / h
    omega = (c * h) ** (-order)
    N = int(N or case.get("N") or _nsteps(ctx, order))
    nonsep = hamtools.is_nonseparable(case["H"]["terms"])
    cls = ["energy:order%d" % order, "energy:nonsep" if nonsep else "energy:sep", "energy:omega-%s" % case["om"]["kind"]]
    if omega < _lambda(case["H"]):
        # Tao's binding needs omega above a system-dependent threshold; with omega << Lambda the two copies decouple and
        # H(Q,P) = Hbar/2 + grad H.(Q-X,P-Y)/2 drifts with |Q-X| by construction of the method: outside the asserted domain
        ctx.case(cls=cls + ["energy:weak-coupling-out-of-domain"])
        return
    res = _envelopes(S, hs, KC, order, c, x0, h, N)
    if res is None:
        ctx.case(cls=cls + ["energy:orbit-left-bounded-region"])
        return
    E0, a, b, d = res
    # worst-case (linear) accumulation of per-sub-flow rounding in the energy over the run must stay well below the envelope
    floor = 8.0 * N * _nsub(order) * EPS * max(E0, 1e-3)
    if a <= floor:
        ctx.case(cls=cls + ["energy:error-at-rounding-floor"])
        return
    ratio = d / a
    rb = "energy:ratio<1.1" if ratio < 1.1 else ("energy:ratio<1.5" if ratio < 1.5 else ("energy:ratio<2" if ratio <= 2 else "energy:ratio>2"))
    ctx.case(nontrivial=("energy", repr(case)), cls=cls + [rb],
             sample={"case": dict(case, N=N), "omega": omega, "E0": E0, "envelopes": [a, b, d]} if _sample_now(ctx, "energy", 3) else None)
    _xmax(ctx, "energy_envelope_ratio_max_per_shard", ratio)
    ctx.extra["energy_steps_total"] = ctx.extra.get("energy_steps_total", 0) + N
    if ratio > 2.0:
        res3 = _envelopes(S, hs, KC, order, c, x0, h, 3 * N)
        if res3 is None:
            ctx.fail("energy-drift:orbit-lost:order%d" % order, dict(case, N=N),
                     "energy-error envelope grew %.2fx over %d steps and the orbit left the bounded region within %d steps" % (ratio, N, 3 * N))
            return
        _, a3, b3, d3 = res3
        if d3 > 2.0 * a3:
            ctx.fail("energy-drift:order%d" % order, dict(case, N=N),
                     "h=%.4g omega=%.4g: |H(Q,P)-H0| envelope thirds %.3g/%.3g/%.3g over %d steps (x%.2f) and %.3g/%.3g/%.3g over %d steps (x%.2f)"
                     % (h, omega, a, b, d, N, ratio, a3, b3, d3, 3 * N, d3 / a3))
        else:
            ctx.case(cls="energy:slow-beat-not-drift")


# positive control: the drift detector must see the secular energy drift of a non-symplectic scheme of the same library
_CTRL = {"H": {"terms": [[2, 0, 0, 0, 0, 0, 0.5], [0, 0, 0, 2, 0, 0, 0.5], [0, 2, 0, 0, 0, 0, 0.7], [0, 0, 0, 0, 2, 0, 0.7],
                         [0, 0, 2, 0, 0, 0, 0.4], [0, 0, 0, 0, 0, 2, 0.4], [1, 1, 0, 1, 0, 0, 0.1], [0, 1, 1, 0, 0, 1, -0.08],
                         [2, 0, 0, 0, 1, 1, 0.05]], "maxdeg": 4, "nonsep": True},
         "x0": [0.3, -0.2, 0.25, 0.1, 0.3, -0.15], "h": 0.25, "N": 12000}


def control(ctx):
    from hiten.algorithms.integrators.rk import RungeKutta
    hs, KC = _system(_CTRL["H"])
    N = _CTRL["N"]
    tv = np.arange(N + 1, dtype=float) * _CTRL["h"]
    tr = np.asarray(RungeKutta(order=4).integrate(hs, np.array(_CTRL["x0"]), tv).states)
    E = _Hvec(KC, tr)
    e = np.abs(E - E[0])
    a, d = float(e[: N // 3].max()), float(e[2 * N // 3:].max())
    ctx.extra["rk4_control_envelope_ratio"] = d / a if a > 0 else float("inf")
    if not d > 2.0 * a:
        raise HarnessError("drift detector insensitive: RK4 control envelopes %.3g -> %.3g" % (a, d))


# ------------------------------------------------------------------ driver
def run(ctx):
    import time
    ph = ctx.extra.setdefault("phase_seconds_summed_over_shards", {})   # diagnostics only, never an oracle
    t0 = time.time()
    _lib()
    _system(_CTRL["H"])
    ph["import+jit"] = time.time() - t0
    if ctx.shard == 0:
        control(ctx)
    for label, strat, ev, n, shrink in (("map", map_case(), eval_map, ctx.scale(200, 6000), True),
                                        ("order", order_case(), eval_order, ctx.scale(120, 2400), False),
                                        ("energy", energy_case(), eval_energy, ctx.scale(24, 192), False)):
        t0 = time.time()
        explore(ctx, label, strat, ev, ctx.share(n), shrink=shrink)
        ph[label] = time.time() - t0


def replay(ctx, payload):
    kind = payload.get("kind")
    if kind == "map":
        eval_map(payload, ctx)
    elif kind == "order":
        eval_order(payload, ctx)
    elif kind == "energy":
        eval_energy(payload, ctx)
    else:
        raise HarnessError("unknown replay payload kind %r" % (kind,))
