"""C04 — libration points are equilibria with correct linear dynamics for every mu.

Generated mass ratios (log-uniform to 1e-9, all catalogue pairs through
System.from_bodies, edge values from constants found in the code) x points L1..L5.
Oracle: own SymPy field/Hessian at the reported position, 30-digit mpmath root of
dOmega/dx, Taylor coefficients of the exact potential along the library's own local
x-axis, eigen-structure of the oracle Jacobian, symplectic form and H2∘C.
"""
from __future__ import annotations

import logging
import math

import mpmath as mp
import numpy as np
from hypothesis import strategies as st

from .. import gen
from ..hyp import explore
from ..oracle import cr3bp as O
from ..runner import HarnessError

PROPERTY = "C04"
LEVEL = "exploration"
SHARDS = {"quick": 8, "thorough": 16}
RULE = ("cases = (mu, point index) with mu from a mixture (log-uniform on [1e-9,0.5], all catalogue pairs, uniform [1e-3,0.5], edge values) and "
        "every catalogue pair through System.from_bodies (exhaustive); non-trivial = mu not within 1% of Earth-Moon / Sun-Earth / Sun-Jupiter "
        "(the values the test-suite uses); distinct by (mu to 6 significant digits, point)")
ASSUMPTIONS = [
    "triangular points: for mu >= mu_Routh - 1e-6 a RuntimeError from linear_modes/normal_form_transform is accepted (no elliptic normal form exists); position/equilibrium still checked",
    "equilibrium tolerance 2e-10*max(1,||Hess Omega||) + rounding, position within 2e-10 of the 30-digit root (the library documents Brent xtol 1e-12, 1e-10 in its fallback)",
    "c_n compared to the Taylor coefficients of the exact potential along the library's own local x-axis (measured through _local2synodic_collinear)",
]
logging.disable(logging.CRITICAL)
mp.mp.dps = 30
SUITE_MUS = (0.01215058560962404, 3.0034805945423304e-06, 0.0009536838895767034)
J6 = np.block([[np.zeros((3, 3)), np.eye(3)], [-np.eye(3), np.zeros((3, 3))]])


def _true_collinear_x(mu, idx):
    m = mp.mpf(mu)

    def dOm(x):
        return x - (1 - m) * (x + m) / abs(x + m) ** 3 - m * (x - 1 + m) / abs(x - 1 + m) ** 3
    rh = (m / 3) ** (mp.mpf(1) / 3)
    if idx == 1:
        lo, hi = 1 - m - rh, 1 - m - rh * mp.mpf("0.4")
    elif idx == 2:
        lo, hi = 1 - m + rh * mp.mpf("0.5"), 1 - m + rh * 2
    else:
        lo, hi = mp.mpf("-1.3"), -m - mp.mpf("0.5")
    # bisection in 30 digits (dOmega/dx is monotone between the singularities)
    flo, fhi = dOm(lo), dOm(hi)
    if flo * fhi > 0:
        raise HarnessError("oracle bracket for L%d at mu=%r does not straddle the root" % (idx, mu))
    for _ in range(110):
        mid = (lo + hi) / 2
        fm = dOm(mid)
        if (fm > 0) == (fhi > 0):
            hi, fhi = mid, fm
        else:
            lo, flo = mid, fm
    return (lo + hi) / 2


def _cn_true(mu, X0, dX, gamma, nmax):
    """c_n = (1/gamma^2) (1/n!) d^n/dx^n W(X0 + dX x) with W the gravitational potential on the axis."""
    m = mp.mpf(mu)
    X0 = mp.mpf(X0); dX = mp.mpf(dX)

    def W(x):
        X = X0 + dX * x
        return (1 - m) / abs(X + m) + m / abs(X - 1 + m)
    # closed form of the derivatives of 1/|X - c| along the axis: n! * s^n * dX^n / |X0-c|^(n+1)
    out = []
    for n in range(nmax + 1):
        tot = mp.mpf(0)
        for mass, c in ((1 - m, -m), (m, 1 - m)):
            d = X0 - c
            tot += mass * (-mp.sign(d) * dX) ** n / abs(d) ** (n + 1)
        out.append(tot / mp.mpf(gamma) ** 2)
    return [float(v) for v in out], [float(abs(v)) for v in out]


@st.composite
def mu_case(draw):
    return {"mu": draw(gen.mu()), "point": draw(st.integers(1, 5)), "via": "from_mu"}


def _classify(mu):
    return any(abs(mu - m) <= 0.01 * m for m in SUITE_MUS)


def eval_point(case, ctx):
    from hiten import System
    mu = float(case["mu"]); idx = int(case["point"])
    L = "L%d" % idx
    nt = None if _classify(mu) else ("%.5e" % mu, idx)
    band = "mu<1e-8" if mu < 1e-8 else "mu<1e-6" if mu < 1e-6 else "mu<1e-3" if mu < 1e-3 else "mu<routh" if mu < gen.ROUTH else "mu>=routh"
    ctx.case(nontrivial=nt, cls=[L, band, "via:" + case["via"]], sample=case if ctx.evaluations % 97 == 0 else None)
    try:
        if case["via"] == "from_mu":
            sysm = System.from_mu(mu)
        else:
            sysm = System.from_bodies(case["primary"], case["secondary"])
            if abs(sysm.mu - mu) > 4e-16 * mu:
                ctx.fail("from_bodies-mu", case, "System.from_bodies(%s,%s).mu=%r, m2/(m1+m2)=%r" % (case["primary"], case["secondary"], sysm.mu, mu))
        pt = sysm.get_libration_point(idx)
        pos = np.asarray(pt.position, dtype=float)
    except Exception as e:
        ctx.fail("%s:not-returned:%s" % (L, type(e).__name__), case, "position raised %s: %s" % (type(e).__name__, str(e)[:300]))
        return
    # (b) equilibrium of the equations of motion
    s = np.concatenate([pos, np.zeros(3)])
    if not np.all(np.isfinite(pos)):
        ctx.fail("%s:position-not-finite" % L, case, repr(pos)); return
    r1, r2 = O.distances(s, mu)
    if min(r1, r2) < 1e-8:
        ctx.fail("%s:position-on-a-primary" % L, case, repr(pos)); return
    f = O.field(s, mu)
    H = O.hess_omega(pos[0], pos[1], pos[2], mu)
    tol_eq = 2e-10 * max(1.0, float(np.max(np.abs(H)))) + 64 * 2.3e-16 * (O.field_scale(s, mu) + O.field_cond(s, mu))
    if not np.linalg.norm(f) <= tol_eq:
        ctx.fail("%s:not-an-equilibrium" % L, case, "|f(position,0)|=%.3g (tolerance %.3g) at %r" % (np.linalg.norm(f), tol_eq, pos.tolist()))
        return
    if idx <= 3:
        if not (pos[1] == 0 and pos[2] == 0):
            ctx.fail("%s:collinear-point-off-axis" % L, case, repr(pos))
        ok = {1: -mu < pos[0] < 1 - mu, 2: pos[0] > 1 - mu, 3: pos[0] < -mu}[idx]
        if not ok:
            ctx.fail("%s:wrong-side-of-primaries" % L, case, "x=%r" % pos[0]); return
        xt = _true_collinear_x(mu, idx)
        if not abs(mp.mpf(float(pos[0])) - xt) <= 2e-10:
            ctx.fail("%s:position-inaccurate" % L, case, "x=%.17g true=%s" % (pos[0], mp.nstr(xt, 20)))
        # (c) gamma agrees with the position
        try:
            g = float(pt.dynamics.gamma)
        except Exception as e:
            ctx.fail("%s:gamma-raises:%s" % (L, type(e).__name__), case, str(e)[:300]); return
        want_x = {1: 1 - mu - g, 2: 1 - mu + g, 3: -mu - g}[idx]
        gt = float(abs(xt - {1: 1 - mp.mpf(mu), 2: 1 - mp.mpf(mu), 3: -mp.mpf(mu)}[idx]))
        if not abs(pos[0] - want_x) <= 1e-9:
            ctx.fail("%s:gamma-disagrees-with-position" % L, case, "x=%.17g but primary-offset -/+ gamma = %.17g (gamma=%.17g)" % (pos[0], want_x, g))
        if not abs(g - gt) <= 1e-10 + 1e-9 * gt:
            ctx.fail("%s:gamma-inaccurate" % L, case, "gamma=%.17g true=%.17g" % (g, gt))
            return
        # local frame of the library: origin and x-axis
        from hiten.algorithms.hamiltonian.transforms import _local2synodic_collinear
        o = _local2synodic_collinear(pt, np.zeros(6))
        e1 = _local2synodic_collinear(pt, np.array([1.0, 0, 0, 0, 0, 0]))
        if not np.max(np.abs(o[:3] - pos)) <= 1e-9:
            ctx.fail("%s:local-origin-not-at-position" % L, case, "local origin maps to %r, position %r" % (o[:3].tolist(), pos.tolist()))
        dX = e1[0] - o[0]
        if not abs(abs(dX) - g) <= 1e-12:
            ctx.fail("%s:local-length-scale-not-gamma" % L, case, "|dX/dx|=%r gamma=%r" % (abs(dX), g))
        # (d) c_n
        cn_t, cn_s = _cn_true(mu, o[0], dX, g, 8)
        for n in range(2, 9):
            try:
                c = float(pt.dynamics.cn(n))
            except Exception as e:
                ctx.fail("%s:cn-raises" % L, case, "cn(%d): %r" % (n, e)); break
            # relative accuracy of gamma (abs 1e-10) enters with power n+4
            tol = (1e-9 + (n + 4) * 2e-10 / g) * max(abs(cn_t[n]), 1e-300) + 1e-12
            if not abs(c - cn_t[n]) <= tol:
                ctx.fail("%s:cn-%s" % (L, "odd" if n % 2 else "even"), case, "c_%d=%.15g, Taylor coefficient of the exact potential=%.15g" % (n, c, cn_t[n]))
                break
    else:
        want = np.array([0.5 - mu, (1 if idx == 4 else -1) * math.sqrt(3) / 2, 0.0])
        if not np.max(np.abs(pos - want)) <= 4e-16:
            ctx.fail("%s:position" % L, case, "%r vs %r" % (pos.tolist(), want.tolist()))
    # (e) linear modes = eigenvalues of the oracle Jacobian at the point
    Jac = O.jacobian(s, mu)
    ev, evec = np.linalg.eig(Jac)
    zsupport = np.array([abs(evec[2, k]) ** 2 + abs(evec[5, k]) ** 2 for k in range(6)])
    vert = [k for k in range(6) if zsupport[k] > 0.5]
    plan = [k for k in range(6) if zsupport[k] <= 0.5]
    if len(vert) != 2:
        raise HarnessError("oracle eigen-structure: expected 2 vertical eigenvectors at %s mu=%r" % (L, mu))
    om_v = float(np.mean(np.abs(ev[vert].imag)))
    jn = float(np.max(np.abs(Jac)))
    try:
        modes = pt.linear_modes
        C, Cinv = pt.normal_form_transform
    except Exception as e:
        if idx >= 4 and mu >= gen.ROUTH - 1e-6 and isinstance(e, RuntimeError):
            ctx.classes["triangular-above-routh-rejected"] += 1
            return
        ctx.fail("%s:linear-modes-raise:%s" % (L, type(e).__name__), case, str(e)[:300]); return
    C = np.asarray(C, float); Cinv = np.asarray(Cinv, float)
    G = H - np.diag([1.0, 1.0, 0.0])            # Hessian of the gravitational potential W
    M = np.zeros((6, 6))
    M[3:, 3:] = np.eye(3)
    M[:3, :3] = -G
    M[1, 3] = M[3, 1] = 1.0                     # + y px
    M[0, 4] = M[4, 0] = -1.0                    # - x py
    # eigenvalue sensitivity to the position error (third derivatives ~ |H|/dist)
    rel = 1e-8 + 1e-10 * jn / max(min(r1, r2), 1e-12)
    if idx <= 3:
        lam, w1, w2 = [float(v) for v in modes]
        real = sorted([abs(ev[k].real) for k in plan if abs(ev[k].imag) < 1e-9 * max(1, jn)])
        imag = sorted([abs(ev[k].imag) for k in plan if abs(ev[k].imag) >= 1e-9 * max(1, jn)])
        if len(real) != 2 or len(imag) != 2:
            raise HarnessError("oracle eigen-structure at %s mu=%r: %r" % (L, mu, ev))
        for name, got, wantv in (("lambda", lam, real[-1]), ("omega-planar", w1, imag[-1]), ("omega-vertical", w2, om_v)):
            if not abs(got - wantv) <= rel * max(1.0, wantv):
                ctx.fail("%s:linear-mode-%s" % (L, name), case, "reported %.15g, eigenvalue of the linearised equations %.15g" % (got, wantv))
        Hn = np.zeros((6, 6))
        Hn[0, 3] = Hn[3, 0] = lam
        Hn[1, 1] = Hn[4, 4] = w1
        Hn[2, 2] = Hn[5, 5] = w2
    else:
        w1, w2, wz = [float(v) for v in modes]
        imag = sorted(set(round(abs(ev[k].imag), 10) for k in plan))
        if len(imag) != 2:
            raise HarnessError("oracle eigen-structure at %s mu=%r: %r" % (L, mu, ev))
        # near Routh's ratio the two planar frequencies coalesce: sensitivity ~ 1/|w1^2-w2^2|
        gap = abs(imag[1] ** 2 - imag[0] ** 2)
        relt = rel / max(gap, 1e-12)
        for name, got, wantv in (("omega-planar-long", abs(w2), imag[0]), ("omega-planar-short", abs(w1), imag[1]), ("omega-vertical", abs(wz), om_v)):
            if not abs(got - wantv) <= relt * max(1.0, wantv):
                ctx.fail("%s:linear-mode-%s" % (L, name), case, "reported %.15g, eigenvalue of the linearised equations %.15g" % (got, wantv))
        Hn = np.diag([w1, w2, wz, w1, w2, wz])
    # (f) symplectic change of variables that reduces H2
    cn2 = float(np.linalg.norm(C, 2)) ** 2
    D = C.T @ J6 @ C - J6
    if not np.max(np.abs(D)) <= 1e-9 * max(1.0, cn2):
        i, j = np.unravel_index(int(np.argmax(np.abs(D))), D.shape)
        ctx.fail("%s:normal-form-transform-not-symplectic" % L, case, "(C^T J C - J)[%d,%d]=%.3g" % (i, j, D[i, j]))
    if not np.max(np.abs(C @ Cinv - np.eye(6))) <= 1e-9 * np.linalg.cond(C):
        ctx.fail("%s:Cinv-not-inverse" % L, case, "max|C Cinv - I|=%.3g" % np.max(np.abs(C @ Cinv - np.eye(6))))
    R = C.T @ M @ C - Hn
    tolR = (rel if idx <= 3 else relt) * max(1.0, cn2) * max(1.0, float(np.max(np.abs(M)))) * 10
    if not np.max(np.abs(R)) <= tolR:
        i, j = np.unravel_index(int(np.argmax(np.abs(R))), R.shape)
        ctx.fail("%s:quadratic-hamiltonian-not-reduced" % L, case,
                 "(C^T Hess(H2) C - normal form)[%d,%d]=%.3g (tolerance %.3g)" % (i, j, R[i, j], tolR))


def run(ctx):
    try:
        O.selftest()
        # oracle self-test: mu=0.5, L1 at x=0 by symmetry
        assert abs(_true_collinear_x(0.5, 1)) < 1e-25
        assert abs(_true_collinear_x(0.01215058560962404, 1) - mp.mpf("0.836915")) < 1e-5
    except AssertionError as e:
        raise HarnessError("oracle self-test failed: %r" % (e,))
    # catalogue, exhaustive (split over shards)
    cat = gen.catalogue_pairs()
    for k, (p, s, m) in enumerate(cat):
        if k % ctx.nshards != ctx.shard:
            continue
        for idx in range(1, 6):
            eval_point({"mu": m, "point": idx, "via": "from_bodies", "primary": p, "secondary": s}, ctx)
    ctx.extra["catalogue_pairs"] = len(cat) if ctx.shard == 0 else 0
    ctx.extra["catalogue_exhaustive"] = True
    explore(ctx, "mu", mu_case(), eval_point, ctx.share(ctx.scale(6000, 150000)))


def replay(ctx, payload):
    eval_point(payload, ctx)
