"""C03 — the state-transition matrix is the derivative of the flow and is symplectic.

Generated (mu, 6-D state >= 0.05 from both primaries, tf in [0.05, 4], method/order, output grid) through
`_compute_stm(System.from_mu(mu).var_dynsys, x0, tf, steps=, method=, order=)`, and periodic orbits corrected by the
library (`orbit.monodromy`, `.stability_indices`, `.eigenvalues`).

Oracles (none shares code with hiten):
 (a) Phi_lib == d(end state)/d(x0) of the LIBRARY'S OWN flow: Richardson-extrapolated central differences of the end
     states of (i) the trajectory part returned by `_compute_stm` and (ii) `System.propagate`, both started from
     perturbed initial states.  For fixed-step Runge-Kutta the variational solution is *exactly* the derivative of
     the numerical flow (internal differentiation), so the tolerance holds only finite-difference terms.
 (b) Phi_lib == D phi_t(x0) from SciPy-DOP853 integration (rtol=atol=1e-13) of the variational equations built from
     the SymPy Jacobian (vf.oracle.cr3bp), at tf and at one generated intermediate output row.
 (c) symplecticity in canonical momenta p = v + omega x r: M = T Phi T^-1, M^T J M = J; det = 1; characteristic
     polynomial palindromic (<=> spectrum closed under lambda -> 1/lambda with multiplicities).
 (e) flow equivariance Phi f(x0) = f(phi_t(x0)) with the oracle field (no reference integration involved).
 (d) periodic orbits: M f(x0) = f(x0) up to the closure error; reported stability indices == (lambda+1/lambda)/2 of
     the oracle monodromy's reciprocal pairs (multiset); reported eigenvalues == spectrum of the oracle monodromy
     (compared through characteristic-polynomial coefficients, which stay well conditioned at the defective
     trivial pair).
"""
from __future__ import annotations

import itertools
import logging
import math

import numpy as np
from hypothesis import strategies as st

from .. import gen
from ..hyp import explore
from ..oracle import cr3bp as O
from ..runner import HarnessError

PROPERTY = "C03"
LEVEL = "exploration"
SHARDS = {"quick": 8, "thorough": 16}
NUMBA_THREADS = {"quick": 2, "thorough": 1}
RULE = ("cases = generated (mu drawn per shard - Earth-Moon on the quick tier's orbit shards -, state6 with delta=0.05, tf in [0.05,4], method/order in fixed{4,6,8}/adaptive{5,8}, "
        "steps in {300,600,1200}, forward=+1) through _compute_stm(System.from_mu(mu).var_dynsys, ...) on benign arcs (reference arc "
        ">= 0.05 from both primaries, max ||Phi(t)|| <= 1e6; the rest is classified and counted, not asserted), plus library-corrected "
        "halo / Lyapunov orbits (L1/L2, generated amplitude); non-trivial STM case = ||Phi_ref(tf) - I|| > 0.1 and spatial (z != 0); "
        "non-trivial orbit = correction succeeded and the oracle closure error < 1e-6; distinct by full generated input")
ASSUMPTIONS = [
    "backward STMs (forward=-1) are not asserted here (the only backward-STM consumer is the manifold service, covered by C12)",
    "eps_x = max over 21 output rows of |x_lib(t) - x_ref(t)| is taken as the integrator's accuracy on the arc (for fixed-step and adaptive "
    "methods alike, so an inaccurate integrator - property C02 - does not alarm here); Phi error bound = 100*(eps_x + 1e-12*(1+L))*L*(1+1/r_min), "
    "L = max_t ||Phi_ref(t)||_2, r_min = closest approach to a primary (d Phi / d x ~ D^2 f ~ 1/r)",
    "symplectic defect bound = 1e3*(eps_x+1e-12)*(1+1/r_min)*(kappa(T)*L)^2 (sum over steps of local relative errors transported by Phi^T . Phi); "
    "|det-1| <= 4*that (det(M)^2 = det(I + J^-1 D)); palindromic coefficients: M = S(I+X) with S symplectic, |X| <= |D|/2, so "
    "|a_k - a_(6-k)| <= 2*bound*|M|*(c_k + c_(6-k)), c_k = C(6,k)*k*s_1..s_(k-1) the first-order sensitivity of a_k = +-tr(Lambda^k M)",
    "finite differences: delta = 3e-3*min(1,r_min)/L, Richardson (delta, delta/2); tolerance = 0.05*|D(delta/2)-D(delta)| + 100*(3e-3)^4*L "
    "+ rounding 10*eps*N*(1+|x|)*L/delta (fixed) or 50*(eps+floor)/delta + Phi error bound (adaptive: the discrete flow is only piecewise smooth)",
    "stability indices are compared with conditioning taken from the reduced cubic q(s)=s^3+a1 s^2+(a2-3)s+(a3-2a1) (s = lambda+1/lambda): "
    "|ds| <= (da1 s^2 + da2 s + da3 + 2 da1)/|q'(s)|, da_k <= 4*C(6,k)*k*s_1..s_(k-1)*(|M_lib - M_ref| + 1e3*eps*|M|); M_lib - M_ref itself is asserted separately",
    "the documented ordering of orbit.eigenvalues ('sorted by decreasing magnitude') is not asserted (not part of the statement)",
]

logging.disable(logging.CRITICAL)
EPS = 2.220446049250313e-16
METHODS = [("fixed", 4), ("fixed", 6), ("fixed", 8), ("adaptive", 5), ("adaptive", 8)]
R_BENIGN = 0.05
L_BENIGN = 1e6
K_PHI = 100.0
K_SYM = 1e3
FD_REL = 3e-3

# canonical coordinates: (q, p) = T (r, v), p = v + omega x r, omega = e_z
_W = np.array([[0.0, -1.0, 0.0], [1.0, 0.0, 0.0], [0.0, 0.0, 0.0]])
_T = np.block([[np.eye(3), np.zeros((3, 3))], [_W, np.eye(3)]])
_Ti = np.block([[np.eye(3), np.zeros((3, 3))], [-_W, np.eye(3)]])
_J = np.block([[np.zeros((3, 3)), np.eye(3)], [-np.eye(3), np.zeros((3, 3))]])
_KAPPA_T = float(np.linalg.norm(_T, 2) * np.linalg.norm(_Ti, 2))

_lib = None
_systems = {}
_margins = {}


def _within(name, err, tol):
    """err <= tol, remembering the tightest margin per check (reported as evidence, never asserted)."""
    if tol > 0 and math.isfinite(tol) and math.isfinite(err):
        r = err / tol
        if r > _margins.get(name, 0.0):
            _margins[name] = r
    return err <= tol


def lib():
    global _lib
    if _lib is None:
        from hiten import System
        from hiten.algorithms.dynamics import rtbp
        _lib = (System, rtbp)
    return _lib


def _system(key):
    """key: float mu, or 'EM' / 'SE' / 'mu:<float>'."""
    if key not in _systems:
        System, _ = lib()
        if key == "EM":
            s = System.from_bodies("earth", "moon")
        elif key == "SE":
            s = System.from_bodies("sun", "earth")
        elif isinstance(key, str):
            s = System.from_mu(float(key.split(":", 1)[1]))
        else:
            s = System.from_mu(float(key))
        _systems[key] = s
    return _systems[key]


# ---------------------------------------------------------------- oracle helpers
def ref_dense(s0, tf, mu):
    """Dense reference solution of the oracle's variational system (state first, then Phi row-major)."""
    from scipy.integrate import solve_ivp
    w0 = np.concatenate([np.asarray(s0, dtype=float), np.eye(6).ravel()])
    sol = solve_ivp(O._rhs_var, (0.0, float(tf)), w0, method="DOP853", rtol=1e-13, atol=1e-13, args=(float(mu),), dense_output=True)
    if not sol.success:
        raise RuntimeError(str(sol.message))
    return sol


def sympl_defect(Phi):
    M = _T @ Phi @ _Ti
    return float(np.linalg.norm(M.T @ _J @ M - _J, 2)), M


def sym_coeffs(M):
    """(a1, a2, a4, a5) of the monic characteristic polynomial without an eigenvalue solver: a1 = -tr M,
    a2 = (tr^2 M - tr M^2)/2, and through the inverse a5 = -det M tr M^-1, a4 = det M (tr^2 M^-1 - tr M^-2)/2.
    Rounding: eps*|M|^2 on a2 (~|M|), eps*|M|^3 on a4/a5 (~|M|), far below the symplectic-defect term of the tolerance."""
    t1 = float(np.trace(M)); t2 = float(np.trace(M @ M))
    Mi = np.linalg.inv(M)
    det = float(np.linalg.det(M))
    u1 = float(np.trace(Mi)); u2 = float(np.trace(Mi @ Mi))
    return -t1, 0.5 * (t1 * t1 - t2), det * 0.5 * (u1 * u1 - u2), -det * u1


def coeff_sens(sv, k):
    """|a_k(M + E) - a_k(M)| <= C(6,k) * k * s_1...s_(k-1) * |E|_2 to first order (a_k = +-tr Lambda^k M)."""
    return math.comb(6, k) * k * float(np.prod(sv[:k - 1]))


def reciprocal_pairs(ev):
    """Perfect matching of 6 eigenvalues minimising sum |l_i l_j - 1| (all 15 matchings); returns pairs, cost."""
    ev = list(ev)

    def matchings(idx):
        if not idx:
            yield []
            return
        a = idx[0]
        for k in range(1, len(idx)):
            b = idx[k]
            rest = idx[1:k] + idx[k + 1:]
            for m in matchings(rest):
                yield [(a, b)] + m
    best, bc = None, None
    for m in matchings(list(range(len(ev)))):
        c = sum(abs(ev[i] * ev[j] - 1.0) for i, j in m)
        if bc is None or c < bc:
            best, bc = m, c
    return best, bc


def selftest():
    O.selftest()
    # T is the canonical transformation: the oracle's own variational flow must be symplectic in (q, p)
    mu = 0.0123
    s0 = np.array([0.6, 0.3, 0.2, -0.2, 0.4, 0.1])
    _, P = O.flow_stm(s0, 1.7, mu)
    d, M = sympl_defect(P)
    assert d < 1e-9 * np.linalg.norm(M, 2) ** 2, "oracle STM not symplectic in canonical momenta: %g" % d
    assert abs(np.linalg.det(P) - 1.0) < 1e-9
    a1, a2, a4, a5 = sym_coeffs(P)
    c = np.poly(P)
    assert max(abs(a1 - c[1]), abs(a2 - c[2]), abs(a4 - c[4]), abs(a5 - c[5])) < 1e-9 * np.max(np.abs(c)), "sym_coeffs disagrees with numpy.poly"
    assert abs(a1 - a5) < 1e-8 * abs(a1) + 1e-9 and abs(a2 - a4) < 1e-8 * abs(a2) + 1e-9
    # a velocity-space (non-canonical) form must NOT be preserved: guards against a vacuous T
    assert np.linalg.norm(P.T @ _J @ P - _J, 2) > 1e-3
    # flow equivariance of the oracle
    xT = O.flow(s0, 1.7, mu)
    assert np.linalg.norm(P @ O.field(s0, mu) - O.field(xT, mu)) < 1e-9
    pr, cost = reciprocal_pairs([2.0, 1.0, 0.5, 1.0, -4.0, -0.25])
    assert sorted(tuple(sorted(p)) for p in pr) == [(0, 2), (1, 3), (4, 5)] and cost < 1e-15


# ---------------------------------------------------------------- STM cases
def stm_case(mu_val):
    @st.composite
    def _s(draw):
        s = draw(gen.state6(mu_val, delta=R_BENIGN))
        tf = draw(st.one_of(st.floats(0.05, 4.0), st.floats(0.5, 4.0)))
        method, order = draw(st.sampled_from(METHODS))
        steps = draw(st.sampled_from([300, 600, 1200]))
        return {"mu": mu_val, "s": s, "tf": tf, "method": method, "order": order, "steps": steps,
                "kfrac": draw(st.floats(0.1, 0.9))}
    return _s()


def _lbin(L):
    if L < 3:
        return "L<3"
    if L < 30:
        return "L<30"
    if L < 1e3:
        return "L<1e3"
    return "L>=1e3"


def eval_stm(case, ctx):
    _, rtbp = lib()
    mu = float(case["mu"]); s0 = np.array(case["s"], dtype=float); tf = float(case["tf"])
    method, order, steps = case["method"], int(case["order"]), int(case["steps"])
    kind = method
    tag = "%s%d" % (method, order)
    spatial = (s0[2] != 0.0) or (s0[5] != 0.0)
    dim = "spatial" if spatial else "planar"
    # ---- reference arc and its conditioning
    try:
        ref = ref_dense(s0, tf, mu)
    except Exception:
        ctx.case(cls="stm:discard:reference-integration-failed")
        return
    tg = np.linspace(0.0, tf, 201)
    Wg = ref.sol(tg).T
    r_min = min(min(O.distances(w[:6], mu)) for w in Wg)
    if r_min < R_BENIGN:
        ctx.case(cls="stm:discard:close-approach<0.05")
        return
    L = max(float(np.linalg.norm(w[6:].reshape(6, 6), 2)) for w in Wg)
    if not (L <= L_BENIGN):
        ctx.case(cls="stm:discard:stretching>1e6")
        return
    xmax = float(np.max(np.abs(Wg[:, :6])))
    sysm = _system(mu)
    vds = sysm.var_dynsys
    # ---- library call
    try:
        x, times, Phi, PHI = rtbp._compute_stm(vds, s0, tf, steps=steps, method=method, order=order)
    except Exception as e:  # a benign arc must be integrable
        ctx.case(cls="stm:raised")
        ctx.fail("compute-stm-raised:%s" % tag, case, "%s: %s" % (type(e).__name__, str(e)[:300]))
        return
    x = np.asarray(x, dtype=float); times = np.asarray(times, dtype=float)
    Phi = np.array(Phi, dtype=float); PHI = np.asarray(PHI, dtype=float)
    wend = ref.sol(tf)
    Pref = wend[6:].reshape(6, 6)
    nP = float(np.linalg.norm(Pref, 2))
    nontriv = spatial and float(np.linalg.norm(Pref - np.eye(6), 2)) > 0.1
    ctx.case(nontrivial=("stm", repr(case)) if nontriv else None,
             cls=["stm:" + tag, "stm:" + dim, "stm:" + _lbin(L), "stm:steps=%d" % steps,
                  "stm:mu<1e-6" if mu < 1e-6 else ("stm:mu<1e-3" if mu < 1e-3 else "stm:mu>=1e-3")],
             sample={"case": case, "L": L, "r_min": r_min} if nontriv and ctx.evaluations % 5 == 0 else None)
    # ---- layout of the returned tuple
    ok_layout = (x.shape == (steps, 6) and PHI.shape == (steps, 42) and times.shape == (steps,) and Phi.shape == (6, 6)
                 and np.array_equal(PHI[:, 36:], x) and np.array_equal(PHI[-1, :36].reshape(6, 6), Phi)
                 and np.array_equal(PHI[0, :36].reshape(6, 6), np.eye(6)) and np.array_equal(x[0], s0)
                 and np.all(np.abs(times - np.linspace(0.0, tf, steps)) <= 8 * EPS * tf))
    if not ok_layout:
        ctx.fail("stm-output-layout:" + kind, case, "returned (x, times, phi_T, PHI) is not (states on linspace(0,tf,steps), Phi(0)=I, x[0]=x0, phi_T=PHI[-1,:36])")
        return
    if not np.all(np.isfinite(PHI)):
        ctx.fail("stm-not-finite:" + tag, case, "non-finite entries in PHI on a benign arc (r_min=%.3g, L=%.3g)" % (r_min, L))
        return
    # ---- measured accuracy of the trajectory part
    idx = np.unique(np.linspace(0, steps - 1, 21).astype(int))
    Wl = ref.sol(times[idx]).T
    eps_x = float(np.max(np.linalg.norm(x[idx] - Wl[:, :6], axis=1)))
    floor = 1e-12 * (1.0 + L)
    geo = 1.0 + 1.0 / r_min
    tol_phi = K_PHI * (eps_x + floor) * L * geo
    info = "r_min=%.3g L=%.3g eps_x=%.3g" % (r_min, L, eps_x)
    # (b) against the oracle's variational flow, at tf and at a generated intermediate row
    e_b = float(np.linalg.norm(Phi - Pref, 2))
    if not _within("b:%s" % kind, e_b, tol_phi):
        # symplecticity, equivariance, the spectrum and the finite-difference identity are consequences of this one:
        # they are not bucketed separately for the same case (each extra bucket costs a shrink pass)
        d_sym = sympl_defect(Phi)[0]
        d_own = "; symplectic defect %.3e (bound %.3e)" % (d_sym, K_SYM * (eps_x + 1e-12) * geo * (_KAPPA_T * L) ** 2)
        ctx.fail("phi-vs-oracle-variational:%s:%s" % (kind, dim), case,
                 "|Phi_lib(tf) - Phi_ref(tf)|_2 = %.3e > %.3e (|Phi|=%.3g, %s, %s%s)" % (e_b, tol_phi, nP, tag, info, d_own))
        return
    k = int(round(float(case["kfrac"]) * (steps - 1)))
    k = min(max(k, 1), steps - 2)
    wk = ref.sol(times[k])
    Pk_ref = wk[6:].reshape(6, 6)
    Pk = PHI[k, :36].reshape(6, 6)
    e_k = float(np.linalg.norm(Pk - Pk_ref, 2))
    if not _within("b-row:%s" % kind, e_k, tol_phi):
        ctx.fail("phi-history-vs-oracle-variational:%s:%s" % (kind, dim), case,
                 "|PHI[%d] - Phi_ref(t=%.6g)|_2 = %.3e > %.3e (%s, %s)" % (k, times[k], e_k, tol_phi, tag, info))
    # (c) symplectic structure, at tf and at row k
    tol_sym = K_SYM * (eps_x + 1e-12) * geo * (_KAPPA_T * L) ** 2
    for name, P in (("tf", Phi), ("row", Pk)):
        d, M = sympl_defect(P)
        if not _within("c:%s" % kind, d, tol_sym):
            ctx.fail("not-symplectic:%s:%s" % (kind, dim), case,
                     "|M^T J M - J|_2 = %.3e > %.3e at %s, M = T Phi T^-1 (%s, %s)" % (d, tol_sym, name, tag, info))
            continue
        if tol_sym < 0.05:
            det = float(np.linalg.det(P))
            if not _within("det:%s" % kind, abs(det - 1.0), 4 * tol_sym):
                ctx.fail("det-not-one:%s:%s" % (kind, dim), case, "det Phi = %.15g at %s (tolerance %.3e, %s)" % (det, name, 4 * tol_sym, tag))
            a1, a2, a4, a5 = sym_coeffs(M)
            sv = np.linalg.svd(M, compute_uv=False)
            for kk, lo, hi in ((1, a1, a5), (2, a2, a4)):
                # M = S(I+X), S symplectic, |X| <= |D|/2: both coefficients move by at most their exterior-power sensitivity * |M||X|
                bound = 2 * tol_sym * float(sv[0]) * (coeff_sens(sv, kk) + coeff_sens(sv, 6 - kk)) + 1e3 * EPS * float(sv[0]) ** 3
                if not _within("palindromic:%s" % kind, abs(lo - hi), bound):
                    ctx.fail("spectrum-not-reciprocal:%s:%s" % (kind, dim), case,
                             "characteristic polynomial not palindromic at %s: a%d=%.12g a%d=%.12g (tolerance %.3e, %s)" % (
                                 name, kk, lo, 6 - kk, hi, bound, tag))
    # (f) the stability backend on this (symplectic, generally non-periodic) STM: the same call orbit.compute_stability makes
    try:
        from hiten.algorithms.linalg.backend import _LinalgBackend
        nu_l, ev_l, _ = _LinalgBackend().stability_indices(Phi)
    except Exception as e:
        ctx.fail("stability-indices-raised:arc", case, "%s: %s" % (type(e).__name__, str(e)[:300]))
    else:
        check_spectrum(ctx, case, "arc", dim, nu_l, ev_l, Pref, e_b, "%s, %s" % (tag, info), complete=False)
    # (e) flow equivariance: Phi f(x0) = f(x(tf)) with the oracle field evaluated at the library's own end state
    f0 = O.field(s0, mu)
    fT = O.field(x[-1], mu)
    e_e = float(np.linalg.norm(Phi @ f0 - fT))
    # Phi_ref f0 = f(x_ref(tf)) exactly; the library's end state is eps_x away from x_ref(tf)
    lip_end = max(float(np.linalg.norm(O.jacobian(x[-1], mu), 2)), float(np.linalg.norm(O.jacobian(wend[:6], mu), 2)))
    tol_e = (tol_phi * float(np.linalg.norm(f0)) + 2 * lip_end * eps_x
             + 64 * EPS * (O.field_scale(x[-1], mu) + O.field_cond(x[-1], mu) + L * O.field_scale(s0, mu)))
    if not _within("e:%s" % kind, e_e, tol_e):
        ctx.fail("phi-does-not-transport-field:%s:%s" % (kind, dim), case,
                 "|Phi f(x0) - f(x(tf))| = %.3e > %.3e (%s, %s)" % (e_e, tol_e, tag, info))
    # (a) derivative of the library's own flow
    ell = min(1.0, r_min) / L
    delta = FD_REL * ell
    if kind == "fixed":
        noise = 10 * EPS * steps * (1.0 + xmax) * L / delta
        tol_extra = 0.0
    else:
        noise = 50 * (eps_x + floor) / delta
        tol_extra = tol_phi
    trunc4 = 100 * FD_REL ** 4 * L

    def end_stm(s):
        return np.asarray(rtbp._compute_stm(vds, s, tf, steps=steps, method=method, order=order)[0][-1], dtype=float)

    def end_prop(s):
        tr = sysm.propagate(s, tf=tf, steps=steps, method=method, order=order)
        return np.asarray(tr.states, dtype=float)[-1]

    for fname, fn in (("stm-trajectory", end_stm), ("system-propagate", end_prop)):
        eps_f = eps_x
        if fname == "system-propagate" and kind != "fixed":
            # the 6-D integration controls its step on 6 components only: its own accuracy on this arc is measured separately
            try:
                eps_f = max(eps_x, float(np.linalg.norm(end_prop(s0) - wend[:6])))
            except Exception:
                pass
            noise = 50 * (eps_f + floor) / delta
            tol_extra = K_PHI * (eps_f + floor) * L * geo
        try:
            D1 = np.zeros((6, 6)); D2 = np.zeros((6, 6))
            for j in range(6):
                e = np.zeros(6); e[j] = delta
                D1[:, j] = (fn(s0 + e) - fn(s0 - e)) / (2 * delta)
                D2[:, j] = (fn(s0 + e / 2) - fn(s0 - e / 2)) / delta
        except Exception as e:
            ctx.fail("own-flow-raised:%s:%s" % (fname, tag), case, "%s: %s" % (type(e).__name__, str(e)[:300]))
            continue
        R = (4 * D2 - D1) / 3
        tol_a = 0.05 * float(np.linalg.norm(D2 - D1, 2)) + trunc4 + noise + tol_extra
        e_a = float(np.linalg.norm(Phi - R, 2))
        if tol_a > 1e-4 * nP:
            ctx.classes["stm:fd-tolerance>1e-4|Phi|"] += 1
        if not _within("a:%s:%s" % (fname, kind), e_a, tol_a):
            ctx.fail("phi-vs-fd-of-own-flow:%s:%s:%s" % (fname, kind, dim), case,
                     "|Phi_lib - d(end state of %s)/d(x0)|_2 = %.3e > %.3e (|Phi|=%.3g, delta=%.3g, |D(d/2)-D(d)|=%.3g, %s, %s)" % (
                         fname, e_a, tol_a, nP, delta, float(np.linalg.norm(D2 - D1, 2)), tag, info))
    # the STM's companion trajectory is the propagated trajectory (same fixed-step map => equal up to rounding)
    if kind == "fixed":
        try:
            xp = end_prop(s0)
            # same Runge-Kutta map on x; the two right-hand sides are different floating-point expressions of the same field
            # (rounding 64*eps*(field_scale+field_cond) per unit time, as bounded in C01), amplified by at most L
            fsc = max(O.field_scale(w[:6], mu) + O.field_cond(w[:6], mu) for w in Wg[::10])
            tol_t = 100 * EPS * steps * (1.0 + xmax) * L + 640 * EPS * fsc * tf * L
            e_t = float(np.linalg.norm(xp - x[-1]))
            if not _within("tie:fixed", e_t, tol_t):
                ctx.fail("stm-trajectory-differs-from-propagate:fixed:" + dim, case,
                         "|x_stm(tf) - x_propagate(tf)| = %.3e > %.3e for the same fixed-step scheme (%s, %s)" % (e_t, tol_t, tag, info))
        except Exception:
            pass


# ---------------------------------------------------------------- periodic orbits
_FAMS = ["halo_n", "lyapunov", "halo_s"]


def orbit_case(sysname, Lp, fam):
    @st.composite
    def _s(draw):
        return {"sys": sysname, "L": Lp, "family": fam, "log_amp": draw(st.floats(-2.0, -0.25, allow_nan=False, width=32)),
                # the same periodic orbit re-expressed from a point OFF the symmetry section (GenericOrbit started at phase*T)
                "phase": draw(st.sampled_from([None, 0.3, 0.3, 0.62, 0.11]))}
    return _s()


def eval_orbit(case, ctx):
    _, rtbp = lib()
    fam = case["family"]
    where = "%s:L%d" % (fam.split("_")[0], case["L"])
    sysm = _system(case["sys"])
    mu = float(sysm.mu)
    a_rel = 10.0 ** float(case["log_amp"])
    try:
        Lpt = sysm.get_libration_point(int(case["L"]))
        if fam.startswith("halo"):
            orbit = Lpt.create_orbit("halo", amplitude_z=a_rel, zenith="northern" if fam == "halo_n" else "southern")
        else:
            orbit = Lpt.create_orbit("lyapunov", amplitude_x=a_rel * float(Lpt.dynamics.gamma))
        orbit.correct()
        x0 = np.array(orbit.initial_state, dtype=float)
        T = float(orbit.period)
    except Exception as e:  # producing the orbit is property C05, not this one
        ctx.case(cls="orbit:%s:not-produced:%s" % (where, type(e).__name__))
        return
    if not (np.all(np.isfinite(x0)) and math.isfinite(T) and T > 0):
        ctx.case(cls="orbit:%s:not-produced:non-finite" % where)
        return
    try:
        ref = ref_dense(x0, T, mu)
    except Exception:
        ctx.case(cls="orbit:%s:discard:reference-integration-failed" % where)
        return
    tg = np.linspace(0.0, T, 401)
    Wg = ref.sol(tg).T
    r_min = min(min(O.distances(w[:6], mu)) for w in Wg)
    L = max(float(np.linalg.norm(w[6:].reshape(6, 6), 2)) for w in Wg)
    if r_min < 1e-4 or L > 1e8:   # (Sun-Earth L1/L2 orbits stay ~1e-2 from the Earth: conditioning enters through 1/r_min, not a cut-off)
        ctx.case(cls="orbit:%s:discard:ill-conditioned" % where)
        return
    wT = ref.sol(T)
    xT = wT[:6]; Mo = wT[6:].reshape(6, 6)
    closure = float(np.linalg.norm(xT - x0))
    nt = closure < 1e-6
    try:
        M = np.array(orbit.monodromy, dtype=float)
        nu = np.array(orbit.stability_indices, dtype=complex).ravel()
        ev = np.array(orbit.eigenvalues, dtype=complex).ravel()
    except Exception as e:
        ctx.case(cls="orbit:%s:stability-raised" % where)
        ctx.fail("orbit-monodromy-or-stability-raised:" + where, case,
                 "%s: %s (corrected orbit, T=%.9g, closure=%.3g, x0=%r)" % (type(e).__name__, str(e)[:300], T, closure, x0.tolist()))
        return
    ctx.case(nontrivial=("orbit", repr(case)) if nt else None,
             cls=["orbit:%s:%s" % (where, "closed" if nt else "closure>=1e-6"), "orbit:sys=" + case["sys"].split(":")[0]],
             sample={"case": case, "period": T, "closure": closure, "norm_M": float(np.linalg.norm(Mo, 2)), "nu": [[v.real, v.imag] for v in nu]})
    if M.shape != (6, 6) or not np.all(np.isfinite(M)):
        ctx.fail("orbit-monodromy-malformed:" + where, case, "monodromy shape %r / non-finite" % (M.shape,))
        return
    # accuracy available to the library's default STM integration on this orbit (trajectory part of the same call)
    xs, ts, Phi2, _ = rtbp._compute_stm(sysm.var_dynsys, x0, T)
    xs = np.asarray(xs, dtype=float); ts = np.asarray(ts, dtype=float)
    idx = np.unique(np.linspace(0, len(ts) - 1, 21).astype(int))
    eps_x = float(np.max(np.linalg.norm(xs[idx] - ref.sol(ts[idx]).T[:, :6], axis=1)))
    floor = 1e-12 * (1.0 + L)
    geo = 1.0 + 1.0 / r_min
    tol_phi = K_PHI * (eps_x + floor) * L * geo
    info = "T=%.9g closure=%.3g r_min=%.3g L=%.3g eps_x=%.3g x0=%r" % (T, closure, r_min, L, eps_x, x0.tolist())
    e_m = float(np.linalg.norm(M - Mo, 2))
    if not _within("orbit:M-vs-oracle", e_m, tol_phi):
        ctx.fail("orbit-monodromy-vs-oracle:" + where, case, "|M_lib - Phi_ref(T)|_2 = %.3e > %.3e (%s)" % (e_m, tol_phi, info))
    e_s = float(np.linalg.norm(M - np.asarray(Phi2, dtype=float), 2))
    if not e_s <= tol_phi:
        ctx.fail("orbit-monodromy-differs-from-compute-stm:" + where, case,
                 "|orbit.monodromy - _compute_stm(var_dynsys, initial_state, period)|_2 = %.3e (%s)" % (e_s, info))
    # (d) the monodromy maps the orbit's velocity vector to itself: M f(x0) = f(phi_T(x0)) = f(x0) + Df*(closure)
    f0 = O.field(x0, mu)
    lip = max(float(np.linalg.norm(O.jacobian(x0, mu), 2)), float(np.linalg.norm(O.jacobian(xT, mu), 2)))
    tol_d = 2 * lip * closure + tol_phi * float(np.linalg.norm(f0))
    e_d = float(np.linalg.norm(M @ f0 - f0))
    if not _within("orbit:Mf=f", e_d, tol_d):
        ctx.fail("monodromy-does-not-fix-orbit-velocity:" + where, case, "|M f(x0) - f(x0)| = %.3e > %.3e (%s)" % (e_d, tol_d, info))
    d, Mc = sympl_defect(M)
    tol_sym = K_SYM * (eps_x + 1e-12) * geo * (_KAPPA_T * L) ** 2
    if not _within("orbit:symplectic", d, tol_sym):
        ctx.fail("orbit-monodromy-not-symplectic:" + where, case, "|M^T J M - J|_2 = %.3e > %.3e (%s)" % (d, tol_sym, info))
    check_spectrum(ctx, case, "orbit", where, nu, ev, Mo, e_m, info, complete=True)
    # the monodromy of the SAME periodic orbit started at a point off the symmetry section: "for a periodic orbit the
    # monodromy matrix maps the orbit's velocity vector to itself" and is the derivative of the period map at the
    # orbit's own initial state, wherever on the orbit that state lies
    ph = case.get("phase")
    if ph is not None and nt:
        try:
            from hiten.system.orbits.base import GenericOrbit
            xp = np.array(ref.sol(ph * T)[:6], dtype=float)
            g = GenericOrbit(Lpt, initial_state=xp)
            g.period = T
            Mg = np.array(g.monodromy, dtype=float)
        except Exception as e:
            ctx.case(cls="orbit:%s:off-section:not-produced:%s" % (where, type(e).__name__))
            return
        _, Mp = O.flow_stm(xp, T, mu, rtol=1e-13, atol=1e-13)
        Lp_ = max(L, float(np.linalg.norm(Mp, 2)))
        tol_p = 10 * K_PHI * (eps_x + 1e-12 * (1.0 + Lp_)) * Lp_ * geo
        ctx.case(nontrivial=("orbit-off-section", repr(case)), cls="orbit:%s:off-section" % where)
        e_p = float(np.linalg.norm(Mg - Mp, 2))
        if not e_p <= tol_p:
            ctx.fail("orbit-monodromy-vs-oracle:off-section:" + where, case,
                     "orbit started at phase %.2f: |M_lib - Phi_ref(T)|_2 = %.3e > %.3e (%s)" % (ph, e_p, tol_p, info))
            return
        fp = O.field(xp, mu)
        e_f = float(np.linalg.norm(Mg @ fp - fp))
        if not e_f <= 2 * lip * closure * Lp_ + tol_p * float(np.linalg.norm(fp)):
            ctx.fail("monodromy-does-not-fix-orbit-velocity:off-section:" + where, case,
                     "orbit started at phase %.2f: |M f(x0) - f(x0)| = %.3e (%s)" % (ph, e_f, info))


def check_spectrum(ctx, case, prefix, where, nu, ev, Mo, e_m, info, complete):
    """Reported eigenvalues / stability indices against the spectrum of the ORACLE matrix Mo (e_m = |M_lib - Mo|_2, asserted
    elsewhere).  complete=True (periodic orbits): all three indices must be reported; otherwise NaN entries (documented as
    'unpaired') are skipped and the finite ones must be distinct members of the oracle multiset."""
    nu = np.asarray(nu, dtype=complex).ravel(); ev = np.asarray(ev, dtype=complex).ravel()
    sv = np.linalg.svd(Mo, compute_uv=False)
    dM = e_m + 1e3 * EPS * float(sv[0])
    da = {kk: 4 * coeff_sens(sv, kk) * dM for kk in range(1, 7)}
    evo = np.linalg.eigvals(Mo)
    co = np.poly(evo).real
    if ev.shape != (6,) or not np.all(np.isfinite(ev)):
        ctx.fail("%s-eigenvalues-malformed:%s" % (prefix, where), case, "eigenvalues=%r" % (ev,))
    else:
        cl = np.poly(ev)
        for kk in range(1, 7):
            if not _within(prefix + ":eig-coeff", abs(cl[kk] - co[kk]), da[kk]):
                ctx.fail("%s-eigenvalues-not-spectrum-of-stm:%s" % (prefix, where), case,
                         "coefficient a%d of prod(l - l_i) over the reported eigenvalues = %.12g%+.3gj, of the oracle matrix's spectrum: %.12g (tolerance %.3e; reported %r, oracle %r; %s)" % (
                             kk, cl[kk].real, cl[kk].imag, co[kk], da[kk], ev.tolist(), evo.tolist(), info))
                break
    pairs, cost = reciprocal_pairs(evo)
    nu_or = np.array([(evo[i] + evo[j]) / 2 for i, j in pairs])
    a1, a2 = co[1], co[2]
    tol_nu = []
    for v in nu_or:
        # s = 2 nu is a root of q(s) = s^3 + a1 s^2 + (a2-3) s + (a3 - 2 a1); first-order root sensitivity, factor 2 of slack
        s = 2 * v
        qp = abs(3 * s * s + 2 * a1 * s + (a2 - 3))
        num = da[1] * abs(s) ** 2 + da[2] * abs(s) + da[3] + 2 * da[1]
        tol_nu.append(float("inf") if qp == 0 else num / qp + 64 * EPS * (abs(v) + 1))
    if any(t > 1e-2 * max(1.0, abs(v)) for t, v in zip(tol_nu, nu_or)):
        ctx.classes[prefix + ":nu-ill-conditioned(tol>1e-2)"] += 1
    if nu.shape != (3,):
        ctx.fail("%s-stability-indices-malformed:%s" % (prefix, where), case, "stability_indices=%r" % (nu,))
        return
    fin = [i for i in range(3) if np.isfinite(nu[i])]
    if len(fin) < 3:
        ctx.classes["%s:nu-reported-nan" % prefix] += 1
        if complete:
            ctx.fail("%s-stability-index-nan:%s" % (prefix, where), case,
                     "stability_indices=%r although the oracle monodromy's spectrum %r pairs reciprocally (indices %r; %s)" % (nu.tolist(), evo.tolist(), nu_or.tolist(), info))
            return
    best = None
    for perm in itertools.permutations(range(3), len(fin)):
        worst = max([abs(nu[i] - nu_or[j]) / tol_nu[j] if math.isfinite(tol_nu[j]) else 0.0 for i, j in zip(fin, perm)] or [0.0])
        if best is None or worst < best:
            best = worst
    if not _within(prefix + ":nu", best, 1.0):
        ctx.fail("%s-stability-indices-not-reciprocal-pair-means:%s" % (prefix, where), case,
                 "stability_indices=%r; (l+1/l)/2 over the oracle's reciprocal pairs=%r with tolerances %r (%s)" % (
                     nu.tolist(), nu_or.tolist(), tol_nu, info))


# ---------------------------------------------------------------- driver
def _draw_mus(ctx, n):
    """n distinct mass ratios for this shard, drawn by Hypothesis (the first example Hypothesis produces is its
    simplest one and is dropped)."""
    got = []
    explore(ctx, "mu-pool", gen.mu(lo=1e-9), lambda v, _c: got.append(float(v)), 3 * n + 2, shrink=False)
    out = []
    for v in got[1:]:
        if all(abs(v - w) > 1e-12 * w for w in out):
            out.append(v)
        if len(out) == n:
            break
    return out or [0.01215058560962404]


_ORBIT_COMBOS_QUICK = [("EM", 1, "halo_n"), ("EM", 2, "halo_s"), ("EM", 1, "lyapunov"), ("EM", 2, "lyapunov")]


def run(ctx):
    try:
        selftest()
    except AssertionError as e:
        raise HarnessError("C03 oracle self-test failed: %r" % (e,))
    quick = ctx.tier == "quick"
    # (d) periodic orbits: a fixed (system, point, family) per shard, amplitude generated
    if quick:
        combos = [_ORBIT_COMBOS_QUICK[ctx.shard]] if ctx.shard < len(_ORBIT_COMBOS_QUICK) else []
        n_orb = 4
    else:
        allc = [(s, Lp, f) for s in ("EM", "SE", "GEN") for Lp in (1, 2) for f in _FAMS]
        combos = [allc[(ctx.shard + ctx.seed) % len(allc)], allc[(ctx.shard + ctx.seed + ctx.nshards) % len(allc)]]
        n_orb = 3
    gen_sys = None
    for sysname, Lp, fam in combos:
        if sysname == "GEN":
            if gen_sys is None:
                got = []
                explore(ctx, "orbit-mu", st.floats(-3.0, -1.0, allow_nan=False, width=32), lambda v, _c: got.append(float(v)), 4, shrink=False)
                gen_sys = "mu:%.6g" % (10.0 ** got[-1])
            sysname = gen_sys
        explore(ctx, "orbit-%s-%d-%s" % (sysname, Lp, fam), orbit_case(sysname, Lp, fam), eval_orbit, n_orb, shrink_calls=ctx.scale(6, 20))
    # (a)-(c),(e),(f) generated STMs: a few mass ratios per shard (each one costs ~20 s of numba compilation)
    nmu = ctx.scale(1, 6)
    per_mu = ctx.scale(30, 32)
    if quick and combos:
        # orbit shards of the quick tier reuse the (already compiled) Earth-Moon system for their STM cases
        em = _system("EM")
        mus = [float(em.mu)]
        _systems[mus[0]] = em
        per_mu = 20
    else:
        mus = _draw_mus(ctx, nmu)
    for k in [k for k in _systems if isinstance(k, str)]:
        _systems.pop(k)
    ctx.extra.setdefault("stm_mass_ratios", [])
    for i, m in enumerate(mus):
        explore(ctx, "stm-%d" % i, stm_case(m), eval_stm, per_mu, shrink_calls=ctx.scale(12, 80))
        ctx.extra["stm_mass_ratios"].append(m)
        _systems.pop(m, None)   # System.propagate caches every trajectory; release it with the system
    # tightest observed error/tolerance ratio per assertion family (evidence that the bounds are neither vacuous nor marginal)
    ctx.extra.setdefault("max_error_over_tolerance", [])
    ctx.extra["max_error_over_tolerance"].extend([[k, float("%.3g" % v)] for k, v in sorted(_margins.items())])


def replay(ctx, payload):
    if "family" in payload:
        eval_orbit(payload, ctx)
    else:
        eval_stm(payload, ctx)
