"""C15 — synodic section detection: every crossing once, on the plane, in order.

(i)  sample level: generated g-sequences (grammar of strictly positive / negative runs, exact 0.0,
     |g| < tol_on_surface, just-above-tol values, ramps through / onto zero, touch-and-return, repeated
     zeros) realised as 6-D states so that the library's float section values are *exactly* the
     generated ones (dyadic lattice; verified with rationals per case), on uniform / non-uniform time
     grids, axis-aligned / oblique / 2^+-20-scaled normals, offsets, direction in {+1,-1,None},
     linear / cubic, segment_refine, dedup tolerances, max_hits_per_traj.  Oracle: vf.oracle.c15_ref
     (events from the statement + documented rules; order-preserving matching).
(ii) analytic curves (ellipse with all six components on one frequency, cubic polynomials, two-frequency
     Lissajous) with known crossings sampled at h, h/2, h/4, h/8 and 8 grid phases: count, accuracy
     against the linear-interpolation error bound, and the refinement ladder (order).
(iii) engine: `_SynodicEngine.solve` on generated trajectories returns exactly the backend's hits per
     trajectory (serial and threaded).
The atheris byte-level target of the design is not built (atheris is not installed in /venv).
"""
from __future__ import annotations

import logging
import math

import numpy as np
from hypothesis import strategies as st

from ..hyp import explore
from ..oracle import c15_ref as R
from ..runner import HarnessError

logging.disable(logging.CRITICAL)

PROPERTY = "C15"
LEVEL = "exploration"
SHARDS = {"quick": 8, "thorough": 16}
NUMBA_THREADS = {"quick": 1, "thorough": 1}
RULE = ("cases = (a) generated sample sequences + detector configuration through _SynodicDetectionBackend.detect_on_trajectory, "
        "(b) analytic-curve refinement ladders (4 step sizes x 8 grid phases each), (c) engine-vs-backend comparisons; "
        "non-trivial = (a) a sequence with an on-surface sample (exact 0 or |g|<tol) inside or next to a sign change, or >= 2 "
        "sign changes, or a sign change in the first/last segment; (b) every ladder with >= 1 expected crossing; "
        "(c) engine runs returning >= 1 hit; distinct by full input")
ASSUMPTIONS = [
    "tol_on_surface > 0 and dedup tolerances >= 0; times strictly increasing; section values far above underflow",
    "a crossing segment is defined by the documented _SurfaceEvent.is_crossing rule; a segment whose left sample is a reported on-surface sample hosts no separate crossing (documented: 'to avoid duplicate crossings')",
    "with a direction filter, on-surface samples at tangencies, in runs of on-surface samples and at the trajectory ends may or may not be reported (docs: 'only points with the appropriate sign change'); an isolated on-surface sample inside a compatible sign change must be, one inside a strictly incompatible passage must not be",
    "a crossing that ends on an on-surface sample may be reported in addition to that sample (statement: 'plus samples lying on the surface'); the documented dedup decides whether they merge",
    "dedup: a hit may be dropped iff it is within the time or plane-point tolerance of the previously reported hit or of the previous candidate; two consecutive reported hits are never within either tolerance",
    "cubic + segment_refine: exactly-once is asserted where the documented interpolant (cubic Hermite, central-difference slopes) is provably monotone (Fritsch-Carlson box); elsewhere only >= 1 hit per sample-level sign change, bracketing, ordering",
    "cubic accuracy on non-uniform grids is bounded by max(linear-interpolation bound, error bound of the documented Hermite/central-difference scheme); the order clause is asserted on uniform grids, interior segments only",
]

EPS = R.EPS
_NAMES = ["x", "y", "z", "vx", "vy", "vz"]
_lib = None


def _backend():
    global _lib
    if _lib is None:
        from hiten.algorithms.poincare.synodic.backend import _SynodicDetectionBackend
        _lib = {"be": _SynodicDetectionBackend()}
    return _lib["be"]


def _engine():
    _backend()
    if "eng" not in _lib:
        from hiten.algorithms.poincare.synodic.base import SynodicMapPipeline
        from hiten.algorithms.poincare.synodic.config import SynodicMapConfig
        from hiten.algorithms.poincare.synodic.types import _SynodicMapProblem
        p = SynodicMapPipeline.with_default_engine(SynodicMapConfig())
        _lib["eng"] = (p._get_engine(), _SynodicMapProblem)
    return _lib["eng"]


# =========================================================================== (i) sample-level generator
_MAGS = [0.25, 0.5, 0.75, 1.0, 1.5, 2.0]
_TOK_EXACT = ["pos", "neg", "pos", "neg", "zero", "zero", "tiny+", "tiny-", "near+", "near-", "ramp+", "ramp-", "ramp0+", "ramp0-"]
_TOK_FLOAT = ["pos", "neg", "framp+", "framp-"]


def _pat(a, b, c, k):
    return (((a * k * k + b * k + c) % 128) - 64) / 64.0


@st.composite
def sample_case(draw, maxn=24, big_refine=True):
    mode = draw(st.sampled_from(["exact", "exact", "exact", "exact", "float"]))
    tol = draw(st.sampled_from([1e-12, 1e-12, 1e-9, 1e-6]))
    p = math.floor(math.log2(tol))
    tiny = [2.0 ** (p - 1), 2.0 ** (p - 3)]
    near = [2.0 ** (p + 1), 2.0 ** (p + 2)]
    g = []
    ntok = draw(st.integers(1, 7))
    for _ in range(ntok):
        tok = draw(st.sampled_from(_TOK_EXACT if mode == "exact" else _TOK_FLOAT))
        if tok in ("pos", "neg"):
            sgn = 1.0 if tok == "pos" else -1.0
            for _ in range(draw(st.integers(1, 3))):
                g.append(sgn * draw(st.sampled_from(_MAGS)))
        elif tok == "zero":
            g.extend([0.0] * draw(st.sampled_from([1, 1, 1, 2, 3])))
        elif tok in ("tiny+", "tiny-"):
            sgn = 1.0 if tok == "tiny+" else -1.0
            for _ in range(draw(st.sampled_from([1, 1, 2]))):
                g.append(sgn * draw(st.sampled_from(tiny)))
        elif tok in ("near+", "near-"):
            g.append((1.0 if tok == "near+" else -1.0) * draw(st.sampled_from(near)))
        elif tok in ("ramp+", "ramp-", "ramp0+", "ramp0-"):
            sgn = 1.0 if tok.endswith("+") else -1.0
            stp = draw(st.sampled_from([0.25, 0.5, 0.375]))
            if tok.startswith("ramp0"):
                start = -stp * draw(st.integers(1, 3))          # passes exactly through 0 at a sample
            else:
                start = -stp * draw(st.integers(0, 2)) - stp * draw(st.sampled_from([0.5, 0.25, 0.75]))
            for i in range(draw(st.integers(3, 6))):
                g.append(sgn * (start + i * stp))
        else:  # float-mode ramp, never closer than 0.1 to zero
            sgn = 1.0 if tok.endswith("+") else -1.0
            start = draw(st.sampled_from([-0.9, -0.65]))
            stp = draw(st.sampled_from([0.25, 0.5]))
            for i in range(draw(st.integers(3, 6))):
                g.append(sgn * (start + i * stp))
    g = g[:maxn]
    if len(g) == 1 and draw(st.integers(0, 7)) > 0:
        g.append(draw(st.sampled_from([1.0, -1.0, 0.0] if mode == "exact" else [1.0, -1.0])))
    N = len(g)

    # ---- times
    tk = draw(st.sampled_from(["uniform", "uniform", "nonuniform"]))
    t0 = draw(st.sampled_from([0.0, 0.0, -1.0, 100.0, -3.7, 1.0e4]))
    if tk == "uniform":
        h = draw(st.sampled_from([0.125, 0.1, 0.01, 1.0, 0.37]))
        t = [t0 + k * h for k in range(N)]
    else:
        t = [t0]
        for _ in range(N - 1):
            t.append(t[-1] + draw(st.sampled_from([0.01, 0.05, 0.1, 0.13, 0.3, 1.0])))
        h = 0.1

    # ---- normal / offset / states
    piv = draw(st.integers(0, 5))
    X = [[0.0] * 6 for _ in range(N)]
    pat = [(draw(st.integers(0, 127)), draw(st.integers(0, 127)), draw(st.integers(0, 127))) for _ in range(6)]
    if mode == "exact":
        m = [0] * 6
        m[piv] = draw(st.sampled_from([1, -1, 1, 2, -2]))
        if draw(st.booleans()):
            for _ in range(draw(st.integers(1, 3))):
                j = draw(st.integers(0, 5))
                if j != piv:
                    m[j] = draw(st.sampled_from([-2, -1, 1, 2]))
        e = draw(st.sampled_from([0, 0, 20, -20]))
        sc = 2.0 ** e
        normal = [mj * sc for mj in m]
        c0 = draw(st.sampled_from([0.0, 0.0, 0.5, -1.0, 0.8125, 1011.0 / 1024.0]))
        free = [j for j in range(6) if m[j] == 0]
        fmode = {j: draw(st.sampled_from(["ramp", "noise", "const"])) for j in free}
        for k in range(N):
            acc = g[k] + c0
            for j in range(6):
                if m[j] != 0 and j != piv:
                    y = _pat(*pat[j], k)
                    X[k][j] = y / sc
                    acc -= m[j] * y
            X[k][piv] = (acc / m[piv]) / sc
            for j in free:
                if fmode[j] == "ramp":
                    X[k][j] = 0.25 + k * 2.0 ** -6 * (1 if pat[j][0] % 2 else -1)
                elif fmode[j] == "noise":
                    X[k][j] = _pat(*pat[j], k)
                else:
                    X[k][j] = pat[j][2] / 64.0
        offset = c0
    else:
        sc = draw(st.sampled_from([1.0, 1.0, 1.0e6, 1.0e-6, 3.7]))
        nv = [draw(st.integers(-1000, 1000)) / 1000.0 for _ in range(6)]
        nv[piv] = draw(st.sampled_from([1.0, -1.0, 0.7, -0.55]))
        normal = [v * sc for v in nv]
        offset = draw(st.integers(-1000, 1000)) / 1000.0 * sc
        nn = sum(v * v for v in normal)
        free = [j for j in range(6) if j != piv]
        for k in range(N):
            w = [_pat(*pat[j], k) if j != piv else 0.0 for j in range(6)]
            w[free[0]] = 0.25 + k * 2.0 ** -6
            wn = sum(w[j] * normal[j] for j in range(6))
            lam = (g[k] + offset - wn) / nn
            for j in range(6):
                X[k][j] = w[j] + lam * normal[j]
    if len(free) >= 2 and draw(st.integers(0, 9)) > 0:
        i0 = draw(st.integers(0, len(free) - 1))
        i1 = draw(st.integers(0, len(free) - 2))
        a = free[i0]
        b = [j for j in free if j != a][i1]
    else:
        a = draw(st.integers(0, 5))
        b = (a + draw(st.integers(1, 5))) % 6

    refine = draw(st.sampled_from([0, 0, 0, 1, 2, 3, 4] + ([7, 20, 48] if big_refine else [])))
    dt_tol = draw(st.sampled_from([0.0, 1e-12, 1e-9, 1e-9, 1e-6, 0.3 * h, 3.0 * h]))
    dp_tol = draw(st.sampled_from([0.0, 1e-12, 1e-12, 1e-9, 1e-6, 2.0 ** -5]))
    return {
        "kind": "sample", "mode": mode, "g": g, "t": t, "X": X, "normal": normal, "offset": offset,
        "plane": [a, b],
        "direction": draw(st.sampled_from([1, -1, None])),
        "interp": draw(st.sampled_from(["linear", "linear", "cubic"])),
        "refine": refine, "tol": tol, "dt_tol": dt_tol, "dp_tol": dp_tol,
        "max_hits": draw(st.sampled_from([None, None, None, None, 1, 2, 3])),
        "newton": draw(st.sampled_from([4, 4, 25, 1])),
        "ti": draw(st.sampled_from([0, 0, 3, 17])),
    }


# =========================================================================== (i) sample-level oracle
def _detect(case, t, X):
    return _backend().detect_on_trajectory(
        t.copy(), X.copy(), normal=np.asarray(case["normal"], dtype=float), offset=float(case["offset"]),
        plane_coords=(_NAMES[case["plane"][0]], _NAMES[case["plane"][1]]),
        interp_kind=case["interp"], segment_refine=int(case["refine"]), tol_on_surface=float(case["tol"]),
        dedup_time_tol=float(case["dt_tol"]), dedup_point_tol=float(case["dp_tol"]),
        max_hits_per_traj=case["max_hits"], newton_max_iter=int(case["newton"]),
        direction=case["direction"], trajectory_index=int(case.get("ti", 0)))


def _loc_on(ht, hs, k, t, X, st_):
    if abs(ht - t[k]) > st_:
        return "on-surface hit time is not the sample time"
    for j in range(6):
        if abs(hs[j] - X[k][j]) > 8 * EPS * abs(X[k][j]):
            return "on-surface hit state is not the sample state (component %d: %r vs %r)" % (j, hs[j], X[k][j])
    return None


def _loc_lin(ht, hs, k, t, X, g, normal, offset, rbmax):
    """Linear interpolation: the hit is the point of the chord where the (affine) section function vanishes."""
    dt = t[k + 1] - t[k]
    D = g[k] - g[k + 1]
    al = min(1.0, max(0.0, g[k] / D))
    scale = abs(offset) + sum(abs(normal[j]) * max(abs(X[k][j]), abs(X[k + 1][j])) for j in range(6))
    res = R.residual(normal, offset, hs)
    if res > 64 * EPS * scale + 4 * rbmax:
        return "off-plane", "|n.x_hit - c| = %.3e > 64 eps * scale = %.3e (segment %d)" % (res, 64 * EPS * scale, k)
    dal = 4 * rbmax / abs(D) + 8 * EPS
    tref = t[k] + al * dt
    if abs(ht - tref) > 32 * EPS * max(abs(t[k]), abs(t[k + 1])) + dal * dt:
        return "time-not-at-linear-root", "t_hit=%r, root of the linear interpolant at %r (segment %d)" % (ht, tref, k)
    for j in range(6):
        ref = X[k][j] + al * (X[k + 1][j] - X[k][j])
        if abs(hs[j] - ref) > 32 * EPS * max(abs(X[k][j]), abs(X[k + 1][j])) + abs(X[k + 1][j] - X[k][j]) * dal:
            return "state-not-on-chord", "component %d: %r, chord point %r (segment %d)" % (j, hs[j], ref, k)
    return None


def _loc_cub(ht, hs, k, t, X):
    """Cubic mode: the state must be the documented interpolant (cubic Hermite with central-difference slopes;
    boundary segments: anything between the chord and a one-sided Hermite) at the reported time."""
    N = len(t)
    dt = t[k + 1] - t[k]
    s = min(1.0, max(0.0, (ht - t[k]) / dt))
    ds = 16 * EPS * max(abs(t[k]), abs(t[k + 1])) / dt
    interior = k >= 1 and k + 2 < N
    for j in range(6):
        col = [row[j] for row in X[max(0, k - 1):k + 3]]
        kk = k - max(0, k - 1)
        d0, d1, sec = R.slopes(t[max(0, k - 1):k + 3], col, kk)
        x0, x1 = X[k][j], X[k + 1][j]
        A = abs(x0) + abs(x1) + dt * (abs(d0) + abs(d1))
        if interior:
            ref = R.hermite(s, x0, x1, d0, d1, dt)
            tolj = 32 * EPS * A + ds * (1.5 * abs(x1 - x0) + dt * (abs(d0) + abs(d1)))
        else:
            ref = x0 + s * (x1 - x0)
            tolj = (4.0 / 27.0) * dt * (abs(d0 - sec) + abs(d1 - sec)) * (1 + 1e-9) + 32 * EPS * A + ds * abs(x1 - x0)
        if abs(hs[j] - ref) > tolj:
            return "cubic-state-off-interpolant", "component %d: %r, interpolant at the reported time %r (segment %d, s=%.6f)" % (j, hs[j], ref, k, s)
    return None


def check_sample(case, hits):
    """Pure oracle: returns (fails [(bucket,msg)], info set, nontrivial bool, summary)."""
    t = [float(v) for v in case["t"]]
    X = [[float(v) for v in row] for row in case["X"]]
    N = len(t)
    normal = [float(v) for v in case["normal"]]
    offset = float(case["offset"])
    d = case["direction"]
    r = int(case["refine"])
    cubic = case["interp"] == "cubic"
    tol = float(case["tol"])
    pi_, pj_ = case["plane"]
    sfx = ":%s:%s" % (case["interp"], "refine" if r > 0 else "base")
    fails = []
    info = set()

    for k in range(N - 1):
        if not t[k + 1] > t[k]:
            raise HarnessError("generator produced non-increasing times")
    gs, exact, rb, mag = R.exact_g(normal, offset, X)
    if case.get("mode") == "exact" and not all(exact):
        raise HarnessError("exact-mode realisation is not exactly representable (generator bug)")
    g = [float(v) for v in gs]
    rbmax = max(rb) if rb else 0.0
    for k in range(N):
        if rb[k] > 0 and (abs(g[k]) <= 4 * rb[k] or abs(abs(g[k]) - tol) <= 4 * rb[k]):
            return None, {"skipped-rounding-ambiguous"}, False, None
    on = [abs(v) < tol for v in g]
    P = [(row[pi_], row[pj_]) for row in X]
    tmax = max(abs(v) for v in t)
    st_ = 4 * EPS * tmax
    sp = 32 * EPS * max([1e-300] + [abs(c) for pt in P for c in pt])
    dt_tol = float(case["dt_tol"])
    dp_tol = float(case["dp_tol"])
    mh = case["max_hits"]
    cfg = {"direction": d, "refine": r, "cubic": cubic, "dt_tol": dt_tol, "dp_tol": dp_tol, "st": st_, "sp": sp,
           "max_hits": mh, "twin": dt_tol < 64 * EPS * tmax}

    H = []
    for h in hits:
        hs = [float(v) for v in np.asarray(h.state, dtype=float).ravel()]
        hp = [float(v) for v in np.asarray(h.point2d, dtype=float).ravel()]
        H.append((float(h.time), hs, hp, int(h.trajectory_index)))
    n = len(H)

    if N < 2:
        if n:
            fails.append(("hits-on-single-sample" + sfx, "%d hits reported for a trajectory with %d sample(s)" % (n, N)))
        return fails, {"degenerate-N<2"}, False, {"g": g, "hits": n}

    ev, passages, einfo = R.build_events(t, g, on, P, cfg)
    info |= einfo

    # --- structure
    for a, (ht, hs, hp, hti) in enumerate(H):
        if len(hs) != 6 or len(hp) != 2 or not all(math.isfinite(v) for v in hs + hp + [ht]):
            fails.append(("malformed-hit" + sfx, "hit %d is not a finite (time, 6-state, 2-point)" % a))
            return fails, info, False, None
        if hp[0] != hs[pi_] or hp[1] != hs[pj_]:
            fails.append(("point2d-not-projection" + sfx, "hit %d: point2d=%r but state[%s,%s]=%r" % (a, hp, _NAMES[pi_], _NAMES[pj_], [hs[pi_], hs[pj_]])))
        if hti != int(case.get("ti", 0)):
            fails.append(("trajectory-index-not-echoed" + sfx, "hit %d carries trajectory_index=%d, passed %d" % (a, hti, int(case.get("ti", 0)))))
    if mh is not None and n > mh:
        fails.append(("max-hits-exceeded" + sfx, "%d hits, max_hits_per_traj=%d" % (n, mh)))
    # --- (2) time order, inside the sampled span
    for a in range(1, n):
        if H[a][0] < H[a - 1][0] - st_:
            fails.append(("not-time-ordered" + sfx, "hit %d at t=%r follows hit %d at t=%r" % (a, H[a][0], a - 1, H[a - 1][0])))
            break
    # --- documented dedup: consecutive reported hits are not duplicates
    for a in range(1, n):
        gap = abs(H[a][0] - H[a - 1][0])
        du = H[a][2][0] - H[a - 1][2][0]
        dv = H[a][2][1] - H[a - 1][2][1]
        if dt_tol > 0 and gap <= dt_tol * (1 - 1e-12):
            fails.append(("duplicate-within-time-tol" + sfx, "hits %d,%d are %.3e apart in time, dedup_time_tol=%.3e" % (a - 1, a, gap, dt_tol)))
            break
        if dp_tol > 0 and du * du + dv * dv <= dp_tol * dp_tol * (1 - 1e-12):
            fails.append(("duplicate-within-point-tol" + sfx, "hits %d,%d are %.3e apart in the plane, dedup_point_tol=%.3e" % (a - 1, a, math.sqrt(du * du + dv * dv), dp_tol)))
            break

    # --- (1) one hit per event
    ht_list = [h[0] for h in H]
    hp_list = [h[2] for h in H]
    ordered = not any(b.startswith("not-time-ordered") for b, _ in fails)
    res = R.match(ht_list, hp_list, ev, cfg) if ordered else None
    if ordered and res is None:
        fails.append(_diagnose(H, ev, t, g, on, d, cfg, sfx))
    elif ordered:
        assign, excused = res
        if excused:
            info.add("dedup-or-truncation-excuse-used")
        for a, j in enumerate(assign):
            e = ev[j]
            bad = _locate(H[a], e, t, X, g, normal, offset, rbmax, cubic, st_)
            if bad is not None:
                # the hit may legitimately belong to another time-compatible event (e.g. alpha = 1 vs. the sample)
                alt_ok = False
                for e2 in ev:
                    if e2 is not e and e2.lo - st_ <= H[a][0] <= e2.hi + st_ and _locate(H[a], e2, t, X, g, normal, offset, rbmax, cubic, st_) is None:
                        alt_ok = True
                        break
                if not alt_ok:
                    fails.append((bad[0] + sfx, "hit %d: %s" % (a, bad[1])))
        info.add("hits:%s" % (n if n < 3 else "3+"))

    # --- completeness per sign change (also through on-surface samples and wild cubic segments)
    for (i, j) in passages:
        if any(t[i] - st_ <= h[0] <= t[j] + st_ for h in H):
            continue
        if mh is not None and n >= mh and H and H[-1][0] <= t[i] + st_:
            info.add("truncated")
            continue
        before = [h for h in H if h[0] < t[i] - st_]
        if before:
            hb = before[-1]
            if t[i] - hb[0] <= dt_tol + st_:
                continue
            dmin = min(R.pt_seg_dist(hb[2], P[k], P[k + 1]) for k in range(i, j))
            over = max(_overshoot2d(t, P, k) for k in range(i, j)) if cubic else 0.0
            if dmin <= dp_tol + over + sp:
                continue
        cls = "adjacent-samples" if j == i + 1 else "through-on-surface-samples"
        fails.append(("missed-sign-change:" + cls + sfx,
                      "g changes sign between samples %d (g=%r, t=%r) and %d (g=%r, t=%r), direction=%r, but no hit lies in that time span" % (i, g[i], t[i], j, g[j], t[j], d)))
        break

    nontrivial = False
    for k in range(N):
        if on[k]:
            lo = k - 1
            while lo >= 0 and on[lo]:
                lo -= 1
            hi = k + 1
            while hi < N and on[hi]:
                hi += 1
            if (lo >= 0 and hi < N and g[lo] * g[hi] < 0) or (lo >= 0 and hi >= N) or (lo < 0 and hi < N):
                nontrivial = True
    if len(passages) >= 2 or any(i == 0 or j == N - 1 for i, j in passages):
        nontrivial = True
    summary = {"g": g, "t": t, "direction": d, "interp": case["interp"], "refine": r, "tol": tol,
               "hit_times": ht_list, "events": [(e.kind, e.seg, e.req, e.tag) for e in ev][:12]}
    return fails, info, nontrivial, summary


def _overshoot2d(t, P, k):
    N = len(t)
    if k < 1 or k + 2 >= N:
        return 0.0
    dt = t[k + 1] - t[k]
    tot = 0.0
    for c in (0, 1):
        d0, d1, sec = R.slopes(t, [p[c] for p in P], k)
        tot += (4.0 / 27.0) * dt * (abs(d0 - sec) + abs(d1 - sec))
    return tot


def _locate(h, e, t, X, g, normal, offset, rbmax, cubic, st_):
    ht, hs = h[0], h[1]
    if e.kind == "on":
        msg = _loc_on(ht, hs, e.seg, t, X, st_)
        return None if msg is None else ("on-surface-hit-not-the-sample", msg)
    if cubic:
        bad = _loc_cub(ht, hs, e.seg, t, X)
        return None if bad is None else bad
    return _loc_lin(ht, hs, e.seg, t, X, g, normal, offset, rbmax)


def _diagnose(H, ev, t, g, on, d, cfg, sfx):
    st_ = cfg["st"]
    N = len(t)
    for a, h in enumerate(H):
        ht = h[0]
        if any(e.lo - st_ <= ht <= e.hi + st_ for e in ev):
            continue
        if ht < t[0] - st_ or ht > t[-1] + st_:
            return ("hit-outside-sampled-span" + sfx, "hit %d at t=%r, samples span [%r, %r]" % (a, ht, t[0], t[-1]))
        k = max(0, min(N - 2, max(i for i in range(N) if t[i] <= ht + st_)))
        if k >= 0 and on[k] and R.is_cross(None, g[k], g[k + 1]):
            return ("crossing-doubles-on-surface-sample" + sfx,
                    "hit %d at t=%r lies in segment %d whose left sample is on the surface (g=%r -> %r): the sample is the hit, a second one is a duplicate" % (a, ht, k, g[k], g[k + 1]))
        if d is not None and R.is_cross(None, g[k], g[k + 1]) and not R.is_cross(d, g[k], g[k + 1]):
            return ("direction-filter-ignored" + sfx, "hit %d at t=%r in segment %d (g=%r -> %r) with direction=%r" % (a, ht, k, g[k], g[k + 1], d))
        return ("hit-without-sign-change" + sfx, "hit %d at t=%r lies in segment %d (g=%r -> %r), which has no admissible crossing / on-surface sample, or outside its bracketing interval" % (a, ht, k, g[k], g[k + 1]))
    # every hit is explainable on its own
    def excusable(j):
        e = ev[j]
        if any(R.close_hit_event(h[0], h[2], e, cfg["dt_tol"], cfg["dp_tol"], st_, cfg["sp"]) for h in H if h[0] <= e.hi + st_):
            return True
        if j >= 1 and R.close_event_event(ev[j - 1], e, cfg["dt_tol"], cfg["dp_tol"], st_, cfg["sp"]):
            return True
        return False

    for j, e in enumerate(ev):
        if e.req and not any(e.lo - st_ <= h[0] <= e.hi + st_ for h in H):
            if cfg["max_hits"] is not None and len(H) >= cfg["max_hits"]:
                continue
            if excusable(j) or (e.partner is not None and (excusable(e.partner) or any(ev[e.partner].lo - st_ <= h[0] <= ev[e.partner].hi + st_ for h in H))):
                continue
            return ("missed:" + e.kind + "-" + e.tag + sfx,
                    "no hit for required %s event at segment/sample %d (t in [%r, %r]); hits at %r" % (e.kind, e.seg, e.lo, e.hi, [h[0] for h in H]))
    # an on-surface sample and a crossing inside its own segment are both reported
    for j, e in enumerate(ev):
        if e.kind == "x" and e.partner is not None and not e.alt_ok:
            pe = ev[e.partner]
            on_hits = [a for a, h in enumerate(H) if pe.lo - st_ <= h[0] <= pe.hi + st_]
            x_hits = [a for a, h in enumerate(H) if e.lo - st_ <= h[0] <= e.hi + st_ and a not in on_hits]
            if on_hits and x_hits:
                return ("crossing-doubles-on-surface-sample" + sfx,
                        "hits at t=%r (the on-surface sample %d, g=%r) and t=%r (a crossing inside the segment that starts at that sample): one sign change reported twice"
                        % (H[on_hits[0]][0], pe.seg, g[pe.seg], H[x_hits[0]][0]))
    # count per window
    for j, e in enumerate(ev):
        inwin = [a for a, h in enumerate(H) if e.lo - st_ <= h[0] <= e.hi + st_]
        others = [e2 for e2 in ev if e2 is not e and not (e2.hi + st_ < e.lo or e2.lo - st_ > e.hi)]
        if len(inwin) > 1 + len(others):
            return ("doubled-hit:" + e.kind + "-" + e.tag + sfx,
                    "%d hits (t=%r) where at most %d events are admissible around segment/sample %d" % (len(inwin), [H[a][0] for a in inwin], 1 + len(others), e.seg))
    return ("hits-not-explainable" + sfx,
            "no order-preserving one-to-one explanation of hits %r by events %r" % ([h[0] for h in H], [(e.kind, e.seg, e.req, e.tag, e.lo, e.hi) for e in ev][:20]))


def eval_sample(case, ctx):
    t = np.asarray(case["t"], dtype=float)
    X = np.asarray(case["X"], dtype=float).reshape(-1, 6)
    sfx = ":%s:%s" % (case["interp"], "refine" if case["refine"] > 0 else "base")
    try:
        hits = _detect(case, t, X)
    except Exception as e:  # a well-formed request must be handled
        ctx.case(cls="sample:raised")
        ctx.fail("detector-raises:" + type(e).__name__ + sfx, case, repr(e))
        return
    fails, info, nontrivial, summary = check_sample(case, hits)
    cls = ["sample" + sfx, "sample:dir=%r" % (case["direction"],), "sample:mode=" + case.get("mode", "?")] + sorted("sample:" + x for x in info)
    if fails is None:
        ctx.case(cls=cls)
        return
    ctx.case(nontrivial=("s", repr(case)) if nontrivial else None, cls=cls,
             sample=summary if (nontrivial and summary and len(case["t"]) <= 6) else None)
    for b, msg in fails:
        ctx.fail(b, case, msg)


# =========================================================================== (ii) analytic curves
@st.composite
def analytic_case(draw):
    fam = draw(st.sampled_from(["ellipse", "ellipse", "poly", "lissajous"]))
    c = {"kind": "analytic", "family": fam,
         "interp": draw(st.sampled_from(["linear", "cubic", "cubic"])),
         "grid": draw(st.sampled_from(["uniform", "uniform", "jitter"])),
         "refine": draw(st.sampled_from([0, 0, 0, 2, 3])),
         "newton": draw(st.sampled_from([4, 10, 25])),
         "direction": draw(st.sampled_from([1, -1, None])),
         "h0": draw(st.sampled_from([0.1, 0.08, 0.05])),
         "match": draw(st.sampled_from([True, True, True, False])),
         "jit": [draw(st.integers(0, 127)) for _ in range(3)]}
    f = lambda lo, hi: lo + (hi - lo) * draw(st.integers(0, 1000)) / 1000.0
    sgn = lambda: draw(st.sampled_from([1.0, -1.0]))
    if fam == "ellipse":
        c.update(a=f(0.5, 2.0), b=f(0.5, 2.0), zeta=f(0.0, 0.5), om=f(0.5, 1.5), phi=f(0.0, 6.25),
                 rho=sgn() * f(0.3, 0.75), T0=f(-2.0, 2.0), L=f(5.0, 9.0))
        nk = draw(st.sampled_from(["axis-x", "axis-y", "axis-vx", "oblique"]))
        if nk == "oblique":
            n = [f(-1.0, 1.0) for _ in range(6)]
            n[draw(st.integers(0, 1))] = sgn() * f(0.5, 1.0)
            sc = draw(st.sampled_from([1.0, 1.0, 1e6, 1e-6]))
            n = [v * sc for v in n]
        else:
            n = [0.0] * 6
            n[{"axis-x": 0, "axis-y": 1, "axis-vx": 3}[nk]] = draw(st.sampled_from([1.0, -1.0, 2.0]))
        c["normal"] = n
    elif fam == "poly":
        sig = sgn()
        if c["direction"] is not None:
            sig = float(c["direction"]) if c["match"] else -float(c["direction"])
        c.update(gam=sgn() * f(0.15, 0.3), eps3=sgn() * f(0.05, 0.1), sig=sig, tc=f(-3.0, 3.0), L1=f(0.7, 0.95), L2=f(0.7, 0.95),
                 nu=draw(st.sampled_from([1.0, -2.0, 0.5])), piv=draw(st.integers(0, 5)),
                 n2=draw(st.sampled_from([0.0, 0.0, 1.0, -0.5])), off=f(-1.0, 1.0),
                 q=[[f(-1.0, 1.0) for _ in range(4)] for _ in range(6)])
    else:
        c.update(A=[f(0.5, 1.5) for _ in range(3)], om=[f(0.6, 1.6) for _ in range(3)], ph=[f(0.0, 6.25) for _ in range(3)],
                 nx=sgn() * f(0.4, 1.0), ny=sgn() * f(0.4, 1.0), nz=f(-0.5, 0.5), tc=f(-3.0, 3.0))
    return c


class _Curve(object):
    """Analytic curve: state(t) [vectorised], crossings [(t*, sign of g')], derivative bounds."""


def _build_curve(c):
    cv = _Curve()
    fam = c["family"]
    h0 = float(c["h0"])
    if fam == "ellipse":
        a, b, ze, om, ph = (float(c[k]) for k in ("a", "b", "zeta", "om", "phi"))
        n = np.asarray(c["normal"], dtype=float)

        def state(t):
            th = om * t + ph
            X = np.zeros((t.size, 6))
            X[:, 0] = a * np.cos(th); X[:, 1] = b * np.sin(th); X[:, 2] = ze * np.cos(th)
            X[:, 3] = -a * om * np.sin(th); X[:, 4] = b * om * np.cos(th); X[:, 5] = -ze * om * np.sin(th)
            return X
        # g = Acos(th) + Bsin(th) - c = Rc cos(th - del) - c
        Ac = n[0] * a + n[4] * b * om + n[2] * ze
        Bc = n[1] * b - n[3] * a * om - n[5] * ze * om
        Rc = math.hypot(Ac, Bc)
        de = math.atan2(Bc, Ac)
        rho = float(c["rho"])
        cv.offset = rho * Rc
        cv.normal = n
        T0, T1 = float(c["T0"]), float(c["T0"]) + float(c["L"]) / om

        def roots(T0, T1):
            out = []
            ac = math.acos(rho)
            for sg_, base in ((-1, de + ac), (+1, de - ac)):     # th-del=+ac: g' = -om Rc sin(ac) < 0
                m0 = math.floor((om * T0 + ph - base) / (2 * math.pi)) - 1
                for m in range(m0, m0 + 8):
                    ts = (base + 2 * math.pi * m - ph) / om
                    if T0 - 2 * h0 <= ts <= T1 + 2 * h0:
                        out.append((ts, sg_))
            return sorted(out)
        cv.gdot = lambda ts: om * Rc * math.sqrt(1 - rho * rho)
        cv.M2g, cv.M3g, cv.M4g = om ** 2 * Rc, om ** 3 * Rc, om ** 4 * Rc
        amp = max(a, b, ze) * max(1.0, om)
        cv.M1x, cv.M2x, cv.M3x, cv.M4x = amp * om, amp * om ** 2, amp * om ** 3, amp * om ** 4
        cv.gscale = float(np.sum(np.abs(n)) * amp + abs(cv.offset))
        cv.ladder = True
    elif fam == "poly":
        gam, e3, sig, tc = (float(c[k]) for k in ("gam", "eps3", "sig", "tc"))
        nu, piv, n2, off = float(c["nu"]), int(c["piv"]), float(c["n2"]), float(c["off"])
        q = np.asarray(c["q"], dtype=float)
        j2 = (piv + 1) % 6
        n = np.zeros(6); n[piv] = nu; n[j2] = n2
        gp = np.array([0.0, sig, sig * gam, sig * e3])           # g(tau) coefficients
        coef = q.copy()
        coef[piv] = (gp + np.array([off, 0, 0, 0]) - n2 * q[j2]) / nu

        def state(t):
            tau = t - tc
            V = np.vstack([np.ones_like(tau), tau, tau ** 2, tau ** 3])
            return (coef @ V).T
        cv.normal, cv.offset = n, off
        T0, T1 = tc - float(c["L1"]), tc + float(c["L2"])
        Lm = max(float(c["L1"]), float(c["L2"])) + 2 * h0
        roots = lambda T0, T1: [(tc, 1 if sig > 0 else -1)]
        cv.gdot = lambda ts: 1.0
        cv.M2g, cv.M3g, cv.M4g = 2 * abs(gam) + 6 * abs(e3) * Lm, 6 * abs(e3), 0.0
        ca = np.abs(coef)
        cv.M1x = float(np.max(ca[:, 1] + 2 * ca[:, 2] * Lm + 3 * ca[:, 3] * Lm ** 2))
        cv.M2x = float(np.max(2 * ca[:, 2] + 6 * ca[:, 3] * Lm))
        cv.M3x = float(np.max(6 * ca[:, 3])); cv.M4x = 0.0
        cv.gscale = float(np.sum(np.abs(n) * (ca[:, 0] + ca[:, 1] * Lm + ca[:, 2] * Lm ** 2 + ca[:, 3] * Lm ** 3)) + abs(off))
        cv.ladder = True
    else:
        A = [float(v) for v in c["A"]]; om = [float(v) for v in c["om"]]; ph = [float(v) for v in c["ph"]]
        n = np.array([float(c["nx"]), float(c["ny"]), float(c["nz"]), 0.0, 0.0, 0.0])

        def state(t):  # noqa: F811
            X = np.zeros((t.size, 6))
            X[:, 0] = A[0] * np.cos(om[0] * t + ph[0]); X[:, 3] = -A[0] * om[0] * np.sin(om[0] * t + ph[0])
            X[:, 1] = A[1] * np.sin(om[1] * t + ph[1]); X[:, 4] = A[1] * om[1] * np.cos(om[1] * t + ph[1])
            X[:, 2] = A[2] * np.sin(om[2] * t + ph[2]); X[:, 5] = A[2] * om[2] * np.cos(om[2] * t + ph[2])
            return X

        def gd(ts):
            return (-n[0] * A[0] * om[0] * math.sin(om[0] * ts + ph[0]) + n[1] * A[1] * om[1] * math.cos(om[1] * ts + ph[1])
                    + n[2] * A[2] * om[2] * math.cos(om[2] * ts + ph[2]))
        w = [abs(n[i]) * A[i] for i in range(3)]
        cv.M2g = sum(w[i] * om[i] ** 2 for i in range(3)); cv.M3g = sum(w[i] * om[i] ** 3 for i in range(3)); cv.M4g = sum(w[i] * om[i] ** 4 for i in range(3))
        # crossing time constructed: among 9 candidates the one where |g'| is largest; the offset puts the plane there
        cands = [float(c["tc"]) + 0.37 * i for i in range(9)]
        tcs = max(cands, key=lambda u: abs(gd(u)))
        if c["direction"] is not None and ((gd(tcs) > 0) == (c["direction"] == 1)) != bool(c.get("match", True)):
            n = -n                                             # orient the plane so that the crossing has the wanted direction
        m = abs(gd(tcs))
        W = 0.5 * m / cv.M2g                                  # g' keeps its sign and |g'| >= m/2 on [tcs-W, tcs+W]
        cv.normal = n
        cv.offset = float(state(np.array([tcs]))[0] @ n)
        T0, T1 = tcs - W, tcs + W
        h0 = min(h0, W / 12.0)
        roots = lambda T0, T1: [(tcs, 1 if gd(tcs) > 0 else -1)]
        cv.gdot = lambda ts: m
        ao = max(A[i] * max(1.0, om[i]) for i in range(3)); omx = max(om)
        cv.M1x, cv.M2x, cv.M3x, cv.M4x = ao * omx, ao * omx ** 2, ao * omx ** 3, ao * omx ** 4
        cv.gscale = float(sum(w) + abs(cv.offset))
        cv.ladder = False
    cv.state = state
    cv.h0 = h0
    # keep crossings >= 4 h0 away from the ends of the sampled window (first/last segments are not interior)
    for _ in range(4):
        rs = roots(T0, T1)
        lo = [ts for ts, _ in rs if T0 - h0 <= ts <= T0 + 4 * h0]
        hi = [ts for ts, _ in rs if T1 - 4 * h0 <= ts <= T1 + h0]
        if lo:
            T0 = max(lo) + 5 * h0
        if hi:
            T1 = min(hi) - 5 * h0
        if not lo and not hi:
            break
    cv.T0, cv.T1 = T0, T1
    cv.roots = [(ts, sg_) for ts, sg_ in roots(T0, T1) if T0 < ts < T1]
    return cv


def _grid(cv, c, h, phase):
    n = int(math.floor((cv.T1 - cv.T0) / h - phase))
    k = np.arange(0, max(n, 0) + 1, dtype=float)
    t = cv.T0 + (k + phase) * h
    if c["grid"] == "jitter":
        a, b, cc = c["jit"]
        ki = np.arange(t.size)
        w = (((a * ki * ki + b * ki + cc) % 128) - 64) / 64.0
        t = t + 0.3 * h * w                               # spacing in [0.4h, 1.6h]
    return t[(t >= cv.T0) & (t <= cv.T1)]


def eval_analytic(case, ctx):
    c = case
    cv = _build_curve(c)
    be = _backend()
    d = c["direction"]
    interp = c["interp"]
    r = int(c["refine"])
    sfx = ":%s:%s" % (interp, "refine" if r > 0 else "base")
    psfx = ":refine" if r > 0 else ":base"
    uniform = c["grid"] == "uniform"
    expected = [(ts, sg_) for ts, sg_ in cv.roots if d is None or sg_ == d]
    if cv.T1 - cv.T0 < 12 * cv.h0:
        ctx.case(cls="analytic:window-too-short")
        return
    fails = []
    # on-surface tolerance in units of g (the normal may be scaled by 1e+-6): a sample this close to the plane is itself
    # a documented hit, at most tol_on/|g'| (<< dedup_time_tol) away from the crossing.  The point dedup is switched off:
    # a periodic curve returns to the same plane point, and crossings one period apart are then "nearby" by design.
    tol_on = 1e-12 * min(1.0, cv.gscale)
    E = []          # per level: max time error
    nphase = 8
    worst = {"ratio": 0.0}
    for lev in range(4):
        h = cv.h0 / 2 ** lev
        emax = 0.0
        for ip in range(nphase):
            t = _grid(cv, c, h, ip / float(nphase))
            X = cv.state(t)
            try:
                hits = be.detect_on_trajectory(t, X, normal=cv.normal.copy(), offset=cv.offset, plane_coords=("y", "vy"),
                                               interp_kind=interp, segment_refine=r, tol_on_surface=tol_on,
                                               dedup_time_tol=1e-9, dedup_point_tol=0.0, max_hits_per_traj=None,
                                               newton_max_iter=int(c["newton"]), direction=d)
            except Exception as e:
                ctx.case(cls="analytic:raised")
                ctx.fail("detector-raises:" + type(e).__name__ + sfx, case, repr(e))
                return
            if len(hits) != len(expected):
                fails.append(("analytic-count" + sfx, "%d hits for %d analytic crossings (h=%g, phase %d/8, direction=%r): hit times %r, crossings %r"
                              % (len(hits), len(expected), h, ip, d, [hh.time for hh in hits], [e[0] for e in expected])))
                continue
            for hh, (ts, sg_) in zip(hits, expected):
                k = int(np.searchsorted(t, ts, side="right")) - 1
                k = max(1, min(t.size - 3, k))
                dts = [t[k] - t[k - 1], t[k + 1] - t[k], t[k + 2] - t[k + 1]]
                lo, hi, dt = t[k], t[k + 1], dts[1]
                if ts - t[k] <= 1e-9 * h:              # crossing (numerically) at a sample: either neighbour brackets it
                    lo = t[k - 1]; dt = max(dt, dts[0])
                if t[k + 1] - ts <= 1e-9 * h:
                    hi = t[k + 2]; dt = max(dt, dts[2])
                m1 = cv.gdot(ts) - cv.M2g * dt          # |g'| >= |g'(t*)| - max|g''| |t - t*| on the bracketing interval
                if not (lo - 4 * EPS * abs(lo) <= hh.time <= hi + 4 * EPS * abs(hi)):
                    fails.append(("analytic-hit-outside-bracket" + sfx, "hit at %r, crossing at %r lies in [%r, %r]" % (hh.time, ts, lo, hi)))
                    continue
                Bt = dt * dt / 8.0 * cv.M2g / m1
                Bx = dt * dt / 8.0 * cv.M2x + cv.M1x * Bt
                if interp == "cubic" and not uniform:
                    # documented scheme on a non-uniform grid: central slopes are first-order accurate
                    hd = max(abs(dts[1] - dts[0]), abs(dts[2] - dts[1])); hm = max(dts)
                    dg = hd / 2.0 * cv.M2g + hm * hm / 6.0 * cv.M3g
                    dx = hd / 2.0 * cv.M2x + hm * hm / 6.0 * cv.M3x
                    Bt2 = (dt ** 4 * cv.M4g / 384.0 + dt * 0.25 * dg) / m1
                    Bx2 = dt ** 4 * cv.M4x / 384.0 + dt * 0.25 * dx + cv.M1x * Bt2
                    Bt, Bx = max(Bt, Bt2), max(Bx, Bx2)
                floor_t = 256 * EPS * (abs(ts) + cv.gscale / m1) + tol_on / m1
                floor_x = 256 * EPS * (cv.gscale + cv.M1x * abs(ts)) + cv.M1x * floor_t
                et = abs(hh.time - ts)
                ex = float(np.max(np.abs(np.asarray(hh.state) - cv.state(np.array([ts]))[0])))
                emax = max(emax, et)
                worst["ratio"] = max(worst["ratio"], et / (Bt + floor_t))
                if et > Bt + floor_t:
                    fails.append((interp + "-hit-accuracy:time" + psfx + (":uniform" if uniform else ":nonuniform"),
                                  "|t_hit - t*| = %.3e exceeds the linear-interpolation bound dt^2/8 max|g''| / min|g'| = %.3e (dt=%g, t*=%r, t_hit=%r, newton_max_iter=%d)"
                                  % (et, Bt, dt, ts, hh.time, c["newton"])))
                elif ex > Bx + floor_x:
                    fails.append((interp + "-hit-accuracy:state" + psfx + (":uniform" if uniform else ":nonuniform"),
                                  "|x_hit - x(t*)| = %.3e exceeds dt^2/8 max|x''| + max|x'| * time bound = %.3e (dt=%g, t*=%r)" % (ex, Bx, dt, ts)))
        E.append(emax)
    slope = None
    if expected and uniform and cv.ladder and not any(b.startswith("analytic-count") for b, _ in fails):
        floor = 1e4 * EPS * max(1.0, abs(cv.T0), abs(cv.T1))
        if E[3] > floor and E[0] > floor:
            slope = math.log(E[0] / E[3]) / math.log(8.0)
            need = 1.7 if interp == "linear" else 2.5
            if slope < need:
                fails.append((interp + "-hit-accuracy:order" + psfx,
                              "max |t_hit - t*| over 8 grid phases at h, h/2, h/4, h/8 = %r: observed order %.2f < %.1f (%s interpolation, uniform grid, interior segments, newton_max_iter=%d)"
                              % (["%.3e" % v for v in E], slope, need, interp, c["newton"])))
    cls = ["analytic:" + c["family"] + sfx, "analytic:grid=" + c["grid"], "analytic:crossings=%d" % min(len(expected), 3)]
    if slope is not None:
        cls.append("analytic:order-%s=%.1f" % (interp, round(slope * 2) / 2.0))
    ctx.case(nontrivial=("a", repr(case)) if expected else None, cls=cls,
             sample={"family": c["family"], "interp": interp, "grid": c["grid"], "refine": r, "direction": d, "h0": cv.h0,
                     "crossings": [e[0] for e in expected], "max_time_error_per_level": E, "observed_order": slope,
                     "worst_error_over_bound": worst["ratio"]} if expected else None)
    seen = set()
    for b, msg in fails:
        if b not in seen:
            seen.add(b)
            ctx.fail(b, case, msg)


# =========================================================================== (iii) engine == backend
@st.composite
def engine_case(draw):
    base = draw(sample_case(maxn=12, big_refine=False))
    trajs = [{"t": base["t"], "X": base["X"]}]
    for _ in range(draw(st.integers(1, 4))):
        o = draw(sample_case(maxn=12, big_refine=False))
        trajs.append({"t": o["t"], "X": o["X"]})
    cfg = {k: base[k] for k in ("normal", "offset", "plane", "direction", "interp", "refine", "tol", "dt_tol", "dp_tol", "max_hits", "newton")}
    return {"kind": "engine", "cfg": cfg, "trajs": trajs, "n_workers": draw(st.sampled_from([1, 2, 3, 8]))}


def eval_engine(case, ctx):
    eng, Problem = _engine()
    cfg = case["cfg"]
    trajs = [(np.asarray(tr["t"], dtype=float), np.asarray(tr["X"], dtype=float).reshape(-1, 6)) for tr in case["trajs"]]
    plane = (_NAMES[cfg["plane"][0]], _NAMES[cfg["plane"][1]])
    bucket = "engine-vs-backend:n_workers%s1" % (">" if case["n_workers"] > 1 else "=")
    try:
        res = eng.solve(Problem(plane_coords=plane, direction=cfg["direction"], n_workers=int(case["n_workers"]),
                                normal=np.asarray(cfg["normal"], dtype=float), offset=float(cfg["offset"]), trajectories=trajs,
                                interp_kind=cfg["interp"], segment_refine=int(cfg["refine"]), tol_on_surface=float(cfg["tol"]),
                                dedup_time_tol=float(cfg["dt_tol"]), dedup_point_tol=float(cfg["dp_tol"]),
                                max_hits_per_traj=cfg["max_hits"], newton_max_iter=int(cfg["newton"])))
    except Exception as e:
        ctx.case(cls="engine:raised")
        ctx.fail("engine-raises:" + type(e).__name__, case, repr(e))
        return
    tot = 0
    bad = None
    times = np.empty((0,)) if res.times is None else np.asarray(res.times, dtype=float)
    tidx = np.asarray(res.trajectory_indices, dtype=int)
    for i, (t, X) in enumerate(trajs):
        c1 = dict(cfg); c1["ti"] = i
        hits = _detect(c1, t, X)
        tot += len(hits)
        sel = np.nonzero(tidx == i)[0]
        if len(sel) != len(hits):
            bad = "trajectory %d: engine returns %d hits, backend %d" % (i, len(sel), len(hits))
            break
        for a, h in zip(sel, hits):
            if times[a] != h.time or not np.array_equal(res.states[a], h.state) or not np.array_equal(res.points[a], h.point2d):
                bad = "trajectory %d: engine hit (t=%r) differs from backend hit (t=%r)" % (i, times[a], h.time)
                break
        if bad:
            break
    if bad is None and len(tidx) != tot:
        bad = "engine returns %d hits in total, backend %d" % (len(tidx), tot)
    ctx.case(nontrivial=("e", repr(case)) if tot else None, cls=["engine:n_workers=%d" % case["n_workers"], "engine:hits>0" if tot else "engine:no-hit"])
    if bad:
        ctx.fail(bucket, case, bad)


# =========================================================================== fixed probes + entry points
def _probe_cases():
    """Deterministic corner inputs (always evaluated on shard 0)."""
    out = []
    base = {"kind": "sample", "mode": "exact", "normal": [0.0, 1.0, 0.0, 0.0, 0.0, 0.0], "offset": 0.0, "plane": [0, 4],
            "tol": 1e-12, "dt_tol": 1e-9, "dp_tol": 1e-12, "max_hits": None, "newton": 4, "ti": 0}
    seqs = [[-1.0, 0.0, 1.0], [-1.0, 0.0], [0.0, 1.0], [1.0, 0.0, 1.0], [-1.0, 0.0, 0.0, 1.0], [1.0, -1.0, 1.0, -1.0],
            [-1.0, 2.0 ** -41, 1.0], [-1.0, -2.0 ** -41, 1.0], [1.0, 0.0, -1.0], [-1.0, 1.0], [0.0, 0.0], [1.0]]
    for g in seqs:
        for d in (1, -1, None):
            for interp in ("linear", "cubic"):
                for r in (0, 1, 3):
                    c = dict(base)
                    c.update(g=g, t=[0.5 * k for k in range(len(g))], X=[[0.25 + k / 64.0, v, 0.0, 0.0, 0.5 - k / 64.0, 0.0] for k, v in enumerate(g)],
                             direction=d, interp=interp, refine=r)
                    out.append(c)
    return out


def run(ctx):
    if ctx.shard == 0:
        for c in _probe_cases():
            eval_sample(c, ctx)
    maxn = ctx.scale(24, 48)
    explore(ctx, "sample", sample_case(maxn=maxn), eval_sample, ctx.share(ctx.scale(20000, 300000)))
    explore(ctx, "sample-short", sample_case(maxn=5), eval_sample, ctx.share(ctx.scale(6000, 120000)))
    explore(ctx, "analytic", analytic_case(), eval_analytic, ctx.share(ctx.scale(320, 6000)))
    explore(ctx, "engine", engine_case(), eval_engine, ctx.share(ctx.scale(1000, 16000)))


def replay(ctx, payload):
    kind = payload.get("kind", "sample")
    if kind == "analytic":
        eval_analytic(payload, ctx)
    elif kind == "engine":
        eval_engine(payload, ctx)
    else:
        eval_sample(payload, ctx)
