"""C06 — polynomial algebra is exact and independent of thread scheduling.

Three clauses:
  encoding  (exhaustive, both tiers) every multi-index of degree <= 30 in 6 variables <-> exactly one slot;
  ops       generated polynomials through the homogeneous kernels and the list-level operations against the exact
            dictionary oracle vf.oracle.polyref (+ reference-free laws);
  schedule  integer-valued inputs (every partial sum exact) through the parallel kernels for thread counts 1..16,
            several prange chunk sizes, repeated runs, both threading layers, and from concurrent Python threads:
            every configuration must return the exact reference, bit for bit.
Shards are split by *family* so that each process JIT-compiles only the kernels it needs.
"""
from __future__ import annotations

import os

# Schedule knob owned by the harness: idle OpenMP workers sleep instead of spinning.  With 16 workers per process on a
# shared 16-core box, spinning workers of one process starve the others (measured 0.5 s per kernel launch vs 6 ms).
os.environ.setdefault("OMP_WAIT_POLICY", "PASSIVE")

import logging
import math
import threading
from fractions import Fraction as F

import numpy as np
from hypothesis import strategies as st

from ..hyp import explore
from ..oracle import polyref as R
from ..runner import HarnessError

PROPERTY = "C06"
LEVEL = "exploration"
SHARDS = {"quick": 5, "thorough": 8}
NUMBA_THREADS = {"quick": 16, "thorough": 16}
FAMILIES = ["kernel", "list", "subst", "sched", "sched-wq"]
RULE = ("encoding: one case per (table, degree) with every slot and every multi-index of that degree round-tripped "
        "through the real _decode/_encode (non-trivial: degree >= 2), plus generated single calls; "
        "ops: generated (operation, polynomials, threads) cases against the exact oracle; non-trivial = mul/poisson/"
        "power/substitution with >= 2 distinct term pairs summed into one output slot, diff with an exponent >= 2 and "
        "integrate with an exponent >= 1 (divisor >= 2) in the chosen variable, evaluate with >= 2 non-zero terms at a point with >= 2 non-zero coordinates, "
        "add/scale with >= 2 terms; "
        "schedule: generated integer-valued case run under every thread count 1..16 x chunk sizes x repetitions; "
        "non-trivial = >= 2 distinct prange iterations contribute to one output slot (mul/poisson) or >= 2 contributing "
        "iterations with exponent >= 2 (diff), and more loop iterations than threads; distinct by full input")
ASSUMPTIONS = [
    "both factors of a kernel call have the same dtype (float64 or complex128); list-level operations take complex128 blocks (what _make_poly creates)",
    "list inputs of _substitute_linear/_affine have exactly max_deg+1 blocks and tables cover every degree that is touched (caller contract)",
    "_encode_multiindex ignores k0 by design (implicit exponent) and packs 6-bit fields: -1 is only asserted for 0 <= k_i <= 63 with k1+..+k5 > degree, or degree outside the table",
    "integer-valued inputs are kept small enough that every partial sum is an integer below 2**53, so any evaluation order is exact",
    "float tolerance per output coefficient: (terms_in_slot + c_op) * eps * sum|terms| with c_op counting the roundings of the operation (reduction over 16 scratch rows included); substitution additionally admits the documented cleaning threshold tol=1e-14",
    "division in _poly_integrate is only required to 8*eps relative accuracy (reciprocal-multiply would be acceptable)",
    "a fuzzing harness controls thread counts, chunk sizes, layer and repetition, not instruction interleavings: absence of a discrepancy is not a proof of race freedom",
]

EPS = 2.0 ** -52
EXACT_LIMIT = 2 ** 53
CHUNKS = [0, 1, 2, 3, 7, 64]

_L = None


class _Lib:
    pass


def _lib(layer=None):
    """Import the library lazily (after NUMBA_* env is final) and build the njit drivers of the encoding clause."""
    global _L
    if _L is not None:
        return _L
    if layer and "numba" not in __import__("sys").modules:
        os.environ["NUMBA_THREADING_LAYER"] = layer
    logging.disable(logging.CRITICAL)
    import numba
    from numba import njit
    from hiten.algorithms.polynomial import algebra as A
    from hiten.algorithms.polynomial import base as B
    from hiten.algorithms.polynomial import operations as O
    L = _Lib()
    L.numba, L.A, L.B, L.O = numba, A, B, O
    L.psi, L.clmo, L.enc = B._PSI_GLOBAL, B._CLMO_GLOBAL, B._ENCODE_DICT_GLOBAL
    L.maxthreads = int(numba.config.NUMBA_NUM_THREADS)
    L.local = {}
    dec, encf = B._decode_multiindex, B._encode_multiindex

    @njit
    def drv_slots(d, clmo, enc, dec_out, idx_out):
        k = np.empty(6, np.int64)
        for pos in range(clmo[d].shape[0]):
            t = dec(pos, d, clmo)
            for m in range(6):
                k[m] = t[m]
                dec_out[pos, m] = t[m]
            idx_out[pos] = encf(k, d, enc)

    @njit
    def drv_encode(K, d, enc, out):
        for i in range(K.shape[0]):
            out[i] = encf(K[i], d, enc)

    L.drv_slots, L.drv_encode = drv_slots, drv_encode
    _L = L
    return L


def _tables(L, D):
    """Tables built by _init_index_tables(D) + _create_encode_dict_from_clmo (cached); D=None -> the global tables."""
    if D is None:
        return L.psi, L.clmo, L.enc
    if D not in L.local:
        psi, clmo = L.B._init_index_tables(D)
        L.local[D] = (psi, clmo, L.B._create_encode_dict_from_clmo(clmo))
    return L.local[D]


def _layer(L):
    try:
        return L.numba.threading_layer()
    except Exception:
        return "unlaunched"


class _Sched:
    """Set thread count / chunk size, always restore."""

    def __init__(self, L, n=None, chunk=None):
        self.L, self.n, self.chunk = L, n, chunk

    def __enter__(self):
        nb = self.L.numba
        self.old_n = nb.get_num_threads()
        self.old_c = nb.get_parallel_chunksize()
        if self.n is not None:
            nb.set_num_threads(max(1, min(int(self.n), self.L.maxthreads)))
        if self.chunk is not None:
            nb.set_parallel_chunksize(int(self.chunk))
        return self

    def __exit__(self, *a):
        self.L.numba.set_num_threads(self.old_n)
        self.L.numba.set_parallel_chunksize(self.old_c)
        return False


# ------------------------------------------------------------------ polynomial specs (JSON) -> exact dicts
def _compositions(nparts, d, _memo={}):
    """All exponent vectors of nparts non-negative ints summing to d, as an (n, nparts) int64 array (independent
    enumeration: first part descending, recursively)."""
    key = (nparts, d)
    if key not in _memo:
        if nparts == 1:
            _memo[key] = np.array([[d]], dtype=np.int64)
        else:
            blocks = []
            for k0 in range(d, -1, -1):
                rest = _compositions(nparts - 1, d - k0)
                blocks.append(np.hstack([np.full((rest.shape[0], 1), k0, dtype=np.int64), rest]))
            _memo[key] = np.vstack(blocks)
    return _memo[key]


def _num(re, im, cplx):
    """JSON numbers (ints or doubles) -> exact coefficient."""
    re = re if isinstance(re, int) else F(float(re))
    im = im if isinstance(im, int) else F(float(im))
    return R.CF(re, im) if cplx else re


def build(spec, cplx):
    """spec: list of blocks; a block is {"t": [[k0..k5, re, im], ...]} (explicit terms) or
    {"dense": {"d","vars","a","b","m","h","f"}}: every monomial of degree d in the listed variables, t-th monomial
    gets ((a*t+b) mod m) - h  (imag part: ((a+3)*t+b+1) mod m - h), times the double f (one rounding, taken as the input)."""
    p = {}
    for blk in spec:
        if "t" in blk:
            for row in blk["t"]:
                p = R.add(p, R.clean({tuple(int(v) for v in row[:6]): _num(row[6], row[7], cplx)}))
        else:
            s = blk["dense"]
            vs = s["vars"]
            comps = _compositions(len(vs), s["d"])
            f = s.get("f", 1)
            for t, row in enumerate(comps):
                k = [0] * 6
                for v, e in zip(vs, row):
                    k[v] = int(e)
                re = (s["a"] * t + s["b"]) % s["m"] - s["h"]
                im = ((s["a"] + 3) * t + s["b"] + 1) % s["m"] - s["h"]
                if not isinstance(f, int):
                    re, im = float(re) * f, float(im) * f
                p = R.add(p, R.clean({tuple(k): _num(re, im, cplx)}))
    return p


def _cap(p, n):
    """Deterministically keep at most n terms (sorted by exponent) — construction, not rejection."""
    if len(p) <= n:
        return p
    return {k: p[k] for k in sorted(p)[:n]}


# ------------------------------------------------------------------ strategies
def _coef(kind):
    if kind == "int":
        return st.integers(-6, 6)
    # generic doubles: mantissa in [1,2), exponent in [-8,8], sign; no subnormal/underflow in any product of <= 16 factors
    return st.builds(lambda m, e, s: s * m * 2.0 ** e, st.floats(1.0, 2.0, exclude_max=True), st.integers(-8, 8),
                     st.sampled_from([-1.0, 1.0]))


@st.composite
def _expo(draw, d, vs):
    """Exponent vector of degree d supported on variables vs: d balls thrown into the chosen variables."""
    k = [0] * 6
    for _ in range(d):
        k[draw(st.sampled_from(vs))] += 1
    return k


@st.composite
def _block(draw, d, kind, cplx, maxterms, dense_cap, vs=None):
    """One homogeneous block of degree d: sparse explicit terms or dense-in-a-variable-subset."""
    if vs is None:
        nv = draw(st.integers(1, 6))
        vs = sorted(draw(st.permutations(list(range(6))))[:nv])
    vs = list(vs)
    if draw(st.integers(0, 2)) == 0:
        while math.comb(d + len(vs) - 1, len(vs) - 1) > dense_cap:
            vs = vs[:-1]
        m = draw(st.integers(2, 13))
        s = {"d": d, "vars": vs, "a": draw(st.integers(1, 12)), "b": draw(st.integers(0, 12)), "m": m,
             "h": draw(st.sampled_from([0, m // 2])), "f": 1 if kind == "int" else draw(_coef("float"))}
        return {"dense": s}
    n = draw(st.integers(1, maxterms))
    c = _coef(kind)
    rows = []
    for _ in range(n):
        k = draw(_expo(d, vs))
        rows.append(k + [draw(c), draw(c) if cplx else 0])
    return {"t": rows}


@st.composite
def _mixed(draw, degs, kind, cplx, maxterms, dense_cap, vs=None):
    """Polynomial with blocks of several degrees (subset of degs, at least one)."""
    ds = [d for d in degs if draw(st.booleans())] or [draw(st.sampled_from(degs))]
    return [draw(_block(d, kind, cplx, maxterms, dense_cap, vs)) for d in ds]


def _point(kind, cplx):
    c = st.integers(-3, 3) if kind == "int" else _coef("float")
    z = st.just(0)
    return st.lists(st.tuples(c, c if cplx else z).map(list), min_size=6, max_size=6)


_THREADS = st.sampled_from([1, 1, 2, 2, 3, 4, 5, 8, 16])


# ------------------------------------------------------------------ comparison against the exact oracle
def _total(maj):
    return sum(maj.values(), 0)


def _first_bad(out, ref, maj, cnt, cop, d, psi, clmo, exact_mode, extra_abs=0.0):
    """None if the dense block `out` (degree d) agrees with the exact dict `ref`; otherwise a message.
    exact_mode: bit-for-bit (values).  else |out-ref| <= (cnt+cop)*eps*maj + extra_abs per slot."""
    n = int(psi[6, d])
    out = np.asarray(out)
    if out.shape != (n,):
        return "degree-%d block has shape %r, expected (%d,)" % (d, out.shape, n)
    E = R.to_array(ref, d, psi, clmo, complex)
    if exact_mode:
        bad = ~(out == E)
        T = None
    else:
        M = R.to_array(maj, d, psi, clmo, float)
        Cn = R.to_array(cnt, d, psi, clmo, float)
        T = (Cn + cop) * EPS * M + extra_abs
        bad = ~(np.abs(out - E) <= T)
    if not bad.any():
        return None
    i = int(np.flatnonzero(bad)[0])
    k = tuple(int(v) for v in R.exps(clmo, d)[i])
    return "coefficient of x^%r (degree %d, slot %d): got %r, exact %r%s; %d slot(s) differ" % (
        k, d, i, complex(out[i]), complex(E[i]), "" if T is None else " (tolerance %.3g)" % T[i], int(bad.sum()))


def _cmp_list(blocks, nblocks, ref, maj, cnt, cop, psi, clmo, exact_mode, extra_abs=0.0):
    if len(blocks) != nblocks:
        return "result has %d blocks, expected %d" % (len(blocks), nblocks)
    for d in range(nblocks):
        msg = _first_bad(blocks[d], R.part(ref, d), R.part(maj, d), R.part(cnt, d), cop, d, psi, clmo, exact_mode, extra_abs)
        if msg:
            return msg
    return None


def _tag(case):
    return "%s-%s" % (case["kind"], "complex" if case["cplx"] else "real")


def _call(ctx, case, fn, f):
    """Run a library call; an exception on a well-formed input is a violation of its own bucket."""
    try:
        return True, f()
    except Exception as e:  # noqa: BLE001
        ctx.fail("raises:%s:%s" % (fn, type(e).__name__), case, "%s raised %r" % (fn, e))
        return False, None


def _pt(case, cplx_pt):
    """Exact point and its array."""
    xs = [_num(a, b, cplx_pt) for a, b in case["x"]]
    arr = np.array([R.tofloat(x, cplx_pt) for x in xs], dtype=np.complex128 if cplx_pt else np.float64)
    return xs, arr


def _eval_tol(p, xs, d):
    """sum|terms| of the evaluation and the number of terms."""
    return R.evaluate(R.majorant(p), [R.abs1(x) for x in xs]), len(p)


# ------------------------------------------------------------------ family: homogeneous kernels
KERNEL_OPS = ["add", "scale", "mul", "mul", "mul", "diff", "diff", "integrate", "poisson", "poisson", "evaluate",
              "leibniz", "jacobi", "evalprod"]


@st.composite
def kernel_case(draw, maxdeg, maxterms, dense_cap, pair_cap=40000):
    op = draw(st.sampled_from(KERNEL_OPS))
    kind = draw(st.sampled_from(["int", "int", "float"]))
    if op in ("leibniz", "jacobi", "evalprod"):
        kind = "int"
    cplx = draw(st.booleans())
    lim = maxdeg if op not in ("jacobi",) else min(maxdeg, 4)
    lo = 2 if op == "jacobi" else 0
    dp = draw(st.integers(lo, lim))
    dq = dp if op == "add" else draw(st.integers(lo, lim))
    mt = maxterms if op != "jacobi" else min(maxterms, 5)
    dc = dense_cap if op != "jacobi" else min(dense_cap, 10)
    # products: often a shared small variable subset, so that many monomial pairs fall into one output slot
    vs = None
    if op in ("mul", "poisson", "leibniz", "jacobi", "evalprod", "add") and draw(st.booleans()):
        vs = sorted(draw(st.permutations(list(range(6))))[:draw(st.integers(1, 4))])
    case = {"fam": "kernel", "op": op, "kind": kind, "cplx": cplx, "nt": draw(_THREADS), "dp": dp, "dq": dq,
            "P": [draw(_block(dp, kind, cplx, mt, dc, vs))], "Q": [draw(_block(dq, kind, cplx, mt, dc, vs))],
            "var": draw(st.integers(0, 5)) if vs is None else draw(st.sampled_from(vs)), "cap": pair_cap}
    if op == "jacobi":
        dr = draw(st.integers(lo, lim))
        case["dr"] = dr
        case["R"] = [draw(_block(dr, kind, cplx, mt, dc, vs))]
    if op == "scale":
        c = _coef(kind)
        case["alpha"] = [draw(c), draw(c) if cplx else 0]
    if op in ("evaluate", "evalprod"):
        case["xc"] = draw(st.booleans())
        case["x"] = draw(_point(kind, case["xc"]))
    return case


def eval_kernel(case, ctx):
    L = _lib()
    A = L.A
    psi, clmo, enc = L.psi, L.clmo, L.enc
    op, kind, cplx = case["op"], case["kind"], case["cplx"]
    dt = np.complex128 if cplx else np.float64
    dp, dq, v = case["dp"], case["dq"], case["var"]
    p = build(case["P"], cplx)
    q = build(case["Q"], cplx)
    pair_cap = case.get("cap", 40000)
    if len(p) * len(q) > pair_cap:
        q = _cap(q, max(1, pair_cap // max(1, len(p))))
    P = R.to_array(p, dp, psi, clmo, dt)
    Q = R.to_array(q, dq, psi, clmo, dt)
    mp, mq, op1, oq1 = R.majorant(p), R.majorant(q), R.ones(p), R.ones(q)
    tag = _tag(case)
    isint = kind == "int"
    nt = None
    cls = ["kernel:" + op, "kernel:" + tag, "threads:%d" % case["nt"]]
    fails = []

    def judge(fn, out, d, ref, maj, cnt, cop, exact_ok=True):
        exact_mode = isint and exact_ok and _total(maj) < EXACT_LIMIT
        msg = _first_bad(out, ref, maj, cnt, cop, d, psi, clmo, exact_mode)
        if msg:
            fails.append(("ops:%s:%s" % (fn, tag), "%s threads=%d: %s" % (fn, case["nt"], msg)))
        return exact_mode

    with _Sched(L, n=case["nt"]):
        if op == "add":
            out = np.zeros_like(P)
            ok, _ = _call(ctx, case, "_poly_add", lambda: A._poly_add(P, Q, out))
            if ok:
                judge("_poly_add", out, dp, R.add(p, q), R.add(mp, mq), R.ones(R.add(mp, mq)), 1)
            nt = ("add", repr(case)) if len(p) >= 2 and len(q) >= 2 else None
        elif op == "scale":
            a = _num(case["alpha"][0], case["alpha"][1], cplx)
            out = np.zeros_like(P)
            av = R.tofloat(a, cplx)
            ok, _ = _call(ctx, case, "_poly_scale", lambda: A._poly_scale(P, av, out))
            if ok:
                judge("_poly_scale", out, dp, R.scale(p, a), R.scale(mp, R.abs1(a)), op1, 3)
            nt = ("scale", repr(case)) if len(p) >= 2 and not a == 0 else None
        elif op == "mul":
            ok, out = _call(ctx, case, "_poly_mul", lambda: A._poly_mul(P, dp, Q, dq, psi, clmo, enc))
            cnt = R.mul(op1, oq1)
            if ok:
                judge("_poly_mul", out, dp + dq, R.mul(p, q), R.mul(mp, mq), cnt, 16)
            coll = max(cnt.values(), default=0)
            nt = ("mul", repr(case)) if coll >= 2 else None
            cls.append("mul:max-pairs-per-slot:%s" % ("1" if coll <= 1 else "2-9" if coll < 10 else "10-99" if coll < 100 else ">=100"))
        elif op == "diff":
            ok, out = _call(ctx, case, "_poly_diff", lambda: A._poly_diff(P, v, dp, psi, clmo, enc))
            if ok:
                judge("_poly_diff", out, max(dp - 1, 0), R.diff(p, v), R.diff(mp, v), R.ones(R.diff(mp, v)), 17)
            nt = ("diff", repr(case)) if any(k[v] >= 2 for k in p) else None
        elif op == "integrate":
            ok, out = _call(ctx, case, "_poly_integrate", lambda: A._poly_integrate(P, v, dp, psi, clmo, enc))
            if ok:
                judge("_poly_integrate", out, dp + 1, R.integrate(p, v), R.integrate(mp, v), {}, 8, exact_ok=False)
                # reference-free: d/dx_v of the library's own integral gives p back (two roundings per coefficient)
                ok2, back = _call(ctx, case, "_poly_diff", lambda: A._poly_diff(out, v, dp + 1, psi, clmo, enc))
                if ok2:
                    msg = _first_bad(back, p, mp, {}, 8, dp, psi, clmo, False)
                    if msg:
                        fails.append(("law:diff-of-integral:" + tag, msg))
            nt = ("integrate", repr(case)) if any(k[v] >= 1 for k in p) else None
        elif op == "poisson":
            ok, out = _call(ctx, case, "_poly_poisson", lambda: A._poly_poisson(P, dp, Q, dq, psi, clmo, enc))
            ref = R.poisson(p, q)
            cnt = R.poisson(op1, oq1, +1)
            if ok:
                if dp == 0 or dq == 0:
                    # documented: a constant argument gives zero (the returned block has degree-0 size)
                    if np.asarray(out).size < 1 or np.any(np.asarray(out) != 0):
                        fails.append(("ops:_poly_poisson:constant-argument", "bracket with a constant is not zero: %r" % (out,)))
                else:
                    judge("_poly_poisson", out, dp + dq - 2, ref, R.poisson(mp, mq, +1), cnt, 128)
            nt = ("poisson", repr(case)) if max(cnt.values(), default=0) >= 2 and ref else None
            cls.append("poisson:" + ("zero" if not ref else "nonzero"))
        elif op == "evaluate":
            xs, xa = _pt(case, case["xc"])
            ok, val = _call(ctx, case, "_poly_evaluate", lambda: A._poly_evaluate(P, dp, xa, clmo))
            if ok:
                ref = R.evaluate(p, xs)
                S, n = _eval_tol(p, xs, dp)
                refc = R.tofloat(ref, True)
                if isint and S < EXACT_LIMIT:
                    bad = not (complex(val) == refc)
                    tol = 0.0
                else:
                    tol = 2.0 * (3 * (dp + 7) + n) * EPS * float(S)
                    bad = not (abs(complex(val) - refc) <= tol)
                if bad:
                    fails.append(("ops:_poly_evaluate:" + tag, "got %r, exact %r (tolerance %.3g)" % (complex(val), refc, tol)))
            nt = ("evaluate", repr(case)) if len(p) >= 2 and sum(1 for x in xs if not x == 0) >= 2 else None
        elif op == "leibniz":
            # d(pq) = dp*q + p*dq, integer inputs: exact in every evaluation order
            def f():
                lhs = A._poly_diff(A._poly_mul(P, dp, Q, dq, psi, clmo, enc), v, dp + dq, psi, clmo, enc)
                t1 = A._poly_mul(A._poly_diff(P, v, dp, psi, clmo, enc), max(dp - 1, 0), Q, dq, psi, clmo, enc)
                t2 = A._poly_mul(P, dp, A._poly_diff(Q, v, dq, psi, clmo, enc), max(dq - 1, 0), psi, clmo, enc)
                return lhs, t1, t2
            ok, res = _call(ctx, case, "leibniz", f)
            if ok and dp >= 1 and dq >= 1 and 8 * (dp + dq) * _total(R.mul(mp, mq)) < EXACT_LIMIT:
                lhs, t1, t2 = res
                if not (lhs.shape == t1.shape == t2.shape and np.array_equal(lhs, t1 + t2)):
                    fails.append(("law:leibniz:" + tag, "d/dx%d(p*q) != dp*q + p*dq for integer-valued p,q (threads=%d)" % (v, case["nt"])))
            nt = ("leibniz", repr(case)) if dp >= 1 and dq >= 1 and any(k[v] >= 1 for k in p) and any(k[v] >= 1 for k in q) else None
        elif op == "jacobi":
            r = build(case["R"], cplx)
            dr = case["dr"]
            Rr = R.to_array(r, dr, psi, clmo, dt)
            pb = lambda a, da, b, db: A._poly_poisson(a, da, b, db, psi, clmo, enc)
            good = min(dp, dq, dr) >= 2  # all inner/outer brackets are genuine blocks of degree >= 2

            def f():
                return (pb(P, dp, pb(Q, dq, Rr, dr), dq + dr - 2), pb(Q, dq, pb(Rr, dr, P, dp), dr + dp - 2),
                        pb(Rr, dr, pb(P, dp, Q, dq), dp + dq - 2))
            if good:
                ok, res = _call(ctx, case, "jacobi", f)
                mr = R.majorant(r)
                bound = _total(R.poisson(mp, R.poisson(mq, mr, +1), +1)) * 3
                if ok and bound < EXACT_LIMIT:
                    s = res[0] + res[1] + res[2]
                    if np.any(s != 0):
                        fails.append(("law:jacobi:" + tag, "{p,{q,r}}+{q,{r,p}}+{r,{p,q}} != 0 for integer-valued inputs (max |.|=%g)" % float(np.max(np.abs(s)))))
                nt = ("jacobi", repr(case)) if R.poisson(p, R.poisson(q, r)) else None
            cls.append("jacobi:" + ("checked" if good else "degenerate-degree"))
        elif op == "evalprod":
            xs, xa = _pt(case, case["xc"])

            def f():
                pq = A._poly_mul(P, dp, Q, dq, psi, clmo, enc)
                return (A._poly_evaluate(pq, dp + dq, xa, clmo), A._poly_evaluate(P, dp, xa, clmo), A._poly_evaluate(Q, dq, xa, clmo))
            ok, res = _call(ctx, case, "evalprod", f)
            Sp, _ = _eval_tol(p, xs, dp)
            Sq, _ = _eval_tol(q, xs, dq)
            if ok and Sp * Sq * 4 < EXACT_LIMIT:
                if not (complex(res[0]) == complex(res[1]) * complex(res[2])):
                    fails.append(("law:eval-of-product:" + tag, "eval(p*q,x)=%r but eval(p,x)*eval(q,x)=%r" % (complex(res[0]), complex(res[1]) * complex(res[2]))))
            nt = ("evalprod", repr(case)) if len(p) >= 2 and len(q) >= 2 and not R.evaluate(R.mul(p, q), xs) == 0 else None
    ctx.case(nontrivial=nt, cls=cls, sample={"op": op, "dp": dp, "dq": dq, "terms": [len(p), len(q)], "tag": tag, "threads": case["nt"]} if nt and len(p) <= 6 else None)
    for b, m in fails:
        ctx.fail(b, case, m)


# ------------------------------------------------------------------ family: list-level operations
LIST_OPS = ["lmul", "lmul", "lpow", "lpow", "lpoisson", "lpoisson", "ldiff", "ljac", "lint", "leval"]


@st.composite
def list_case(draw, maxdeg, maxterms, dense_cap, pair_cap=40000):
    op = draw(st.sampled_from(LIST_OPS))
    kind = draw(st.sampled_from(["int", "int", "float"]))
    cplx = draw(st.booleans())
    N = draw(st.integers(0, maxdeg))
    case = {"fam": "list", "op": op, "kind": kind, "cplx": cplx, "nt": draw(_THREADS), "N": N, "var": draw(st.integers(0, 5)), "cap": pair_cap}
    if op == "lpow":
        NP = draw(st.integers(0, 3))
        case["P"] = draw(_mixed(list(range(NP + 1)), kind, cplx, 3, 4))
        case["k"] = draw(st.integers(0, 5))
        NQ = 0
        case["Q"] = []
    elif op in ("lmul", "lpoisson"):
        NP = draw(st.integers(0, maxdeg))
        NQ = draw(st.integers(0, maxdeg))
        vs = sorted(draw(st.permutations(list(range(6))))[:draw(st.integers(1, 4))]) if draw(st.booleans()) else None
        case["P"] = draw(_mixed(list(range(NP + 1)), kind, cplx, maxterms, dense_cap, vs))
        case["Q"] = draw(_mixed(list(range(NQ + 1)), kind, cplx, maxterms, dense_cap, vs))
    else:
        NP, NQ = N, 0
        case["P"] = draw(_mixed(list(range(NP + 1)), kind, cplx, maxterms, dense_cap))
        case["Q"] = []
    case["NP"], case["NQ"] = NP, NQ
    if op == "leval":
        case["xc"] = draw(st.booleans())
        case["x"] = draw(_point(kind, case["xc"]))
    need = max(N + (1 if op == "lint" else 0), NP, NQ)
    case["tab"] = draw(st.sampled_from([None, None, need, need + 1, need + 2]))
    return case


def eval_list(case, ctx):
    L = _lib()
    O = L.O
    psi, clmo, enc = _tables(L, case["tab"])
    op, kind, cplx, N, v = case["op"], case["kind"], case["cplx"], case["N"], case["var"]
    NP, NQ = case["NP"], case["NQ"]
    p = build(case["P"], cplx)
    q = build(case["Q"], cplx)
    pair_cap = case.get("cap", 40000)
    if len(p) * len(q) > pair_cap:
        q = _cap(q, max(1, pair_cap // max(1, len(p))))
    Pl = R.typed(R.from_dict(p, NP, psi, clmo))
    Ql = R.typed(R.from_dict(q, NQ, psi, clmo))
    mp, mq, op1, oq1 = R.majorant(p), R.majorant(q), R.ones(p), R.ones(q)
    tag = _tag(case)
    isint = kind == "int"
    cls = ["list:" + op, "list:" + tag, "tables:" + ("global" if case["tab"] is None else "local")]
    fails = []
    nt = None

    def judge(fn, blocks, nblocks, ref, maj, cnt, cop, guard=None, exact_ok=True):
        g = _total(maj) if guard is None else guard
        msg = _cmp_list(blocks, nblocks, ref, maj, cnt, cop, psi, clmo, isint and exact_ok and g < EXACT_LIMIT)
        if msg:
            fails.append(("ops:%s:%s" % (fn, tag), "%s N=%d threads=%d: %s" % (fn, N, case["nt"], msg)))

    with _Sched(L, n=case["nt"]):
        if op == "lmul":
            ok, out = _call(ctx, case, "_polynomial_multiply", lambda: O._polynomial_multiply(Pl, Ql, N, psi, clmo, enc))
            cnt = R.mul(op1, oq1, N)
            if ok:
                judge("_polynomial_multiply", out, N + 1, R.mul(p, q, N), R.mul(mp, mq, N), cnt, 16 + N + 1)
            trunc = R.degree(p) + R.degree(q) > N and bool(p) and bool(q)
            cls.append("lmul:" + ("truncating" if trunc else "complete"))
            nt = ("lmul", repr(case)) if max(cnt.values(), default=0) >= 2 else None
        elif op == "lpow":
            k = case["k"]
            ok, out = _call(ctx, case, "_polynomial_power", lambda: O._polynomial_power(Pl, k, N, psi, clmo, enc))
            cnt = R.power(op1, k, N)
            if ok:
                S = max(1, _total(mp))
                judge("_polynomial_power", out, N + 1, R.power(p, k, N), R.power(mp, k, N), cnt, 17 * 8, guard=S ** max(k, 1))
            cls.append("lpow:k=%d" % k)
            nt = ("lpow", repr(case)) if k >= 2 and max(cnt.values(), default=0) >= 2 else None
        elif op == "lpoisson":
            ok, out = _call(ctx, case, "_polynomial_poisson_bracket", lambda: O._polynomial_poisson_bracket(Pl, Ql, N, psi, clmo, enc))
            ref = R.truncate(R.poisson(p, q), N)
            cnt = R.truncate(R.poisson(op1, oq1, +1), N)
            if ok:
                judge("_polynomial_poisson_bracket", out, N + 1, ref, R.truncate(R.poisson(mp, mq, +1), N), cnt, 128 + N + 1)
            nt = ("lpoisson", repr(case)) if ref and max(cnt.values(), default=0) >= 2 else None
        elif op == "ldiff":
            ok, out = _call(ctx, case, "_polynomial_differentiate", lambda: O._polynomial_differentiate(Pl, v, N, psi, clmo, psi, clmo, enc))
            if ok:
                dm = R.diff(mp, v)
                judge("_polynomial_differentiate", out[0], max(N - 1, 0) + 1, R.diff(p, v), dm, R.ones(dm), 17)
                if out[1] != max(N - 1, 0):
                    fails.append(("ops:_polynomial_differentiate:degree", "returned degree %r for max_deg %d" % (out[1], N)))
            nt = ("ldiff", repr(case)) if any(k[v] >= 2 for k in p) else None
        elif op == "ljac":
            ok, out = _call(ctx, case, "_polynomial_jacobian", lambda: O._polynomial_jacobian(Pl, N, psi, clmo, enc))
            if ok:
                if len(out) != 6:
                    fails.append(("ops:_polynomial_jacobian:shape", "jacobian has %d entries" % len(out)))
                else:
                    for i in range(6):
                        dm = R.diff(mp, i)
                        judge("_polynomial_jacobian", out[i], max(N - 1, 0) + 1, R.diff(p, i), dm, R.ones(dm), 17)
            nt = ("ljac", repr(case)) if any(max(k) >= 2 for k in p) else None
        elif op == "lint":
            ok, out = _call(ctx, case, "_polynomial_integrate", lambda: O._polynomial_integrate(Pl, v, N, psi, clmo, psi, clmo, enc))
            if ok:
                judge("_polynomial_integrate", out[0], N + 2, R.integrate(p, v), R.integrate(mp, v), {}, 8, exact_ok=False)
                if out[1] != N + 1:
                    fails.append(("ops:_polynomial_integrate:degree", "returned degree %r for max_deg %d" % (out[1], N)))
            nt = ("lint", repr(case)) if any(k[v] >= 1 for k in p) else None
        elif op == "leval":
            xs, xa = _pt(case, case["xc"])
            ok, val = _call(ctx, case, "_polynomial_evaluate", lambda: O._polynomial_evaluate(Pl, xa, clmo))
            if ok:
                ref = R.tofloat(R.evaluate(p, xs), True)
                S, n = _eval_tol(p, xs, N)
                if isint and S < EXACT_LIMIT:
                    tol = 0.0
                    bad = not (complex(val) == ref)
                else:
                    tol = 2.0 * (3 * (N + 7) + n + N + 1) * EPS * float(S)
                    bad = not (abs(complex(val) - ref) <= tol)
                if bad:
                    fails.append(("ops:_polynomial_evaluate:" + tag, "got %r, exact %r (tolerance %.3g)" % (complex(val), ref, tol)))
            nt = ("leval", repr(case)) if len(p) >= 2 and sum(1 for x in xs if not x == 0) >= 2 else None
    ctx.case(nontrivial=nt, cls=cls, sample={"op": op, "N": N, "terms": [len(p), len(q)], "tag": tag, "threads": case["nt"]} if nt and len(p) <= 5 else None)
    for b, m in fails:
        ctx.fail(b, case, m)


# ------------------------------------------------------------------ family: linear / affine substitution
@st.composite
def subst_case(draw, maxdeg):
    op = draw(st.sampled_from(["sublin", "subaff"]))
    kind = draw(st.sampled_from(["int", "int", "float"]))
    cplx = draw(st.booleans())
    N = draw(st.integers(0, maxdeg))
    c = st.integers(-2, 2) if kind == "int" else _coef("float")
    z = st.just(0)
    base = draw(st.sampled_from(["identity", "permutation", "zero"]))
    perm = draw(st.permutations(list(range(6)))) if base == "permutation" else list(range(6))
    C = [[[0, 0] for _ in range(6)] for _ in range(6)]
    for i in range(6):
        if base != "zero":
            C[i][perm[i]] = [1 if kind == "int" else 1.0, 0]
        for _ in range(draw(st.integers(0, 2))):
            C[i][draw(st.integers(0, 5))] = [draw(c), draw(c if cplx else z)]
    s = [[0, 0] for _ in range(6)]
    if op == "subaff":
        for i in range(6):
            if draw(st.booleans()):
                s[i] = [draw(c), draw(c if cplx else z)]
    pc = draw(st.booleans())
    case = {"fam": "subst", "op": op, "kind": kind, "cplx": cplx, "pc": pc, "nt": draw(st.sampled_from([1, 1, 2, 3, 4])), "N": N,
            "P": draw(_mixed(list(range(N + 1)), kind, pc, 3, 6)), "C": C, "s": s,
            "x": draw(_point("int", cplx)), "tab": draw(st.sampled_from([None, None, N, N + 1]))}
    return case


def eval_subst(case, ctx):
    L = _lib()
    O = L.O
    psi, clmo, enc = _tables(L, case["tab"])
    op, kind, cplx, N = case["op"], case["kind"], case["cplx"], case["N"]
    p = _cap(build(case["P"], case["pc"]), 12)
    Pl = R.typed(R.from_dict(p, N, psi, clmo))
    Cx = [[_num(e[0], e[1], cplx) for e in row] for row in case["C"]]
    sx = [_num(e[0], e[1], cplx) for e in case["s"]]
    dt = np.complex128 if cplx else np.float64
    Ca = np.array([[R.tofloat(e, cplx) for e in row] for row in Cx], dtype=dt)
    sa = np.array([R.tofloat(e, cplx) for e in sx], dtype=dt)
    aff = op == "subaff"
    fn = "_substitute_affine" if aff else "_substitute_linear"
    tag = "%s-C%s-P%s" % (kind, "complex" if cplx else "real", "complex" if case["pc"] else "real")
    isint = kind == "int"
    fails = []
    Cm = [[R.abs1(e) for e in row] for row in Cx]
    sm = [R.abs1(e) for e in sx]
    ref = R.subst(p, Cx, sx if aff else None, N)
    maj = R.subst(R.majorant(p), Cm, sm if aff else None, N)
    cnt = R.subst(R.ones(p), [[0 if e == 0 else 1 for e in row] for row in Cm], [0 if e == 0 else 1 for e in sm] if aff else None, N)
    rows = [max(1, sum(Cm[i], 0) + (sm[i] if aff else 0)) for i in range(6)]
    guard = R.evaluate(R.majorant(p), rows) if p else 0
    with _Sched(L, n=case["nt"]):
        if aff:
            ok, out = _call(ctx, case, fn, lambda: O._substitute_affine(Pl, Ca, sa, N, psi, clmo, enc))
        else:
            ok, out = _call(ctx, case, fn, lambda: O._substitute_linear(Pl, Ca, N, psi, clmo, enc))
        if ok:
            exact_mode = isint and guard < EXACT_LIMIT
            msg = _cmp_list(out, N + 1, ref, maj, cnt, 17 * (64 + len(p)), psi, clmo, exact_mode, 0.0 if exact_mode else 1e-14)
            if msg:
                fails.append(("ops:%s:%s" % (fn, tag), "%s N=%d: %s" % (fn, N, msg)))
            # reference-free: eval(subst(p,C,s), x) == eval(p, C x + s) at an integer point, integer data
            if isint:
                xs, xa = _pt(case, cplx)
                ys = [sum((Cx[i][j] * xs[j] for j in range(6)), 0) + (sx[i] if aff else 0) for i in range(6)]
                ymaj = [sum((Cm[i][j] * R.abs1(xs[j]) for j in range(6)), 0) + (sm[i] if aff else 0) for i in range(6)]
                if R.evaluate(R.majorant(p), [max(1, y) for y in ymaj]) * 4 < EXACT_LIMIT and guard < EXACT_LIMIT:
                    ya = np.array([R.tofloat(y, True) for y in ys], dtype=np.complex128)
                    ok2, vals = _call(ctx, case, "eval-subst", lambda: (O._polynomial_evaluate(out, xa.astype(np.complex128), clmo),
                                                                        O._polynomial_evaluate(Pl, ya, clmo)))
                    if ok2 and not (complex(vals[0]) == complex(vals[1])):
                        fails.append(("law:eval-of-substitution:" + tag, "eval(%s(p),x)=%r but eval(p,Cx+s)=%r" % (fn, complex(vals[0]), complex(vals[1]))))
    coll = max(cnt.values(), default=0)
    nt = ("subst", repr(case)) if coll >= 2 and ref else None
    ctx.case(nontrivial=nt, cls=["subst:" + op, "subst:" + tag, "subst:max-terms-per-slot:%s" % ("<=1" if coll <= 1 else "2-9" if coll < 10 else ">=10"),
                                 "tables:" + ("global" if case["tab"] is None else "local")],
             sample={"op": op, "N": N, "terms": len(p), "tag": tag} if nt and len(p) <= 3 else None)
    for b, m in fails:
        ctx.fail(b, case, m)


# ------------------------------------------------------------------ family: schedule independence
@st.composite
def sched_case(draw, maxdeg, dense_cap, nchunks, reps, conc_opts):
    op = draw(st.sampled_from(["mul", "mul", "mul", "mul", "diff", "poisson", "lmul"]))
    cplx = draw(st.booleans())

    def dense(d):
        # few variables, high degree, spread over the slot range: many monomial pairs collide in one output slot
        nv = draw(st.sampled_from([2, 2, 3, 3, 4, 1]))
        vs = sorted(draw(st.permutations(list(range(6))))[:nv])
        while math.comb(d + len(vs) - 1, len(vs) - 1) > dense_cap:
            vs = vs[:-1]
        m = draw(st.integers(2, 13))
        return {"dense": {"d": d, "vars": vs, "a": draw(st.integers(1, 12)), "b": draw(st.integers(0, 12)), "m": m,
                          "h": draw(st.sampled_from([0, m // 2])), "f": 1}}
    lo = 1 if op in ("diff", "poisson") else 0
    degs = list(range(lo, maxdeg + 1)) + list(range(max(lo, maxdeg // 2), maxdeg + 1)) * 2  # biased towards high degree
    dp = draw(st.sampled_from(degs))
    dq = draw(st.sampled_from(degs))
    shared = draw(st.sampled_from([True, True, False]))
    P = [dense(dp)]
    Q = [dense(dq)]
    if shared:
        Q[0]["dense"]["vars"] = [v for v in P[0]["dense"]["vars"]]  # same support: maximal slot collisions
        while math.comb(dq + len(Q[0]["dense"]["vars"]) - 1, len(Q[0]["dense"]["vars"]) - 1) > dense_cap:
            Q[0]["dense"]["vars"] = Q[0]["dense"]["vars"][:-1]
    if op == "lmul":
        P.append(dense(draw(st.integers(0, maxdeg))))
        Q.append(dense(draw(st.integers(0, maxdeg))))
    chunks = [0] + sorted(set(draw(st.lists(st.sampled_from(CHUNKS[1:]), min_size=nchunks, max_size=nchunks))))
    conc = draw(st.sampled_from(conc_opts))
    return {"fam": "sched", "op": op, "kind": "int", "cplx": cplx, "dp": dp, "dq": dq, "P": P, "Q": Q,
            "var": draw(st.sampled_from(P[0]["dense"]["vars"])), "N": draw(st.integers(max(dp, dq), min(2 * maxdeg, dp + dq + 2))),
            "chunks": chunks, "reps": reps, "conc": conc}


def eval_sched(case, ctx):
    L = _lib()
    A, O = L.A, L.O
    psi, clmo, enc = L.psi, L.clmo, L.enc
    op, cplx, dp, dq, v, N = case["op"], case["cplx"], case["dp"], case["dq"], case["var"], case["N"]
    dt = np.complex128 if cplx else np.float64
    p = build(case["P"], cplx)
    q = build(case["Q"], cplx)
    mp, mq = R.majorant(p), R.majorant(q)
    tag = _tag(case)
    # exact references (dense arrays) and the call
    if op == "mul":
        p, q = R.part(p, dp), R.part(q, dq)
        P, Q = R.to_array(p, dp, psi, clmo, dt), R.to_array(q, dq, psi, clmo, dt)
        fn, refs = "_poly_mul", [R.to_array(R.mul(p, q), dp + dq, psi, clmo, dt)]
        bound = _total(R.mul(R.majorant(p), R.majorant(q)))
        call = lambda: [A._poly_mul(P, dp, Q, dq, psi, clmo, enc)]
        contrib = {}
        for k1 in p:
            for k2 in q:
                contrib.setdefault(tuple(a + b for a, b in zip(k1, k2)), set()).add(k1)
        iters, work = int(psi[6, dp]), max((len(s) for s in contrib.values()), default=0)
    elif op == "diff":
        p = R.part(p, dp)
        P = R.to_array(p, dp, psi, clmo, dt)
        fn, refs = "_poly_diff", [R.to_array(R.diff(p, v), dp - 1, psi, clmo, dt)]
        bound = _total(R.diff(R.majorant(p), v))
        call = lambda: [A._poly_diff(P, v, dp, psi, clmo, enc)]
        iters = int(psi[6, dp])
        work = 2 if sum(1 for k in p if k[v] >= 2) >= 2 else 0
    elif op == "poisson":
        p, q = R.part(p, dp), R.part(q, dq)
        P, Q = R.to_array(p, dp, psi, clmo, dt), R.to_array(q, dq, psi, clmo, dt)
        fn, refs = "_poly_poisson", [R.to_array(R.poisson(p, q), dp + dq - 2, psi, clmo, dt)]
        bound = _total(R.poisson(R.majorant(p), R.majorant(q), +1))
        call = lambda: [A._poly_poisson(P, dp, Q, dq, psi, clmo, enc)]
        iters = int(psi[6, max(dp - 1, 0)])
        work = max(R.poisson(R.ones(p), R.ones(q), +1).values(), default=0) if R.poisson(p, q) else 0
    else:
        NP, NQ = R.degree(p) if p else 0, R.degree(q) if q else 0
        Pl, Ql = R.typed(R.from_dict(p, max(NP, 0), psi, clmo)), R.typed(R.from_dict(q, max(NQ, 0), psi, clmo))
        fn = "_polynomial_multiply"
        refs = R.from_dict(R.mul(p, q, N), N, psi, clmo)
        bound = _total(R.mul(mp, mq, N))
        call = lambda: list(O._polynomial_multiply(Pl, Ql, N, psi, clmo, enc))
        iters = int(psi[6, max(NP, 0)])
        work = max(R.mul(R.ones(p), R.ones(q), N).values(), default=0)
    if bound >= EXACT_LIMIT:
        raise HarnessError("schedule case is not exactly representable (bound %r)" % (bound,))

    def mismatch(outs):
        if len(outs) != len(refs):
            return "result has %d blocks, expected %d" % (len(outs), len(refs))
        for d, (o, e) in enumerate(zip(outs, refs)):
            o = np.asarray(o)
            if o.shape != e.shape:
                return "block %d has shape %r, expected %r" % (d, o.shape, e.shape)
            bad = ~(o == e)
            if bad.any():
                i = int(np.flatnonzero(bad)[0])
                return "block %d slot %d: got %r, exact %r (%d slots differ)" % (d, i, complex(o[i]), complex(e[i]), int(bad.sum()))
        return None

    fails = []
    runs = 0
    layer = "?"
    ok = True
    with _Sched(L, n=1, chunk=0):
        ok, outs = _call(ctx, case, fn, call)
        layer = _layer(L)
        base = mismatch(outs) if ok else None
        if base:
            fails.append(("ops:%s:%s" % (fn, tag), "single thread, default chunking: " + base))
        elif ok:
            bad_cfg = []
            for n in range(1, L.maxthreads + 1):
                L.numba.set_num_threads(n)
                for c in case["chunks"]:
                    for r in range(case["reps"]):
                        L.numba.set_parallel_chunksize(c)
                        try:
                            m = mismatch(call())
                        except Exception as e:  # noqa: BLE001
                            m = "raised %r" % (e,)
                        runs += 1
                        if m:
                            bad_cfg.append((n, c, r, m))
            if bad_cfg:
                cause = "threads" if any(c == 0 for _, c, _, _ in bad_cfg) else "chunksize"
                n, c, r, m = bad_cfg[0]
                fails.append(("schedule:%s:%s:%s" % (fn, cause, layer),
                              "%d of %d configurations differ from the exact result that 1 thread returns; first: threads=%d chunksize=%d repetition=%d: %s; failing thread counts %s"
                              % (len(bad_cfg), runs, n, c, r, m, sorted({b[0] for b in bad_cfg}))))
    if ok and not base and case["conc"] and layer != "workqueue":
        errs = []

        def worker(i):
            n = 1 + (5 * i + 3) % L.maxthreads
            try:
                L.numba.set_num_threads(n)
                L.numba.set_parallel_chunksize(case["chunks"][i % len(case["chunks"])])
                for r in range(max(2, case["reps"])):
                    m = mismatch(call())
                    if m:
                        errs.append("caller %d (threads=%d) repetition %d: %s" % (i, n, r, m))
                        break
            except Exception as e:  # noqa: BLE001
                errs.append("caller %d raised %r" % (i, e))
            finally:
                L.numba.set_parallel_chunksize(0)
        ths = [threading.Thread(target=worker, args=(i,)) for i in range(case["conc"])]
        for t in ths:
            t.start()
        for t in ths:
            t.join()
        runs += case["conc"] * max(2, case["reps"])
        if errs:
            fails.append(("schedule:%s:concurrent-callers:%s" % (fn, layer), "%d of %d concurrent Python callers got a wrong result; %s" % (len(errs), case["conc"], errs[0])))
    nt = ("sched", repr(case)) if work >= 2 and iters > L.maxthreads and L.maxthreads >= 2 else None
    ctx.extra["schedule_runs"] = ctx.extra.get("schedule_runs", 0) + runs
    lay = ctx.extra.setdefault("schedule_runs_by_layer", {})
    lay[layer] = lay.get(layer, 0) + runs
    ctx.extra["schedule_max_threads"] = str(L.maxthreads)
    ctx.case(nontrivial=nt, cls=["sched:" + op, "sched:" + tag, "sched:layer:" + layer,
                                 "sched:iterations-per-slot:%s" % ("<2" if work < 2 else "2-9" if work < 10 else ">=10")]
             + (["sched:concurrent-callers"] if case["conc"] and layer != "workqueue" else []),
             sample={"op": op, "dp": dp, "dq": dq, "P": case["P"], "Q": case["Q"], "chunks": case["chunks"], "runs": runs, "layer": layer} if nt else None)
    for b, m in fails:
        ctx.fail(b, case, m)


# ------------------------------------------------------------------ clause 1: encoding (exhaustive)
def check_table(ctx, L, D, dmax=None, only_d=None):
    """Every slot and every multi-index of every degree <= dmax of the table set D (None = global tables, degree 30)."""
    psi, clmo, enc = _tables(L, D)
    label = "global" if D is None else "init(%d)" % D
    TD = 30 if D is None else D
    dmax = TD if dmax is None else min(dmax, TD)
    pay = lambda d: {"fam": "enc-table", "D": D, "d": d}
    if tuple(psi.shape) != (7, TD + 1) or len(clmo) != TD + 1 or len(enc) != TD + 1:
        ctx.fail("encoding:table-shape", pay(0), "%s: psi %r, len(clmo)=%d, len(encode)=%d for degree %d" % (label, psi.shape, len(clmo), len(enc), TD))
        return 0
    slots = 0
    for d in (range(dmax + 1) if only_d is None else [only_d]):
        n = math.comb(d + 5, 5)
        for i in range(0, 7):
            want = (1 if d == 0 else 0) if i == 0 else math.comb(d + i - 1, i - 1)
            if int(psi[i, d]) != want:
                ctx.fail("encoding:psi-count", pay(d), "%s: psi[%d,%d]=%d, number of monomials is %d" % (label, i, d, int(psi[i, d]), want))
        packed = np.asarray(clmo[d])
        if packed.shape != (n,):
            ctx.fail("encoding:slot-count", pay(d), "%s: clmo[%d] has %r slots, C(%d,5)=%d monomials" % (label, d, packed.shape, d + 5, n))
            continue
        K = _compositions(6, d)                       # independent enumeration of all multi-indices
        assert K.shape == (n, 6)
        dec = np.empty((n, 6), dtype=np.int64)
        e_of_dec = np.empty(n, dtype=np.int64)
        L.drv_slots(d, clmo, enc, dec, e_of_dec)       # real _decode / _encode on every slot
        e_of_K = np.empty(n, dtype=np.int64)
        L.drv_encode(K, d, enc, e_of_K)                # real _encode on every multi-index
        ar = np.arange(n)
        if np.unique(packed).size != n:
            ctx.fail("encoding:packed-keys-collide", pay(d), "%s degree %d: %d distinct packed keys for %d slots" % (label, d, np.unique(packed).size, n))
        if (dec < 0).any() or (dec.sum(axis=1) != d).any():
            i = int(np.flatnonzero((dec < 0).any(axis=1) | (dec.sum(axis=1) != d))[0])
            ctx.fail("encoding:decode-not-a-multiindex", pay(d), "%s degree %d slot %d decodes to %r" % (label, d, i, dec[i].tolist()))
        if not np.array_equal(dec, R.exps(clmo, d)):
            ctx.fail("encoding:decode-vs-documented-layout", pay(d), "%s degree %d: _decode_multiindex differs from the documented 6-bit layout of the table" % (label, d))
        if not np.array_equal(e_of_dec, ar):
            i = int(np.flatnonzero(e_of_dec != ar)[0])
            ctx.fail("encoding:encode(decode(pos))!=pos", pay(d), "%s degree %d slot %d -> %r -> slot %d" % (label, d, i, dec[i].tolist(), int(e_of_dec[i])))
        valid = (e_of_K >= 0) & (e_of_K < n)
        if not valid.all():
            i = int(np.flatnonzero(~valid)[0])
            ctx.fail("encoding:monomial-without-slot", pay(d), "%s degree %d: _encode_multiindex(%r)=%d (%d monomials without slot)" % (label, d, K[i].tolist(), int(e_of_K[i]), int((~valid).sum())))
        else:
            if np.unique(e_of_K).size != n:
                ctx.fail("encoding:two-monomials-one-slot", pay(d), "%s degree %d: %d monomials share slots" % (label, d, n - np.unique(e_of_K).size))
            back = dec[e_of_K]
            if not np.array_equal(back, K):
                i = int(np.flatnonzero((back != K).any(axis=1))[0])
                ctx.fail("encoding:decode(encode(k))!=k", pay(d), "%s degree %d: %r -> slot %d -> %r" % (label, d, K[i].tolist(), int(e_of_K[i]), back[i].tolist()))
        # out of table: k1+..+k5 = d+1 (and d+2) > d with every field <= 63 must not be found
        for extra in (1, 2):
            if d + extra > 63:
                continue
            Ko = np.hstack([np.zeros((math.comb(d + extra + 4, 4), 1), dtype=np.int64), _compositions(5, d + extra)])
            eo = np.empty(Ko.shape[0], dtype=np.int64)
            L.drv_encode(np.ascontiguousarray(Ko), d, enc, eo)
            if (eo != -1).any():
                i = int(np.flatnonzero(eo != -1)[0])
                ctx.fail("encoding:out-of-table-exponent-found", pay(d), "%s: _encode_multiindex(%r, degree=%d) = %d, expected -1" % (label, Ko[i].tolist(), d, int(eo[i])))
        if d == dmax:
            eo = np.empty(2, dtype=np.int64)
            L.drv_encode(np.ascontiguousarray(K[:1]), TD + 1, enc, eo[:1])
            L.drv_encode(np.ascontiguousarray(K[:1]), -1, enc, eo[1:])
            if (eo != -1).any():
                ctx.fail("encoding:degree-outside-table-found", pay(d), "%s: degree %d / -1 lookups returned %r" % (label, TD + 1, eo.tolist()))
        slots += n
        ctx.case(nontrivial=("enc-table", label, d) if d >= 2 else None, cls=["enc:table:" + ("global" if D is None else "init(D)")],
                 sample={"table": label, "degree": d, "slots": n} if d in (2, 30) else None)
    return slots


@st.composite
def enc_case(draw):
    d = draw(st.integers(0, 30))
    k = draw(_expo(d, [0, 1, 2, 3, 4, 5]))
    bump = draw(st.integers(1, 5))
    D = draw(st.sampled_from([None, None, d, d + 1]))
    return {"fam": "enc", "d": d, "k": k, "bump": bump, "D": D if d <= 11 else None}


def eval_enc(case, ctx):
    """Single Python-level calls of the real encode / decode (the dispatch path callers use)."""
    L = _lib()
    psi, clmo, enc = _tables(L, case["D"])
    d, k = case["d"], case["k"]
    ka = np.array(k, dtype=np.int64)
    pos = int(L.B._encode_multiindex(ka, d, enc))
    bad = None
    if not (0 <= pos < int(psi[6, d])):
        bad = ("encoding:monomial-without-slot", "_encode_multiindex(%r, %d) = %d" % (k, d, pos))
    else:
        back = [int(v) for v in L.B._decode_multiindex(pos, d, clmo)]
        if back != k:
            bad = ("encoding:decode(encode(k))!=k", "%r -> slot %d -> %r" % (k, pos, back))
    ko = list(k)
    ko[case["bump"]] += k[0] + 1  # k1..k5 now sum to d+1 > d: no slot of degree d has these packed fields
    ko[0] = 0
    if sum(ko[1:]) > d and max(ko) <= 63:
        r = int(L.B._encode_multiindex(np.array(ko, dtype=np.int64), d, enc))
        if r != -1 and bad is None:
            bad = ("encoding:out-of-table-exponent-found", "_encode_multiindex(%r, degree=%d) = %d, expected -1" % (ko, d, r))
    ctx.case(nontrivial=("enc-call", d, tuple(k)) if d >= 2 else None, cls="enc:single-call")
    if bad:
        ctx.fail(bad[0], case, bad[1])


def _selftest():
    """polyref against sympy on a fixed example (harness health, not a property)."""
    import sympy as sp
    xs = sp.symbols("q1 q2 q3 p1 p2 p3")
    to_sp = lambda p: sp.expand(sum(sp.Rational(c.numerator, c.denominator) * sp.prod([x ** e for x, e in zip(xs, k)]) for k, c in
                                    ((k, F(c)) for k, c in p.items())))
    a = R.add(R.add(R.mul(R.var(0, 2), R.var(3)), R.power(R.var(1), 3)), R.const(F(1, 2)))
    b = R.add(R.mul(R.var(3, 3), R.var(4)), R.mul(R.var(0), R.var(1, -1)))
    A_, B_ = to_sp(a), to_sp(b)
    pb = sum(sp.diff(A_, xs[m]) * sp.diff(B_, xs[m + 3]) - sp.diff(A_, xs[m + 3]) * sp.diff(B_, xs[m]) for m in range(3))
    C = [[1 if i == j else 0 for j in range(6)] for i in range(6)]
    C[0][1], C[3][5] = 2, -1
    s = [1, 0, 0, 0, 0, 3]
    sub = A_.subs({xs[i]: sum(C[i][j] * xs[j] for j in range(6)) + s[i] for i in range(6)}, simultaneous=True)
    checks = [
        sp.expand(to_sp(R.mul(a, b)) - A_ * B_) == 0,
        sp.expand(to_sp(R.power(a, 3)) - A_ ** 3) == 0,
        sp.expand(to_sp(R.poisson(a, b)) - pb) == 0,
        sp.expand(to_sp(R.diff(a, 1)) - sp.diff(A_, xs[1])) == 0,
        sp.expand(sp.diff(to_sp(R.integrate(a, 3)), xs[3]) - A_) == 0,
        sp.expand(to_sp(R.subst(a, C, s)) - sub) == 0,
        to_sp(R.truncate(R.mul(a, b), 3)) == sum(t for t in sp.Add.make_args(sp.expand(A_ * B_)) if sp.Poly(t, *xs).total_degree() <= 3),
        R.evaluate(a, [1, 2, 3, 4, 5, 6]) == A_.subs(dict(zip(xs, [1, 2, 3, 4, 5, 6]))),
        R.CF(1, 2) * R.CF(3, -1) == R.CF(5, 5) and R.evaluate({(2, 0, 0, 0, 0, 0): 1}, [R.CF(0, 1)] + [0] * 5) == -1,
        R.poisson(R.var(0), R.var(3)) == R.const(1) and R.poisson(R.var(3), R.var(0)) == R.const(-1),
    ]
    if not all(checks):
        raise HarnessError("polyref self-test against sympy failed: %r" % (checks,))


# ------------------------------------------------------------------ run / replay
def _assign(ctx):
    n = ctx.nshards
    if n >= len(FAMILIES):
        fam = FAMILIES[ctx.shard % len(FAMILIES)]
        members = [i for i in range(n) if FAMILIES[i % len(FAMILIES)] == fam]
        return [fam], members.index(ctx.shard), len(members)
    return [f for j, f in enumerate(FAMILIES[:4]) if j % n == ctx.shard], 0, 1


def run(ctx):
    import time
    t0 = time.time()  # diagnostics only (family_wall_s); never used by an oracle or a budget
    fams, rank, size = _assign(ctx)
    share = lambda total: int(total) // size + (1 if rank < int(total) % size else 0)
    L = _lib("workqueue" if fams == ["sched-wq"] else None)
    q = ctx.tier == "quick"
    if ctx.shard == 0:
        _selftest()
        slots = check_table(ctx, L, None)
        for D in ([0, 1, 2, 5, 9] if q else list(range(0, 13))):
            slots += check_table(ctx, L, D)
        ctx.extra["encoding_exhaustive"] = True
        ctx.extra["encoding_slots_round_tripped"] = slots
        ctx.extra["encoding_max_degree"] = "30"
        explore(ctx, "enc", enc_case(), eval_enc, ctx.scale(1500, 30000))
    maxdeg = ctx.scale(5, 8)
    for fam in fams:
        if fam == "kernel":
            explore(ctx, "kernel", kernel_case(maxdeg, ctx.scale(8, 14), ctx.scale(130, 500), ctx.scale(6000, 40000)), eval_kernel, share(ctx.scale(1500, 16000)), shrink_calls=ctx.scale(100, 400))
            explore(ctx, "kernel-small", kernel_case(3, 4, 20), eval_kernel, share(ctx.scale(1200, 40000)), shrink_calls=ctx.scale(200, 1000))
        elif fam == "list":
            explore(ctx, "list", list_case(maxdeg, ctx.scale(5, 10), ctx.scale(60, 300), ctx.scale(6000, 40000)), eval_list, share(ctx.scale(500, 8000)), shrink_calls=ctx.scale(60, 300))
            explore(ctx, "list-small", list_case(3, 3, 10), eval_list, share(ctx.scale(500, 15000)), shrink_calls=ctx.scale(150, 600))
        elif fam == "subst":
            explore(ctx, "subst", subst_case(ctx.scale(4, 6)), eval_subst, share(ctx.scale(250, 4000)), shrink_calls=ctx.scale(40, 200))
        elif fam in ("sched", "sched-wq"):
            # cost per run (16 oversubscribed workers): omp ~8 ms, workqueue ~26 ms (its idle workers spin)
            explore(ctx, "sched", sched_case(ctx.scale(6, 8), ctx.scale(60, 120), ctx.scale(2, 5), ctx.scale(2, 4), [0, 0, 0, 0, 0, 2, 3, 8] if fam == "sched" else [0]),
                    eval_sched, share(ctx.scale(100, 250) if fam == "sched" else ctx.scale(25, 80)), shrink_calls=ctx.scale(15, 60))
    ctx.extra.setdefault("threading_layers", {})[_layer(L)] = 1
    ctx.extra.setdefault("family_wall_s", {})["%s#%d" % ("+".join(fams), ctx.shard)] = round(time.time() - t0, 1)


def replay(ctx, payload):
    L = _lib()
    fam = payload.get("fam")
    if fam == "enc-table":
        check_table(ctx, L, payload["D"], only_d=payload["d"])
    elif fam == "enc":
        eval_enc(payload, ctx)
    elif fam == "kernel":
        eval_kernel(payload, ctx)
    elif fam == "list":
        eval_list(payload, ctx)
    elif fam == "subst":
        eval_subst(payload, ctx)
    elif fam == "sched":
        eval_sched(payload, ctx)
    else:
        raise HarnessError("unknown payload family %r" % (fam,))
