"""C17 — Hamiltonian fast paths agree with the generic integration path.

(1) hamsys.rhs(t,y) is evaluable and equals (dH/dP, -dH/dQ) computed independently
    from the very coefficient terms handed to create_hamiltonian_system; dH_dQ / dH_dP and
    _hamiltonian_rhs(y, *rhs_params) agree with it.
(2) differential testing across the hand-copied *_ham kernels: the same Hamilton
    field is supplied as an ordinary numba function (generated source from an
    independent symbolic gradient, no library polynomial code) through
    create_rhs_system; integrator.integrate(hamsys, ...) and integrator.integrate(twin, ...)
    must agree in times, states, derivatives and event results for RK4/6/8, RK45, DOP853,
    event off/on, directions -1/0/+1, uniform and non-uniform grids.
(3) the same through _propagate_dynsys(hamsys, method=fixed|adaptive, forward=+-1).
"""
from __future__ import annotations

import logging
import math

import numpy as np
from hypothesis import strategies as st

from .. import hamtools
from ..hyp import explore

PROPERTY = "C17"
LEVEL = "exploration"
REPLAY_IN_RUN = True
SHARDS = {"quick": 6, "thorough": 16}
RULE = ("program variants (RK4, RK6, RK8, RK45, DOP853) x (event off | on with direction -1/0/+1) x (uniform | non-uniform grid) enumerated for every generated "
        "polynomial Hamiltonian (3 DOF, degree <= 4 quick / <= 6 thorough, 50% non-separable); per variant generated initial states / spans / tolerances; "
        "rhs clause on generated (Hamiltonian, point) pairs; non-trivial = Hamiltonian of degree >= 3 with mixed q-p monomials or cross-DOF coupling and a state "
        "with all six components non-zero; distinct by (Hamiltonian, variant, state)")
ASSUMPTIONS = [
    "fixed-step paths and rhs values must agree to rounding amplification: 1e-9*scale",
    "adaptive paths: the step-size controller amplifies rounding-level differences of the error estimate (observed drift ~1e-8 at tol 1e-6 on the unchanged tree) and a bisection decision may flip, so a difference above the strict bound but within 50*(rtol|y|+atol) is classed 'soft' and only reported when at least 2 and more than 30% of the cases of a (variant, binding max_step) group are soft; above that bound it is always a violation",
    "event location: |t_hit difference| <= 10*xtol + 1e-12 and states within |f|*that + 1e-9*scale",
]
logging.disable(logging.CRITICAL)
EPS = 2.220446049250313e-16


# ------------------------------------------------------------------ independent twin
def _grad_terms(terms):
    """Symbolic gradient of the term list: list over variables of [(k..., coeff)]."""
    out = []
    for v in range(6):
        g = {}
        for r in terms:
            k = list(r[:6]); c = float(r[6])
            if k[v] == 0 or c == 0.0:
                continue
            c2 = c * k[v]
            k[v] -= 1
            g[tuple(k)] = g.get(tuple(k), 0.0) + c2
        out.append(sorted(g.items()))
    return out


def _expr(poly):
    if not poly:
        return "0.0"
    parts = []
    for k, c in poly:
        f = [repr(float(c))]
        for j, e in enumerate(k):
            f.extend(["y[%d]" % j] * e)
        parts.append("*".join(f))
    return " + ".join(parts)


def twin_source(terms):
    g = _grad_terms(terms)
    lines = ["def twin_rhs(t, y):", "    out = np.empty(6)"]
    for i in range(3):
        lines.append("    out[%d] = %s" % (i, _expr(g[3 + i])))
    for i in range(3):
        lines.append("    out[%d] = -(%s)" % (3 + i, _expr(g[i])))
    lines.append("    return out")
    return "\n".join(lines)


def make_twin(terms):
    from hiten.algorithms.dynamics.rhs import create_rhs_system
    ns = {"np": np}
    exec(twin_source(terms), ns)
    return create_rhs_system(ns["twin_rhs"], 6, name="twin")


# fixed event functions (compiled once per kernel x system)
def ev_q1(t, y):
    return y[0] - 0.03


def ev_mix(t, y):
    return 0.6 * y[1] - 0.8 * y[4] + 0.02 - 0.01 * t


def ev_tdep(t, y):
    # strongly time-dependent section (a moving plane): a stale time argument in one copy changes the bracketing step
    return y[0] + 0.2 - 0.5 * t


EVENTS = {"q1": ev_q1, "mix": ev_mix, "tdep": ev_tdep}


# ------------------------------------------------------------------ clause 1
@st.composite
def rhs_case(draw, maxdeg):
    H = draw(hamtools.polyham(maxdeg=maxdeg, eps_max=1.0))
    pts = [[draw(st.floats(-1.5, 1.5)) for _ in range(6)] for _ in range(3)]
    return {"H": H, "pts": pts, "call_rhs": draw(st.integers(0, 19)) == 0}


_cache = {}


def _hs(H):
    key = repr(H["terms"])
    if key not in _cache:
        if len(_cache) > 4:
            _cache.clear()
        _cache[key] = {"hs": hamtools.make_hamsys(H["terms"], H["maxdeg"])}
    return _cache[key]


def _nontrivial_H(H):
    return hamtools.is_nonseparable(H["terms"]) and max(sum(r[:6]) for r in H["terms"]) >= 3


def eval_rhs(case, ctx, force_rhs=False):
    from hiten.algorithms.dynamics.hamiltonian import _hamiltonian_rhs
    H = case["H"]
    ent = _hs(H)
    hs = ent["hs"]
    KC = hamtools.compile_terms(H["terms"])
    K, c = KC
    use_rhs = case.get("call_rhs") or force_rhs
    for p in case["pts"]:
        x = np.array(p, float)
        want = hamtools.ham_field(KC, x)
        # rounding scale: sum of |terms| of the gradient
        sc = 1.0 + float(np.sum(np.abs(c) * np.sum(K, axis=1) * np.prod(np.maximum(np.abs(x), 1.0)[None, :] ** K, axis=1)))
        tol = 256 * EPS * sc
        nt = (repr(H["terms"]), tuple(p)) if (_nontrivial_H(H) and all(abs(v) > 1e-6 for v in p)) else None
        ctx.case(nontrivial=nt, cls=["rhs:deg%d" % H["maxdeg"], "rhs:nonsep" if H["nonsep"] else "rhs:sep", "rhs:via-closure" if use_rhs else "rhs:via-kernel"],
                 sample={"terms": H["terms"], "point": p} if nt and ctx.evaluations % 400 == 0 else None)
        try:
            got = np.asarray(_hamiltonian_rhs(x, *hs.rhs_params), float)
        except Exception as e:
            ctx.fail("_hamiltonian_rhs-raises:%s" % type(e).__name__, case, str(e)[:300]); return
        if not np.all(np.abs(got - want) <= tol):
            k = int(np.argmax(np.abs(got - want)))
            ctx.fail("_hamiltonian_rhs-wrong:component-%d" % k, case, "component %d: %.17g, independent (dH/dP,-dH/dQ): %.17g" % (k, got[k], want[k]))
        try:
            dq = np.asarray(hs.dH_dQ(x[:3].copy(), x[3:].copy()), float)
            dp = np.asarray(hs.dH_dP(x[:3].copy(), x[3:].copy()), float)
        except Exception as e:
            ctx.fail("dH_dQ/dH_dP-raises:%s" % type(e).__name__, case, str(e)[:300]); return
        if not np.all(np.abs(dp - want[:3]) <= tol):
            ctx.fail("dH_dP-disagrees", case, "dH_dP=%r vs %r" % (dp.tolist(), want[:3].tolist()))
        if not np.all(np.abs(-dq - want[3:]) <= tol):
            ctx.fail("dH_dQ-disagrees", case, "dH_dQ=%r vs %r" % (dq.tolist(), (-want[3:]).tolist()))
        if use_rhs:
            try:
                r = np.asarray(hs.rhs(0.0, x.copy()), float)
            except Exception as e:
                ctx.fail("rhs-not-evaluable:%s" % type(e).__name__, case, "hamsys.rhs(t, y) raised %s: %s" % (type(e).__name__, str(e)[:200].replace("\n", " ")))
                return
            if not np.all(np.abs(r - want) <= tol):
                k = int(np.argmax(np.abs(r - want)))
                ctx.fail("rhs-wrong:component-%d" % k, case, "rhs[%d]=%.17g, independent value %.17g" % (k, r[k], want[k]))


# ------------------------------------------------------------------ clause 2 + 3
INTEGRATORS = [("RK4", "fixed", 4), ("RK6", "fixed", 6), ("RK8", "fixed", 8), ("RK45", "adaptive", 5), ("DOP853", "adaptive", 8)]


@st.composite
def run_case(draw):
    x0 = [draw(st.floats(-0.4, 0.4)) for _ in range(6)]
    T = draw(st.floats(0.3, 2.5))
    n = draw(st.integers(3, 60))
    grid = draw(st.sampled_from(["uniform", "nonuniform"]))
    gs = draw(st.integers(0, 2 ** 31))
    tol = draw(st.sampled_from([1e-6, 1e-8, 1e-10]))
    # rtol != atol in half of the cases (a swap of the two in one copy is invisible when they are equal)
    atol = draw(st.sampled_from([tol, tol, tol * 1e-3, tol * 1e-2, tol * 1e2]))
    ev = draw(st.sampled_from(["off", "tdep"]))
    # a BINDING max_step (the default inf never binds) in a third of the adaptive runs
    max_step = draw(st.sampled_from([None, None, 0.05, 0.02]))
    direction = draw(st.sampled_from([-1, 0, 1]))
    xtol = draw(st.sampled_from([1e-12, 1e-9]))
    return {"x0": x0, "T": T, "n": n, "grid": grid, "gs": gs, "tol": tol, "atol": atol, "max_step": max_step, "event": ev, "direction": direction, "xtol": xtol}


def _grid(c):
    if c["grid"] == "uniform":
        return np.linspace(0.0, c["T"], c["n"])
    rng = np.random.default_rng(c["gs"])
    t = np.concatenate([[0.0], np.cumsum(rng.uniform(0.2, 1.0, size=c["n"] - 1))])
    t = t * (c["T"] / t[-1]); t[-1] = c["T"]
    return t


def eval_diff(H, name, kind, order, c, ctx, soft):
    from hiten.algorithms.integrators.rk import AdaptiveRK, RungeKutta
    from hiten.algorithms.types.configs import EventConfig
    from hiten.algorithms.types.options import EventOptions
    ent = _hs(H)
    hs = ent["hs"]
    if "twin" not in ent:
        ent["twin"] = make_twin(H["terms"])
    twin = ent["twin"]
    tv = _grid(c)
    y0 = np.array(c["x0"], float)
    if kind == "fixed":
        integ = RungeKutta(order=order)
    else:
        if c.get("max_step"):
            integ = AdaptiveRK(order=order, rtol=c["tol"], atol=c.get("atol", c["tol"]), max_step=float(c["max_step"]))
        else:
            integ = AdaptiveRK(order=order, rtol=c["tol"], atol=c.get("atol", c["tol"]))
    kw = {}
    variant = "%s:event-%s" % (name, "off" if c["event"] == "off" else "on:dir%+d" % c["direction"])
    if c["event"] != "off":
        kw = dict(event_fn=EVENTS[c["event"]], event_cfg=EventConfig(direction=c["direction"], terminal=True),
                  event_options=EventOptions(xtol=c["xtol"], gtol=c["xtol"]))
    payload = {"H": H, "integrator": [name, kind, order], "run": c}
    res = []
    for label, sysm in (("hamiltonian", hs), ("generic", twin)):
        try:
            res.append(integ.integrate(sysm, y0.copy(), tv, **kw))
        except Exception as e:
            res.append(e)
    a, b = res
    nt = (repr(H["terms"]), variant, tuple(c["x0"])) if (_nontrivial_H(H) and all(abs(v) > 1e-6 for v in c["x0"])) else None
    ctx.case(nontrivial=nt, cls=["variant:" + variant, "grid:" + c["grid"]],
             sample={"variant": variant, "terms": H["terms"], "run": c} if nt and ctx.evaluations % 300 == 0 else None)
    if isinstance(a, Exception) or isinstance(b, Exception):
        if isinstance(a, Exception) and isinstance(b, Exception) and type(a) is type(b):
            ctx.classes["both-paths-raise:" + type(a).__name__] += 1
            return
        ctx.fail("one-path-raises:%s:%s" % (variant, "hamiltonian" if isinstance(a, Exception) else "generic"), payload,
                 "hamiltonian path: %s; generic path: %s" % (repr(a)[:150] if isinstance(a, Exception) else "ok", repr(b)[:150] if isinstance(b, Exception) else "ok"))
        return
    ta, tb = np.asarray(a.times, float), np.asarray(b.times, float)
    Xa, Xb = np.asarray(a.states, float), np.asarray(b.states, float)
    if ta.shape != tb.shape or Xa.shape != Xb.shape:
        ctx.fail("shape-differs:" + variant, payload, "times %r vs %r, states %r vs %r" % (ta.shape, tb.shape, Xa.shape, Xb.shape)); return
    scale = max(1.0, float(np.max(np.abs(Xb))))
    strict = 1e-9 * scale
    if c["event"] == "off":
        if not np.array_equal(ta, tb):
            ctx.fail("times-differ:" + variant, payload, "returned time grids differ"); return
        d = float(np.max(np.abs(Xa - Xb)))
        dd = 0.0
        if a.derivatives is not None and b.derivatives is not None:
            dd = float(np.max(np.abs(np.asarray(a.derivatives) - np.asarray(b.derivatives))))
        elif (a.derivatives is None) != (b.derivatives is None):
            ctx.fail("derivatives-missing-on-one-path:" + variant, payload, "derivatives None on one path only"); return
        worst = max(d, dd)
        if kind == "adaptive":
            # controller drift on the unchanged tree is <= ~2% of the tolerance; accept up to 10% of it
            tl0 = max(c["tol"], c.get("atol", c["tol"]))
            strict = max(1e-13, 0.1 * tl0) * scale
        if worst <= strict:
            return
        # adaptive paths: the step-size controller feeds rounding-level differences of the error estimate back into the
        # step sequence, and on the unchanged tree the two paths are observed to drift apart to ~1e-8 at tol 1e-6 (far
        # below the tolerance, far above rounding).  Such differences are classed "soft" per (variant, binding max_step)
        # group and reported only when they are the rule in a group, not the exception.
        tl = max(c["tol"], c.get("atol", c["tol"]))
        if kind == "adaptive" and worst <= 50 * (tl * scale + tl):
            grp = variant + (":binding-max_step" if c.get("max_step") else "")
            soft.setdefault(grp, [0, 0, payload, worst])[0] += 1
            return
        ctx.fail("trajectory-differs:" + variant + (":derivatives" if dd > d else ""), payload,
                 "max |states_ham - states_generic| = %.3g, derivatives %.3g (strict tolerance %.3g)" % (d, dd, strict))
    else:
        hit_a = abs(ta[-1] - tv[-1]) > 0 or False
        dt = abs(ta[-1] - tb[-1])
        fmax = float(np.max(np.abs(hamtools.ham_field(hamtools.compile_terms(H["terms"]), Xb[-1])))) + 1.0
        tt = 10 * c["xtol"] + 1e-12
        dx = float(np.max(np.abs(Xa[-1] - Xb[-1])))
        if dt <= tt and dx <= fmax * tt + strict:
            return
        tl = max(c["tol"], c.get("atol", c["tol"]))
        if kind == "adaptive" and dt <= tt + 50 * tl and dx <= fmax * (tt + 50 * tl) + 50 * (tl * scale + tl):
            soft.setdefault(variant, [0, 0, payload, max(dt, dx)])[0] += 1
            return
        ctx.fail("event-result-differs:" + variant, payload,
                 "hamiltonian path: t=%.15g, generic path: t=%.15g (|dt|=%.3g), max state difference %.3g" % (ta[-1], tb[-1], dt, dx))


def eval_propagate(H, c, ctx):
    """clause 3: _propagate_dynsys(hamsys, ...) runs and equals the twin through the same entry."""
    from hiten.algorithms.dynamics.base import _propagate_dynsys
    ent = _hs(H)
    hs = ent["hs"]
    if "twin" not in ent:
        ent["twin"] = make_twin(H["terms"])
    twin = ent["twin"]
    y0 = np.array(c["x0"], float)
    for method, order in (("fixed", 4), ("adaptive", 8)):
        for fwd in ((-1,) if ctx.tier == "quick" else (1, -1)):
            variant = "_propagate_dynsys:%s:forward%+d" % (method, fwd)
            payload = {"H": H, "propagate": [method, order, fwd], "run": c}
            out = []
            for sysm in (hs, twin):
                try:
                    out.append(_propagate_dynsys(sysm, y0.copy(), 0.0, c["T"], forward=fwd, steps=max(3, min(c["n"], 20)), method=method, order=order))
                except Exception as e:
                    out.append(e)
            ctx.case(nontrivial=(repr(H["terms"]), variant, tuple(c["x0"])) if _nontrivial_H(H) else None, cls="variant:" + variant)
            a, b = out
            if isinstance(b, Exception):
                ctx.classes["generic-propagate-raises"] += 1
                continue
            if isinstance(a, Exception):
                ctx.fail("propagate-hamiltonian-raises:%s:%s" % (method, type(a).__name__), payload,
                         "_propagate_dynsys(hamsys, method=%s, forward=%d) raised %s while the generic twin integrates" % (method, fwd, type(a).__name__))
                continue
            scale = max(1.0, float(np.max(np.abs(np.asarray(b.states)))))
            d = float(np.max(np.abs(np.asarray(a.states) - np.asarray(b.states))))
            if not np.array_equal(np.asarray(a.times), np.asarray(b.times)):
                ctx.fail("propagate-times-differ:%s" % method, payload, "time stamps differ between Hamiltonian and generic system")
            elif not d <= (1e-9 * scale if method == "fixed" else 1e-7 * scale):
                ctx.fail("propagate-trajectory-differs:%s:forward%+d" % (method, fwd), payload, "max state difference %.3g" % d)


def run(ctx):
    from ..runner import shard_replays
    shard_replays(ctx, replay)
    maxdeg = ctx.scale(4, 6)
    explore(ctx, "rhs", rhs_case(maxdeg), eval_rhs, ctx.share(ctx.scale(240, 3000)))
    # one closure-compiled rhs per shard is always exercised
    nH = ctx.scale(1, 2)
    ncases = ctx.scale(16, 30)
    # quick tier: each shard compiles only two of the five integrators (every kernel x system x event costs a JIT
    # compilation); over the 6 shards every integrator is exercised on at least two Hamiltonians
    ints = INTEGRATORS if ctx.tier != "quick" else [INTEGRATORS[(2 * ctx.shard + k) % len(INTEGRATORS)] for k in range(2)]
    soft = {}
    totals = {}

    def one_H(Hcase, cx):
        H = Hcase["H"]
        eval_rhs({"H": H, "pts": Hcase["pts"], "call_rhs": True}, cx, force_rhs=True)
        for c in Hcase["runs"]:
            for name, kind, order in ints:
                variant = "%s:event-%s" % (name, "off" if c["event"] == "off" else "on:dir%+d" % c["direction"])
                grp = variant + (":binding-max_step" if (c.get("max_step") and kind == "adaptive" and c["event"] == "off") else "")
                totals[grp] = totals.get(grp, 0) + 1
                eval_diff(H, name, kind, order, c, cx, soft)
        for c in Hcase["runs"][: max(2, ncases // 5)]:
            eval_propagate(H, c, cx)

    @st.composite
    def Hc(draw):
        return {"H": draw(hamtools.polyham(maxdeg=maxdeg, eps_max=0.4)), "pts": [[draw(st.floats(-1, 1)) for _ in range(6)] for _ in range(2)],
                "runs": [draw(run_case()) for _ in range(ncases)]}
    explore(ctx, "H", Hc(), one_H, nH, shrink=False)
    for variant, (n, _, payload, worst) in soft.items():
        tot = max(1, totals.get(variant, 1))
        ctx.classes["soft-mismatch:" + variant] += n
        if n > 0.3 * tot and n >= 2:
            ctx.fail("paths-disagree-at-tolerance-level:" + variant, payload,
                     "%d of %d cases differ by more than rounding (worst %.3g) between the Hamiltonian and the generic path" % (n, tot, worst))


def replay(ctx, payload):
    if "pts" in payload:
        eval_rhs(payload, ctx, force_rhs=True)
    elif "integrator" in payload:
        soft = {}
        name, kind, order = payload["integrator"]
        eval_diff(payload["H"], name, kind, order, payload["run"], ctx, soft)
        for v, (n, _, p, w) in soft.items():
            ctx.note("soft mismatch %s worst %.3g" % (v, w))
    elif "propagate" in payload:
        eval_propagate(payload["H"], payload["run"], ctx)
