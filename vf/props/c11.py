"""C11 — event detection returns the first admissible crossing, on the trajectory.

Systems with exact flows (closed form):
  * generic template  x' = M x + u  in the plane (rotation, damped/growing
    spiral, ellipse, saddle, uniform motion; M, u and the event parameters
    travel in constant extra state components, so one njit rhs and one njit
    event function serve every case);
  * quadratic polynomial Hamiltonians  H = A q^2/2 + B p^2/2 + C q p  in the
    first degree of freedom of a 3-DOF polynomial system built with
    create_hamiltonian_system (harmonic, elliptic, non-separable, free
    particle); the unused degrees of freedom carry the event parameters.
Events: affine n.x - c - v t, circle |x-a|^2 - rho^2 - v t, directions -1/0/+1.
Drivers: fixed-step RK {generic, Hamiltonian}, RK45 {generic, Hamiltonian},
DOP853 {generic, Hamiltonian}, extended symplectic.

Oracle: all zeros of the exact g(t) = g(t, phi_t(y0)) on the span are located
by a certified scan (monotonicity certificate from analytic bounds on the
second derivative) and refined by bisection on the closed-form flow; the step
(grid spacing / max_step) is then *derived* so that consecutive crossings are
more than 2.5 steps apart and the crossing stays transversal over a step.
"""
from __future__ import annotations

import logging
import math

import numpy as np
from hypothesis import strategies as st

from ..hyp import explore
from ..runner import HarnessError

PROPERTY = "C11"
LEVEL = "exploration"
SHARDS = {"quick": 4, "thorough": 8}
NUMBA_THREADS = {"quick": 1, "thorough": 1}
RULE = ("case = (driver family, generic|Hamiltonian twin, scheme order, linear system with closed-form flow, event "
        "template + parameters, direction, xtol, gtol, span, requested step) through Integrator.integrate(..., event_fn, "
        "event_cfg, event_options); non-trivial = the expected result is preceded by >= 1 crossing in the filtered-out "
        "direction (incl. 'all crossings filtered => end of span'), or the expected crossing lies within 1e-9*h of a step "
        "boundary of a fixed grid, or g(t0,y0) == 0 exactly / |g(t0,y0)| <= 1e-9*scale(g); one third of the Hamiltonian cases of "
        "the RK families are also run through the generic driver (same problem) and the two results compared; distinct by full input")
ASSUMPTIONS = [
    "sign-change precondition, enforced by construction: grid spacing / max_step is derived from the exact crossing times "
    "so that consecutive zeros of g (and t0 when g(t0,y0)==0) are > 2.5 steps apart and |dg/dt| does not drop below half "
    "its value at the crossing within 1.25 steps; extrema of g clear zero by >= 5% of the running max|g| (the span is cut "
    "before the first grazing / uncertifiable cell); cases whose location-tolerance windows would overlap are not judged "
    "(counted in coverage.too_inaccurate)",
    "start exactly on the surface is not a crossing (library test test_dop853_start_on_plane_moving_away_no_hit): the "
    "expected result is the first admissible zero in (t0, tf]",
    "a zero within the location tolerance of tf may be reported or not (either outcome accepted)",
    "integration accuracy itself is not C11's subject (C02/C16): the on-trajectory tolerance is 4x the error of the "
    "library's own non-event solution on the same grid/settings against the exact flow, plus the cubic-Hermite bound "
    "(nu*h)^4*R/100 for fixed-step/symplectic drivers or 100*sqrt(dim)*(atol+rtol*R) for adaptive dense output, plus rounding",
    "forward time only (t_vals ascending); backward propagation is C10",
    "terminal=True only",
]

logging.disable(logging.CRITICAL)

EPS = np.finfo(float).eps
FAMS = ["fixed", "rk45", "dop853", "sympl"]
HAM_MENU = [(1.0, 1.0, 0.0), (4.0, 1.0, 0.0), (1.0, 1.0, 0.5), (0.0, 1.0, 0.0)]
NMAX_STEPS = 6000

# ---------------------------------------------------------------------------
# library handles and harness-side njit templates (compiled once per process)
# ---------------------------------------------------------------------------
_L = {}
_USED = {"time": 0.0, "state": 0.0, "residual": 0.0}      # largest used fraction of each tolerance on passing cases


def _lib():
    if _L:
        return _L
    from numba import njit, types
    from hiten.algorithms.dynamics.rhs import create_rhs_system
    from hiten.algorithms.integrators import AdaptiveRK, RungeKutta
    from hiten.algorithms.integrators.symplectic import ExtendedSymplectic
    from hiten.algorithms.types.configs import EventConfig
    from hiten.algorithms.types.options import EventOptions

    # y = [x1, x2, m11, m12, m21, m22, u1, u2, e0, e1, e2, e3, kind]
    def rhs_lin2(t, y):
        out = np.zeros(13)
        out[0] = y[2] * y[0] + y[3] * y[1] + y[6]
        out[1] = y[4] * y[0] + y[5] * y[1] + y[7]
        return out

    sig = types.float64(types.float64, types.float64[:])

    @njit(sig, cache=False)
    def ev_gen(t, y):
        if y[12] > 0.5:
            dx = y[0] - y[8]
            dy = y[1] - y[9]
            return dx * dx + dy * dy - y[10] - y[11] * t
        return y[8] * y[0] + y[9] * y[1] - y[10] - y[11] * t

    # y = [q1, P0, P1, p1, P2, P3]   (q2,q3,p2,p3 are constants of the motion)
    @njit(sig, cache=False)
    def ev_ham(t, y):
        k = y[5]
        if k > 1.5:
            return y[1] * y[0] - y[2] - y[4] * t
        if k > 0.5:
            dx = y[0] - y[1]
            dy = y[3] - y[4]
            return dx * dx + dy * dy - y[2]
        return y[1] * y[0] + y[4] * y[3] - y[2]

    _L.update(dict(sys_gen=create_rhs_system(rhs_lin2, dim=13, name="c11-lin2"), ev_gen=ev_gen, ev_ham=ev_ham,
                   AdaptiveRK=AdaptiveRK, RungeKutta=RungeKutta, ExtendedSymplectic=ExtendedSymplectic,
                   EventConfig=EventConfig, EventOptions=EventOptions, ham={}, tables=None))
    return _L


def _ham_system(idx):
    L = _lib()
    if idx in L["ham"]:
        return L["ham"][idx]
    from numba.typed import List
    from hiten.algorithms.dynamics.hamiltonian import create_hamiltonian_system
    from hiten.algorithms.polynomial.base import _create_encode_dict_from_clmo, _encode_multiindex, _init_index_tables
    if L["tables"] is None:
        psi, clmo = _init_index_tables(2)
        L["tables"] = (psi, clmo, _create_encode_dict_from_clmo(clmo))
    psi, clmo, enc = L["tables"]
    A, B, C = HAM_MENU[idx]
    H = [np.zeros(psi[6, d], dtype=np.complex128) for d in range(3)]
    for k, val in (((2, 0, 0, 0, 0, 0), A / 2.0), ((0, 0, 0, 2, 0, 0), B / 2.0), ((1, 0, 0, 1, 0, 0), C)):
        i = _encode_multiindex(np.array(k, dtype=np.int64), 2, enc)
        if i < 0:
            raise HarnessError("cannot encode monomial %r" % (k,))
        H[2][i] = val
    Hn = List()
    for a in H:
        Hn.append(a.copy())
    hs = create_hamiltonian_system(Hn, 2, psi, clmo, enc, n_dof=3, name="c11-quad-%d" % idx)
    # harness self-check of the encoding: dH/dq1, dH/dp1 must be linear with the intended coefficients
    j = hs.jac_H
    got = (complex(j[0][1][0]).real, complex(j[0][1][3]).real, complex(j[3][1][0]).real, complex(j[3][1][3]).real)
    if got != (A, C, C, B) or any(abs(complex(v)) != 0.0 for r in (1, 2, 4, 5) for v in j[r][1]):
        raise HarnessError("Hamiltonian menu entry %d encoded as %r, intended A,C,C,B=%r" % (idx, got, (A, C, C, B)))
    L["ham"][idx] = hs
    return hs


# ---------------------------------------------------------------------------
# exact flow and event (oracle side, plain numpy / math)
# ---------------------------------------------------------------------------
class Flow:
    """x' = M x + u,  x(t0) = x0, closed form via M = alpha I + N, N^2 = D I."""

    def __init__(self, M, u, x0, t0):
        self.M = np.array(M, dtype=float).reshape(2, 2)
        self.u = np.array(u, dtype=float).reshape(2)
        self.x0 = np.array(x0, dtype=float).reshape(2)
        self.t0 = float(t0)
        m = self.M
        self.zeroM = not m.any()
        self.alpha = 0.5 * (m[0, 0] + m[1, 1])
        self.N = m - self.alpha * np.eye(2)
        self.D = self.N[0, 0] * self.N[0, 0] + m[0, 1] * m[1, 0]
        if self.zeroM or not self.u.any():
            self.c = np.zeros(2)
        else:
            self.c = -np.linalg.solve(m, self.u)
        self.d = self.x0 - self.c
        self.Nd = self.N @ self.d
        self.nu = float(np.linalg.norm(m, 2))
        self.poly = not (m @ m).any()      # flow is polynomial of degree <= 1 in t (integrated exactly by any RK)

    def _CS(self, tau):
        D = self.D
        if D < 0.0:
            O = math.sqrt(-D)
            return np.cos(O * tau), np.sin(O * tau) / O
        if D > 0.0:
            k = math.sqrt(D)
            return np.cosh(k * tau), np.sinh(k * tau) / k
        return np.ones_like(tau), tau

    def X(self, t):
        tau = np.asarray(t, dtype=float) - self.t0
        if self.zeroM:
            return self.x0[:, None] + self.u[:, None] * tau[None, :]
        C, S = self._CS(tau)
        e = np.exp(self.alpha * tau) if self.alpha != 0.0 else 1.0
        return self.c[:, None] + e * (C[None, :] * self.d[:, None] + S[None, :] * self.Nd[:, None])

    def x(self, t):
        return self.X(np.array([t], dtype=float))[:, 0]

    def V(self, X):
        return self.M @ X + self.u[:, None]

    def growth(self, T):
        """1.2 * sup_{0<=tau<=T} ||exp(M tau)||_2 (sampled; exp(M tau) is smooth on the sample spacing)."""
        if self.zeroM:
            return 1.0
        taus = np.linspace(0.0, T, 65)
        C, S = self._CS(taus)
        e = np.exp(self.alpha * taus)
        g = 1.0
        for k in range(taus.size):
            g = max(g, float(np.linalg.norm(e[k] * (C[k] * np.eye(2) + S[k] * self.N), 2)))
        return 1.2 * g


class Ev:
    """kind 0: e0 x1 + e1 x2 - e2 - e3 t;  kind 1: (x1-e0)^2 + (x2-e1)^2 - e2 - e3 t.
    Same operation order as the njit templates."""

    def __init__(self, kind, e):
        self.kind = int(kind)
        self.e = [float(v) for v in e]

    def g(self, t, X):
        e0, e1, e2, e3 = self.e
        if self.kind == 1:
            dx = X[0] - e0
            dy = X[1] - e1
            return dx * dx + dy * dy - e2 - e3 * t
        return e0 * X[0] + e1 * X[1] - e2 - e3 * t

    def gd(self, t, X, Xd):
        e0, e1, e2, e3 = self.e
        if self.kind == 1:
            return 2.0 * ((X[0] - e0) * Xd[0] + (X[1] - e1) * Xd[1]) - e3
        return e0 * Xd[0] + e1 * Xd[1] - e3


# ---------------------------------------------------------------------------
# problem assembly from a (JSON) case
# ---------------------------------------------------------------------------
def _problem(case):
    if case["ham"]:
        A, B, C = HAM_MENU[case["hidx"]]
        M = [[C, B], [-A, -C]]
        u = [0.0, 0.0]
    else:
        M = [case["M"][0:2], case["M"][2:4]]
        u = case["u"]
    fl = Flow(M, u, case["x0"], case["t0"])
    ev = Ev(case["ek"], case["e"])
    return fl, ev


def _y0(case):
    x0 = case["x0"]
    e = case["e"]
    if case["ham"]:
        k = case["ek"]
        if k == 1:
            if e[3] != 0.0:
                raise HarnessError("ham circle event cannot be time dependent")
            return np.array([x0[0], e[0], e[2], x0[1], e[1], 1.0])
        if e[3] != 0.0:
            if e[1] != 0.0:
                raise HarnessError("ham time-dependent plane needs e1 == 0")
            return np.array([x0[0], e[0], e[2], x0[1], e[3], 2.0])
        return np.array([x0[0], e[0], e[2], x0[1], e[1], 0.0])
    return np.array([x0[0], x0[1]] + list(case["M"]) + list(case["u"]) + list(e) + [float(case["ek"])])


def _active(case, y):
    return np.array([y[0], y[3]]) if case["ham"] else np.array([y[0], y[1]])


def _drv(case):
    return "%s-%s" % (case["fam"], "ham" if case["ham"] else "gen")


# ---------------------------------------------------------------------------
# certified scan for the zeros of the exact g along the exact flow
# ---------------------------------------------------------------------------
class Degenerate(Exception):
    pass


def _bisect(f, a, fa, b, fb):
    """Root of f in [a,b], fa*fb < 0 (fa, fb supplied)."""
    for _ in range(200):
        m = 0.5 * (a + b)
        if not (a < m < b):
            break
        fm = f(m)
        if fm == 0.0:
            return m
        if (fm < 0.0) == (fa < 0.0):
            a, fa = m, fm
        else:
            b, fb = m, fm
    return 0.5 * (a + b)


def _scan(fl, ev, g0, t0, tf):
    """Return dict(roots=[(T, sign, |gdot|)], tcap, L1, L2, Gn, Gamp, clear, Xmax, Xdev, delta, Gabs).
    roots: all zeros of g in (t0, tcap]; tcap <= tf + 0.25 (tf - t0) is the time up to which the scan is certified
    and |g(tcap)| >= clear whenever the scan had to be cut."""
    T = tf - t0
    text = tf + 0.25 * T
    nu = fl.nu
    ncell = int(min(60000, max(256, math.ceil((text - t0) * nu / 0.02))))
    ts = np.linspace(t0, text, ncell + 1)
    delta = (text - t0) / ncell
    X = fl.X(ts)
    Xd = fl.V(X)
    G = ev.g(ts, X)
    Gd = ev.gd(ts, X, Xd)
    G = np.array(G, dtype=float)
    G[0] = g0
    infl = math.exp(nu * delta) * 1.02
    Xdev = infl * float(np.max(np.hypot(X[0] - fl.c[0], X[1] - fl.c[1])))
    Xmax = infl * float(np.max(np.hypot(X[0], X[1]))) + float(np.hypot(*fl.u)) * delta
    Vb = infl * float(np.max(np.hypot(Xd[0], Xd[1])))
    Xdd = fl.M @ Xd
    A2 = infl * float(np.max(np.hypot(Xdd[0], Xdd[1])))
    e0, e1, e2, e3 = ev.e
    if ev.kind == 1:
        Dmax = float(np.max(np.hypot(X[0] - e0, X[1] - e1))) + Vb * delta
        Gn = 2.0 * Dmax
        L1 = 2.0 * Dmax * Vb + abs(e3)
        L2 = 2.0 * Vb * Vb + 2.0 * Dmax * A2
        Gabs = Dmax * Dmax + abs(e2) + abs(e3) * max(abs(t0), abs(text))
    else:
        Gn = math.hypot(e0, e1)
        L1 = Gn * Vb + abs(e3)
        L2 = Gn * A2
        Gabs = Gn * Xmax + abs(e2) + abs(e3) * max(abs(t0), abs(text))
    Gamp = float(np.max(np.abs(G)))
    if not (Gamp > 0.0) or not np.all(np.isfinite(G)):
        raise Degenerate("flat-g")
    clear = 0.05 * np.maximum.accumulate(np.abs(G))      # running amplitude of g (linear systems may grow/decay)
    Ga, Gb = G[:-1], G[1:]
    da, db = Gd[:-1], Gd[1:]
    mono = (np.sign(da) == np.sign(db)) & (np.minimum(np.abs(da), np.abs(db)) > L2 * delta * 1.001 + 64 * EPS * L1)
    sgn = (Ga * Gb < 0.0) | ((Gb == 0.0) & (Ga != 0.0))
    wturn = (np.maximum(np.abs(da), np.abs(db)) + L2 * delta) * delta
    tclear = (~mono) & (np.minimum(np.abs(Ga), np.abs(Gb)) > wturn + clear[1:])
    amb = (~mono) & (~tclear)
    tcap = text
    last = ncell
    if amb.any():
        ia = int(np.argmax(amb))
        j = ia
        while j > 0 and abs(G[j]) < clear[j]:
            j -= 1
        if j <= 8:
            raise Degenerate("grazing-at-start")
        last = j
        tcap = float(ts[j])

    tc_idx = np.nonzero(tclear[:last])[0]
    minclr = float(np.min((np.minimum(np.abs(Ga), np.abs(Gb)) - wturn)[tc_idx])) if tc_idx.size else math.inf
    minclr = min(minclr, abs(float(G[last])) if last < ncell else math.inf)

    def gs(t):
        x = fl.x(t)
        return float(ev.g(t, x))

    roots = []
    for i in np.nonzero(mono[:last] & sgn[:last])[0]:
        i = int(i)
        if Gb[i] == 0.0:
            tr = float(ts[i + 1])
        else:
            tr = _bisect(gs, float(ts[i]), float(Ga[i]), float(ts[i + 1]), float(Gb[i]))
        x = fl.x(tr)
        xd = fl.M @ x + fl.u
        gdr = float(ev.gd(tr, x, xd))
        roots.append((tr, 1 if da[i] > 0 else -1, abs(gdr)))
    return dict(roots=roots, tcap=tcap, L1=L1, L2=L2, Gn=Gn, Gamp=Gamp, clear=minclr, Xmax=Xmax, Xdev=Xdev,
                delta=delta, Gabs=Gabs, text=text)


def _plan(case, fl, ev, g0):
    """Derive the effective span and the step so that the sign-change precondition holds by construction."""
    t0 = fl.t0
    tf = t0 + case["span"]
    fam = case["fam"]
    grid = case.get("grid")
    sc = _scan(fl, ev, g0, t0, tf)
    if sc["tcap"] < tf:
        tf = sc["tcap"]
    T = tf - t0
    if grid is not None:
        # explicit dyadic grid (exact-node scenario): t_k = t0 + k h
        h = float(grid["h"])
        n = int(grid["n"])
        tf = t0 + n * h
        if tf > sc["tcap"]:
            raise Degenerate("explicit-grid-beyond-cap")
        T = tf - t0
    roots_in = [r for r in sc["roots"] if r[0] <= tf]
    pts = ([t0] if g0 == 0.0 else []) + [r[0] for r in roots_in]
    gap = min([b - a for a, b in zip(pts[:-1], pts[1:])], default=math.inf)
    hreq = case["hreq"] if grid is None else h
    hs = [hreq, gap / 2.5]
    if sc["L2"] > 0.0:
        for r in roots_in:
            hs.append(0.4 * r[2] / sc["L2"])
    GE = fl.growth(T)
    if fam in ("fixed", "sympl") and not fl.poly and fl.nu > 0:
        hs.append((1e-3 / ((1.0 + fl.nu * T) * GE * GE)) ** 0.25 / fl.nu)
    hd = min(hs)
    if not (hd > 0.0) or not math.isfinite(hd):
        raise Degenerate("no-step")
    if grid is not None:
        if hd < h:
            raise Degenerate("explicit-grid-violates-precondition")
        return dict(sc=sc, tf=tf, h=h, n=n, GE=GE, t_vals=t0 + h * np.arange(n + 1))
    if fam in ("fixed", "sympl"):
        nmax = NMAX_STEPS if not (fam == "sympl" and case["order"] >= 6) else NMAX_STEPS // 4
        jit = 1.4 if case.get("jitter") else 1.0
        n = int(math.ceil(T * jit / hd))
        if n > nmax:
            n = nmax
            tf = t0 + n * hd / jit
            T = tf - t0
        n = max(n, 2)
        base = np.arange(n + 1, dtype=float)
        if case.get("jitter"):
            k = np.arange(1, n, dtype=float)
            base[1:n] = k + 0.28 * (np.mod(k * 0.6180339887498949 + 0.37 * case["jitter"], 1.0) - 0.5)
        t_vals = t0 + (T / n) * base
        t_vals[-1] = tf
        hmax = float(np.max(np.diff(t_vals)))
        return dict(sc=sc, tf=tf, h=hmax, n=n, GE=GE, t_vals=t_vals)
    # adaptive: max_step
    return dict(sc=sc, tf=tf, h=hd, n=None, GE=GE, t_vals=np.array([t0, tf]))


# ---------------------------------------------------------------------------
# library calls
# ---------------------------------------------------------------------------
def _integrator(case, max_step):
    L = _lib()
    fam = case["fam"]
    if fam == "fixed":
        return L["RungeKutta"](order=case["order"])
    if fam == "rk45":
        return L["AdaptiveRK"](order=5, rtol=case["rtol"], atol=case["atol"], max_step=max_step)
    if fam == "dop853":
        return L["AdaptiveRK"](order=8, rtol=case["rtol"], atol=case["atol"], max_step=max_step)
    return L["ExtendedSymplectic"](order=case["order"])


def _system(case):
    return _ham_system(case["hidx"]) if case["ham"] else _lib()["sys_gen"]


def _evfn(case):
    L = _lib()
    return L["ev_ham"] if case["ham"] else L["ev_gen"]


def _measure(case, fl, plan, integ, system, y0):
    """Error of the library's own non-event solution against the exact flow (same grid / tolerances)."""
    if case["fam"] in ("fixed", "sympl"):
        tv = plan["t_vals"]
    else:
        tv = np.linspace(fl.t0, plan["tf"], 65)
    sol = integ.integrate(system, y0.copy(), tv.copy())
    S = np.asarray(sol.states)
    if S.shape[0] != tv.size:
        raise HarnessError("non-event solution has %d rows for %d times" % (S.shape[0], tv.size))
    act = np.array([S[:, 0], S[:, 3]]) if case["ham"] else np.array([S[:, 0], S[:, 1]])
    return float(np.max(np.hypot(*(act - fl.X(tv)))))


# ---------------------------------------------------------------------------
# evaluation of one case
# ---------------------------------------------------------------------------
def _ulp_t(*ts):
    return 8.0 * EPS * max(1.0, *[abs(t) for t in ts])


def evaluate(case, ctx):
    L = _lib()
    drv = _drv(case)
    fl, ev = _problem(case)
    y0 = _y0(case)
    evfn = _evfn(case)
    t0 = fl.t0
    g0 = float(evfn(t0, y0.copy()))           # harness template on the initial state (defines on/near surface)
    g0_or = float(ev.g(t0, fl.x0))
    if (g0 > 0) != (g0_or > 0) or (g0 < 0) != (g0_or < 0):
        ctx.extra["degenerate"] = ctx.extra.get("degenerate", 0) + 1
        ctx.extra.setdefault("degenerate_kinds", {})
        ctx.extra["degenerate_kinds"]["g0-sign"] = ctx.extra["degenerate_kinds"].get("g0-sign", 0) + 1
        return
    try:
        plan = _plan(case, fl, ev, g0)
    except Degenerate as d:
        ctx.extra["degenerate"] = ctx.extra.get("degenerate", 0) + 1
        dk = ctx.extra.setdefault("degenerate_kinds", {})
        key = "%s/%s/%s" % (d, case["scn"], case.get("mode", "onnode"))
        dk[key] = dk.get(key, 0) + 1
        return
    sc = plan["sc"]
    tf = plan["tf"]
    h = plan["h"]
    T = tf - t0
    fam = case["fam"]
    integ = _integrator(case, h)
    system = _system(case)
    xtol, gtol, direction = case["xtol"], case["gtol"], case["dir"]

    # ---- tolerance on the state (see ASSUMPTIONS)
    dim = y0.size
    try:
        emeas = _measure(case, fl, plan, integ, system, y0)
    except HarnessError:
        raise
    except Exception as e:
        ctx.case(cls=[drv, "raised"])
        ctx.fail("non-event-integration-raises:%s:%s" % (drv, type(e).__name__), case, repr(e))
        return
    nsteps = plan["n"] if plan["n"] is not None else 64 + T / h * 8
    rnd = 64.0 * EPS * (nsteps + 16.0) * max(sc["Xmax"], 1e-300)
    if fam in ("fixed", "sympl"):
        interp = 0.0 if fl.poly else (fl.nu * h) ** 4 * sc["Xdev"] / 100.0
    else:
        interp = 100.0 * math.sqrt(dim) * (case["atol"] + case["rtol"] * sc["Xmax"])
    Ey = 4.0 * emeas + interp + rnd
    gerr = sc["Gn"] * Ey
    if gerr > 0.2 * sc["clear"]:
        ctx.extra["too_inaccurate"] = ctx.extra.get("too_inaccurate", 0) + 1
        return

    # ---- per-root location tolerance
    roots = []
    for (tr, s, gdr) in sc["roots"]:
        m = gdr - 1.25 * h * sc["L2"]
        if m <= 0.25 * gdr:
            if tr <= tf:
                raise HarnessError("transversality margin lost at a root inside the span (plan bug)")
            continue
        w = xtol + (gtol + 2.0 * gerr) / m + 64.0 * EPS * sc["Gabs"] / m + _ulp_t(t0, tf)
        roots.append((tr, s, w))
    tin = ([t0] if g0 == 0.0 else []) + [r[0] for r in roots if r[0] <= tf]
    gapmin = min([b - a for a, b in zip(tin[:-1], tin[1:])], default=math.inf)
    if any(r[2] > 0.25 * gapmin for r in roots if r[0] <= tf):
        # location tolerance windows of neighbouring zeros would overlap: the case cannot be judged
        ctx.extra["too_inaccurate"] = ctx.extra.get("too_inaccurate", 0) + 1
        return

    def first_adm(rs):
        for r in rs:
            if direction == 0 or r[1] == direction:
                return r
        return None

    inside = [r for r in roots if r[0] <= tf]
    scen = [inside]
    near = [r for r in roots if abs(r[0] - tf) <= r[2]]
    if near:
        r = near[0]
        scen.append([q for q in inside if q is not r] if r[0] <= tf else inside + [r])
    exp_main = first_adm(inside)

    # ---- classification
    cls = [drv, "dir%+d" % direction if direction else "dir0", "ev:" + ("circle" if ev.kind == 1 else "plane") + (":t" if ev.e[3] != 0.0 else ""),
           "sys:" + case["scn"], "mode:" + case.get("mode", "onnode"), "order:%s%d" % (fam, case["order"]) if fam in ("fixed", "sympl") else "order:" + fam]
    nt = []
    n_filtered_before = 0
    for r in inside:
        if exp_main is not None and r is exp_main:
            break
        n_filtered_before += 1
    if n_filtered_before > 0:
        nt.append("filtered-before")
        cls.append("filtered-crossings-before-result")
    cls.append("expect:hit" if exp_main is not None else ("expect:end(all-filtered)" if inside else "expect:end(no-zero)"))
    cls.append("zeros-in-span:%s" % (len(inside) if len(inside) < 3 else "3+"))
    if g0 == 0.0:
        nt.append("start-on")
        cls.append("start:on-surface")
    elif abs(g0) <= 1e-9 * sc["Gamp"]:
        nt.append("start-near")
        cls.append("start:near-surface")
    if near:
        cls.append("zero-near-tf")
    node_hit = False
    if fam in ("fixed", "sympl") and exp_main is not None:
        tv = plan["t_vals"]
        k = int(np.argmin(np.abs(tv - exp_main[0])))
        if abs(tv[k] - exp_main[0]) <= 1e-9 * h:
            node_hit = True
            nt.append("on-node")
            cls.append("crossing-on-grid-node" + ("(exact)" if tv[k] == exp_main[0] else "(1e-9h)"))
    if fam in ("fixed", "sympl"):
        tv = plan["t_vals"]
        for r in inside:
            if exp_main is not None and r is exp_main:
                break
            k = int(np.argmin(np.abs(tv - r[0])))
            if abs(tv[k] - r[0]) <= 1e-9 * h:
                cls.append("filtered-crossing-on-grid-node")
                nt.append("filtered-on-node")
                break

    # ---- run the event driver
    try:
        sol = integ.integrate(system, y0.copy(), plan["t_vals"].copy(), event_fn=evfn,
                              event_cfg=L["EventConfig"](direction=direction, terminal=True),
                              event_options=L["EventOptions"](xtol=xtol, gtol=gtol))
        t_end = float(sol.times[-1])
        y_end = np.array(sol.states[-1], dtype=float)
    except Exception as e:
        ctx.case(nontrivial=("c11", repr(case)) if nt else None, cls=cls + ["raised"])
        ctx.fail("event-integration-raises:%s:%s" % (drv, type(e).__name__), case, repr(e))
        return

    ctx.case(nontrivial=("c11", repr(case)) if nt else None, cls=cls,
             sample={"driver": drv, "dir": direction, "zeros": [(r[0], r[1]) for r in inside][:6], "t0": t0, "tf": tf, "h": h,
                     "expected": None if exp_main is None else exp_main[0], "returned_t": t_end, "why": nt} if nt else None)

    fails = []
    ended = abs(t_end - tf) <= 4.0 * EPS * max(abs(tf), 1.0)
    x_end = _active(case, y_end)
    # constants of the motion that carry the parameters must come back unchanged
    const_idx = [1, 2, 4, 5] if case["ham"] else list(range(2, 13))
    cdev = max(abs(y_end[i] - y0[i]) / max(abs(y0[i]), 1.0) for i in const_idx)
    if not (cdev <= 64.0 * EPS):
        fails.append(("constant-components-changed:" + drv, "constant state components moved by %.3g (relative)" % cdev))
    if not (t0 <= t_end <= tf + 4.0 * EPS * max(abs(tf), 1.0)):
        fails.append(("time-outside-span:" + drv, "returned time %.17g outside [%.17g, %.17g]" % (t_end, t0, tf)))
    elif ended:
        ok = any(first_adm(s) is None for s in scen)
        if not ok:
            e = exp_main if exp_main is not None else first_adm(scen[-1])
            fails.append(("missed-crossing:" + drv, "no event reported, but g crosses zero in direction %+d at t=%.17g (|dg/dt| tolerance window %.3g) inside (t0=%.17g, tf=%.17g]; %d zero(s) before it"
                          % (e[1], e[0], e[2], t0, tf, n_filtered_before)))
        err = float(np.hypot(*(x_end - fl.x(tf))))
        if err <= Ey:
            _USED["state"] = max(_USED["state"], err / Ey)
        if err > Ey:
            fails.append(("end-state-off-trajectory:" + drv, "no event: state at tf deviates %.3g from the exact flow (allowed %.3g)" % (err, Ey)))
    else:
        matched = None
        for s in scen:
            e = first_adm(s)
            if e is not None and abs(t_end - e[0]) <= e[2]:
                matched = e
        if matched is None:
            # diagnose
            hitroot = None
            for r in roots:
                if abs(t_end - r[0]) <= r[2]:
                    hitroot = r
            gret = float(evfn(t_end, y_end.copy()))
            if hitroot is not None and direction != 0 and hitroot[1] != direction:
                on_node = fam in ("fixed", "sympl") and float(np.min(np.abs(plan["t_vals"] - hitroot[0]))) <= 1e-9 * h
                if on_node:
                    b = "wrong-direction-zero-on-step-end:" + fam
                else:
                    b = "wrong-direction-crossing-reported:" + drv
                fails.append((b, "direction=%+d but the reported event t=%.17g is the %+d crossing at %.17g (g at the reported state = %.3g); expected %s"
                              % (direction, t_end, hitroot[1], hitroot[0], gret, "t=%.17g" % exp_main[0] if exp_main else "no event")))
            elif hitroot is not None and exp_main is not None and hitroot[0] > exp_main[0]:
                fails.append(("earlier-crossing-skipped:" + drv, "reported t=%.17g is a later zero; first admissible zero at %.17g" % (t_end, exp_main[0])))
            elif exp_main is None:
                fails.append(("spurious-event:" + drv, "event reported at t=%.17g (g=%.3g) but g has no admissible zero in (t0, tf]" % (t_end, gret)))
            else:
                fails.append(("event-time-off:" + drv, "reported t=%.17g, first admissible zero at %.17g, |diff|=%.3g > tolerance %.3g (xtol=%.1e gtol=%.1e h=%.3g)"
                              % (t_end, exp_main[0], abs(t_end - exp_main[0]), exp_main[2], xtol, gtol, h)))
        # on-trajectory and residual checks apply to whatever was reported
        err = float(np.hypot(*(x_end - fl.x(t_end))))
        if err <= Ey:
            _USED["state"] = max(_USED["state"], err / Ey)
        if matched is not None:
            _USED["time"] = max(_USED["time"], abs(t_end - matched[0]) / matched[2])
        if err > Ey:
            fails.append(("event-state-off-trajectory:" + drv, "reported state deviates %.3g from the exact flow at the reported time (allowed %.3g = 4*%.3g + %.3g + %.3g); h=%.3g"
                          % (err, Ey, emeas, interp, rnd, h)))
        if matched is not None:
            gret = float(evfn(t_end, y_end.copy()))
            gallow = gtol + 2.0 * sc["L1"] * xtol + 64.0 * EPS * sc["Gabs"]
            if abs(gret) <= gallow:
                _USED["residual"] = max(_USED["residual"], abs(gret) / gallow)
            if abs(gret) > gallow:
                fails.append(("event-residual:" + drv, "|g| at the reported event = %.3g > gtol + 2 sup|dg/dt| xtol + rounding = %.3g" % (abs(gret), gallow)))
    for b, msg in fails:
        ctx.fail(b, case, msg)
    tol = 0.0
    if not ended:
        tol = max([r[2] for r in roots if abs(t_end - r[0]) <= r[2]], default=math.inf)
    return {"ok": not fails, "ended": ended, "t_end": t_end, "tol": tol, "near_tf": bool(near), "tf": tf}


def _generic_twin(case):
    """The same initial-value problem and event, expressed through the generic (rhs-closure) template."""
    A, B, C = HAM_MENU[case["hidx"]]
    g = {k: v for k, v in case.items() if k not in ("hidx", "twin")}
    g.update(ham=False, M=[C, B, -A, -C], u=[0.0, 0.0])
    return g


def evaluate_top(case, ctx):
    r = evaluate(case, ctx)
    if not (case.get("twin") and case["ham"] and case["fam"] != "sympl"):
        return
    r2 = evaluate(_generic_twin(case), ctx)
    if not r or not r2 or not r["ok"] or not r2["ok"]:
        return
    ctx.extra["twin_pairs"] = ctx.extra.get("twin_pairs", 0) + 1
    if r["ended"] != r2["ended"]:
        if not (r["near_tf"] or r2["near_tf"]):
            ctx.fail("hamiltonian-generic-twins-disagree:" + case["fam"], case,
                     "Hamiltonian driver %s, generic driver %s on the same problem" % (
                         "ran to tf" if r["ended"] else "reported t=%.17g" % r["t_end"],
                         "ran to tf" if r2["ended"] else "reported t=%.17g" % r2["t_end"]))
    elif not r["ended"] and abs(r["t_end"] - r2["t_end"]) > r["tol"] + r2["tol"]:
        ctx.fail("hamiltonian-generic-twins-disagree:" + case["fam"], case,
                 "event times %.17g (Hamiltonian) vs %.17g (generic) differ by more than both location tolerances %.3g + %.3g"
                 % (r["t_end"], r2["t_end"], r["tol"], r2["tol"]))


def replay(ctx, payload):
    evaluate_top(payload, ctx)


# ---------------------------------------------------------------------------
# generators
# ---------------------------------------------------------------------------
def _rot(beta):
    c, s = math.cos(beta), math.sin(beta)
    return np.array([[c, -s], [s, c]])


_t0s = st.sampled_from([0.0, 0.0, 0.0, 1.5, -2.25, 10.0])
_tol = st.floats(-13.0, -6.0).map(lambda p: float(10.0 ** p))
_dirs = st.sampled_from([-1, 0, 1, 1, -1])


@st.composite
def _event_for(draw, fl, span, ham, allow_modes):
    """Build an event anchored on the exact trajectory (so that crossings exist by construction)."""
    mode = draw(st.sampled_from(allow_modes))
    kind = draw(st.sampled_from([0, 0, 1]))
    s = 0.0 if mode in ("start_on", "start_near") else draw(st.floats(0.03, 1.3))
    tc = fl.t0 + s * span
    xa = fl.x(tc) if s > 0.0 else fl.x0.copy()
    va = fl.M @ xa + fl.u
    sp = float(np.hypot(*va))
    if not (sp > 0.0):
        va = np.array([1.0, 0.0]); sp = 1.0
    vhat = va / sp
    vfrac = draw(st.sampled_from([0.0, 0.0, 0.0, 0.5, -0.5, 1.5]))
    rho = draw(st.sampled_from([1.0, 1.0, 0.25, 8.0]))
    if mode == "miss":
        xa = fl.c + draw(st.sampled_from([1.6, 2.5])) * (xa - fl.c) + (0.0 if fl.d.any() else 1.0)
    if ham and kind == 0 and vfrac != 0.0:
        # time-dependent plane of the Hamiltonian template has its normal along q
        if abs(vhat[0]) < 0.3 and fl.D < 0.0 and s > 0.0:
            tc = tc + 0.5 * math.pi / math.sqrt(-fl.D)      # a quarter period later the motion is mostly along q
            xa = fl.x(tc); va = fl.M @ xa + fl.u; sp = float(np.hypot(*va)) or 1.0; vhat = va / sp
        n = np.array([rho * (1.0 if draw(st.booleans()) else -1.0), 0.0])
        v = -vfrac * float(n @ va)
        c = float(n[0] * xa[0] + n[1] * xa[1]) - v * tc
        e = [float(n[0]), 0.0, c, float(v)]
        kind_out = 0
    elif kind == 0:
        beta = draw(st.floats(-1.2, 1.2))
        n = rho * (_rot(beta) @ vhat) * (1.0 if draw(st.booleans()) else -1.0)
        v = -vfrac * float(n @ va)
        c = float(n[0] * xa[0] + n[1] * xa[1]) - v * tc
        e = [float(n[0]), float(n[1]), c, float(v)]
        kind_out = 0
    else:
        beta = draw(st.floats(-1.2, 1.2))
        R = draw(st.floats(0.3, 2.0)) * max(0.2, float(np.hypot(*fl.d)) if fl.d.any() else 1.0)
        nrm = (_rot(beta) @ vhat) * (1.0 if draw(st.booleans()) else -1.0)
        a = xa - R * nrm
        v = 0.0 if ham else -vfrac * float(2.0 * R * (nrm @ va))
        dx = xa[0] - a[0]; dy = xa[1] - a[1]
        c = float(dx * dx + dy * dy) - v * tc
        e = [float(a[0]), float(a[1]), c, float(v)]
        kind_out = 1
    if mode == "start_near":
        gs = (rho * float(np.hypot(*(fl.x0 - fl.c))) if kind_out == 0 else abs(e[2])) or 1.0
        eps = draw(st.floats(-14.0, -7.0).map(lambda p: 10.0 ** p)) * gs * (1.0 if draw(st.booleans()) else -1.0)
        c2 = e[2] + eps
        if c2 == e[2]:
            c2 = float(np.nextafter(e[2], math.inf if eps > 0 else -math.inf))
        e[2] = c2
    return kind_out, e, mode


@st.composite
def gen_case(draw, fam, ham):
    case = {"fam": fam, "ham": bool(ham)}
    if ham and fam != "sympl":
        case["twin"] = draw(st.integers(0, 2)) == 0
    if fam == "fixed":
        case["order"] = draw(st.sampled_from([4, 6, 8]))
    elif fam == "sympl":
        case["order"] = draw(st.sampled_from([2, 4, 6, 8, 2, 4]))
    else:
        case["order"] = 5 if fam == "rk45" else 8
        case["rtol"] = draw(st.floats(-13.0, -7.0).map(lambda p: float(10.0 ** p)))
        case["atol"] = case["rtol"] * draw(st.sampled_from([1.0, 1.0, 1e-2, 10.0]))
    case["dir"] = draw(_dirs)
    case["xtol"] = draw(_tol)
    case["gtol"] = draw(_tol)
    t0 = draw(_t0s)
    case["t0"] = t0
    grid_ok = fam in ("fixed", "sympl")
    if ham:
        scn = draw(st.sampled_from(["ham0", "ham1", "ham2", "ham3"] + (["onnode"] if grid_ok else [])))
    else:
        scn = draw(st.sampled_from(["rot", "rot", "spiral", "ellip", "saddle", "uniform"] + (["onnode", "onnode"] if grid_ok else [])))
    case["scn"] = scn

    if scn == "onnode":
        # uniform motion / free particle with dyadic data: the crossing falls exactly on grid node j
        k = draw(st.integers(2, 6)); h = 2.0 ** -k
        n = draw(st.integers(4, 40)); j = draw(st.integers(1, n))
        x1 = draw(st.integers(-16, 16)) / 8.0
        u1 = draw(st.integers(1, 12)) / 4.0 * (1.0 if draw(st.booleans()) else -1.0)
        v = draw(st.sampled_from([0.0, 0.0, 0.5, -0.25]))
        nq = 1.0 if draw(st.booleans()) else -1.0
        if v == nq * u1:
            v = 0.0
        t0 = draw(st.sampled_from([0.0, 0.0, 1.5, -2.25]))
        case["t0"] = t0
        tj = t0 + j * h
        c = nq * (x1 + u1 * (j * h)) - v * tj          # exact in binary floating point
        off = draw(st.sampled_from([0, 0, 0, 1, -1]))
        if off:
            c = float(np.nextafter(c, math.inf if off > 0 else -math.inf))
        case.update(ek=0, e=[nq, 0.0, float(c), float(v)], grid={"h": h, "n": n}, span=n * h, hreq=h)
        if ham:
            case.update(hidx=3, x0=[x1, u1])
        else:
            x2 = draw(st.integers(-8, 8)) / 8.0
            u2 = draw(st.integers(-8, 8)) / 8.0
            case.update(M=[0.0, 0.0, 0.0, 0.0], u=[u1, u2], x0=[x1, x2])
        return case

    if ham:
        hidx = int(scn[3])
        case["hidx"] = hidx
        A, B, C = HAM_MENU[hidx]
        M = np.array([[C, B], [-A, -C]])
        u = np.zeros(2)
        r = draw(st.floats(0.2, 3.0)); ph = draw(st.floats(0.0, 2.0 * math.pi))
        x0 = np.array([r * math.cos(ph), r * math.sin(ph)])
        if hidx == 3 and abs(x0[1]) < 0.1:
            x0[1] = 0.5
        rad = draw(st.floats(0.5, 10.0 if fam == "sympl" else 20.0))
    else:
        ctr = np.array(draw(st.sampled_from([(0.0, 0.0), (0.0, 0.0), (0.5, -0.25), (-1.0, 2.0)])))
        if scn in ("rot", "spiral"):
            om = draw(st.one_of(st.sampled_from([0.5, 1.0, 2.0]), st.floats(0.3, 4.0))) * (1.0 if draw(st.booleans()) else -1.0)
            a = 0.0 if scn == "rot" else abs(om) * draw(st.sampled_from([-0.2, -0.05, 0.05, 0.15]))
            M = np.array([[a, -om], [om, a]])
            rad = draw(st.floats(0.5, 20.0))
        elif scn == "ellip":
            A = draw(st.floats(0.3, 4.0)); B = draw(st.floats(0.3, 4.0))
            C = draw(st.floats(-0.8, 0.8)) * math.sqrt(A * B)
            al = draw(st.sampled_from([0.0, 0.0, 0.05, -0.05])) * math.sqrt(A * B - C * C)
            M = np.array([[C + al, B], [-A, -C + al]])
            rad = draw(st.floats(0.5, 20.0))
        elif scn == "saddle":
            lam = draw(st.floats(0.2, 1.5)); mu = draw(st.floats(0.2, 1.5))
            th1 = draw(st.floats(0.0, math.pi)); th2 = th1 + draw(st.floats(math.pi / 6, 5 * math.pi / 6))
            Vv = np.array([[math.cos(th1), math.cos(th2)], [math.sin(th1), math.sin(th2)]])
            M = Vv @ np.diag([lam, -mu]) @ np.linalg.inv(Vv)
            rad = draw(st.floats(0.5, 4.0))
        else:  # uniform
            M = np.zeros((2, 2))
            rad = None
        if scn == "uniform":
            u = np.array([draw(st.integers(-12, 12)) / 8.0, draw(st.integers(-12, 12)) / 8.0])
            if not u.any():
                u[0] = 0.5
            x0 = np.array([draw(st.integers(-16, 16)) / 8.0, draw(st.integers(-16, 16)) / 8.0])
        else:
            u = -(M @ ctr)
            r = draw(st.floats(0.2, 3.0)); ph = draw(st.floats(0.0, 2.0 * math.pi))
            x0 = ctr + np.array([r * math.cos(ph), r * math.sin(ph)])
        case.update(M=[float(v) for v in M.ravel()], u=[float(v) for v in u])
    case["x0"] = [float(x0[0]), float(x0[1])]
    nu = float(np.linalg.norm(M, 2))
    if rad is None:
        span = draw(st.floats(0.5, 8.0))
        hreq = span / draw(st.integers(3, 400))
    else:
        span = rad / nu
        lo, hi = (-2.7, -1.5) if fam == "sympl" else (-2.3, -0.35)
        hreq = 10.0 ** draw(st.floats(lo, hi)) / nu
        hreq = max(hreq, span / 3000.0)
    case["span"] = float(span)
    case["hreq"] = float(hreq)
    if fam in ("fixed", "sympl") and draw(st.integers(0, 3)) == 0:
        case["jitter"] = draw(st.integers(1, 50))
    fl = Flow(M, u, x0, t0)
    ek, e, mode = draw(_event_for(fl, span, ham, ["through", "through", "through", "start_on", "start_near", "miss"]))
    case["ek"] = ek
    case["e"] = e
    case["mode"] = mode
    return case


# ---------------------------------------------------------------------------
# harness self-test (oracle only; HarnessError on failure)
# ---------------------------------------------------------------------------
def _selftest():
    from scipy.linalg import expm
    for M, u in (([[0.1, -2.0], [2.0, 0.1]], [0.3, -0.2]), ([[0.5, 1.0], [-4.0, -0.5]], [0.0, 0.0]),
                 ([[0.7, 0.4], [0.3, -0.9]], [1.0, 2.0]), ([[0.0, 1.0], [0.0, 0.0]], [0.0, 0.0]), ([[0.0, 0.0], [0.0, 0.0]], [0.5, -1.0])):
        fl = Flow(M, u, [0.7, -0.4], 1.5)
        Aug = np.zeros((3, 3)); Aug[:2, :2] = M; Aug[:2, 2] = u
        for t in (1.5, 2.0, 4.25):
            ref = (expm(Aug * (t - 1.5)) @ np.array([0.7, -0.4, 1.0]))[:2]
            if float(np.hypot(*(fl.x(t) - ref))) > 1e-12 * (1.0 + float(np.hypot(*ref))):
                raise HarnessError("closed-form flow disagrees with expm for M=%r u=%r t=%r" % (M, u, t))
    # zeros of cos(t) - c: closed form
    fl = Flow([[0.0, -1.0], [1.0, 0.0]], [0.0, 0.0], [1.0, 0.0], 0.0)
    ev = Ev(0, [1.0, 0.0, -0.5, 0.0])
    sc = _scan(fl, ev, 1.5, 0.0, 11.0)
    want = [2 * math.pi / 3, 4 * math.pi / 3, 8 * math.pi / 3, 10 * math.pi / 3]
    got = [r for r in sc["roots"] if r[0] <= 11.0]
    if len(got) != 4 or any(abs(g[0] - w) > 1e-13 for g, w in zip(got, want)) or [g[1] for g in got] != [-1, 1, -1, 1]:
        raise HarnessError("root scan self-test failed: %r" % (got,))
    # grazing event must cut the span: cos(t) - 0.999 has near-tangent zeros around t = pi when started at angle pi
    fl2 = Flow([[0.0, -1.0], [1.0, 0.0]], [0.0, 0.0], [-1.0, 0.0], 0.0)
    ev2 = Ev(0, [1.0, 0.0, 0.999, 0.0])
    sc2 = _scan(fl2, ev2, -1.999, 0.0, 10.0)
    if sc2["roots"] or not (sc2["tcap"] < math.pi - 0.04):
        raise HarnessError("grazing zeros were not excluded by the certified scan")


# ---------------------------------------------------------------------------
def run(ctx):
    _selftest()
    fams = FAMS[ctx.shard::ctx.nshards] if ctx.nshards < len(FAMS) else [FAMS[ctx.shard % len(FAMS)]]
    nsh_per_fam = max(1, ctx.nshards // len(FAMS))
    total = ctx.scale(2000, 60000)
    per_fam = total // len(FAMS)
    for fam in fams:
        n_fam = max(8, per_fam // nsh_per_fam)
        if fam == "sympl":
            explore(ctx, "sympl-ham", gen_case("sympl", True), evaluate_top, max(8, n_fam // 3))
        else:
            explore(ctx, fam + "-gen", gen_case(fam, False), evaluate_top, n_fam * 3 // 5)
            explore(ctx, fam + "-ham", gen_case(fam, True), evaluate_top, n_fam * 2 // 5)
    ctx.extra["max_used_fraction_of_tolerance"] = [dict(_USED, shard=ctx.shard)]
    deg = ctx.extra.get("degenerate", 0) + ctx.extra.get("too_inaccurate", 0)
    if deg > 0.25 * max(1, ctx.evaluations + deg):
        raise HarnessError("generator unhealthy: %d of %d cases degenerate (%r)" % (deg, ctx.evaluations + deg, ctx.extra.get("degenerate_kinds")))
