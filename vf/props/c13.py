"""C13 — continuation produces valid members, respects bounds and reports what happened.

(A) fault enumeration on the REAL predictor-corrector backend
    `_PredictorCorrectorContinuationBackend.run(request=ContinuationBackendRequest(...))`.
    The request is built by the real options / config / interface code
    (`OrbitContinuationOptions`, `OrbitContinuationConfig`,
    `_OrbitContinuationInterface.create_problem/to_backend_inputs`), the steppers
    are the real natural / secant factories (secant with
    `_VectorSpaceSecantSupport`), only the corrector is replaced by a *scripted*
    one whose k-th call accepts / rejects / raises as dictated by an outcome
    string.  Every corrector call is logged (prediction, outcome, returned
    member) and the log + response are compared with a small reference model of
    the loop written from the property statement (pure Python floats).
    Outcome strings over {a, r, x} are enumerated exhaustively up to length L
    (tree enumeration by consumed prefix: a script whose run never asked for
    more outcomes than it contains stands for all its extensions; the number of
    length-L strings represented is checked to be exactly 3^L per config) over a
    grid of configurations; Hypothesis adds longer scripts, float step vectors,
    float bounds, 1..3 continuation parameters.

    Known on the pinned tree: bucket `continues-past-target` (pc.py: the target test only
    leaves the retry loop, generation goes on up to max_members) - see replays/C13/reg-*.

(B) end-to-end: `orbit.generate(options)` for Earth-Moon L1/L2 families; every
    member is propagated over ITS OWN period with SciPy DOP853 on the oracle's
    own CR3BP field (vf.oracle.cr3bp) and must close up to a bound that scales
    with the oracle's own monodromy norm.
"""
from __future__ import annotations

import json
import math
import zlib

import numpy as np
from hypothesis import strategies as st

from ..hyp import explore
from ..runner import HarnessError

PROPERTY = "C13"
LEVEL = "fault_enumeration"
SHARDS = {"quick": 12, "thorough": 16}
NUMBA_THREADS = {"quick": 1, "thorough": 1}
RULE = ("(A) cases = (configuration, corrector outcome script) pairs run through the real backend; scripts over "
        "{accept,reject,raise} enumerated exhaustively up to length 7 (quick) / 9 (thorough) per configuration of a grid "
        "(stepper x 1-D/2-D parameter x step sign/magnitude incl. |step|=step_min and =step_max x target kind x shrink policy "
        "x corrector drift x max_members 1..6 x max_retries 0..3) plus Hypothesis-drawn scripts up to length 60 with float "
        "steps/bounds; non-trivial = the consumed part of the script contains a failed correction followed by an accept, OR a "
        "generated member leaves the target before max_members is reached, OR a secant prediction was made through two members "
        "of which at least one was generated (>=3 members); distinct by (configuration, consumed outcome prefix). "
        "(B) cases = members of families generated end-to-end by orbit.generate; every generated (non-seed) member is non-trivial; "
        "distinct by (family, index)")
ASSUMPTIONS = [
    "configurations are those OrbitContinuationOptions accepts: 0 < step_min < step_max and step_min <= |step_i| <= step_max",
    "the seed counts as a member (family size and accepted_count include it, as the backend and ContinuationResult document: 'number of accepted solutions'); the seed itself is never tested against the target interval (a run that refuses to start from a seed outside the target is also accepted)",
    "the target interval is closed: a member exactly on target_min/target_max has not left it",
    "the step changes only after a failed correction (no growth after an accept), new step = sign(step)*clip(|policy(step)|, step_min, step_max) with the documented default policy step/2",
    "'gives up after the configured number of retries' = max_retries_per_step+1 consecutive failed corrections at one member end the run",
    "a shrink policy that returns a larger step is the caller's choice; for such policies only new step = clamp(policy(step)) is asserted",
    "info['iterations'] counts corrector calls (one predict-correct iteration each); info['final_step'] (if reported) obeys the same magnitude bounds and sign",
    "(B) closure bound = 100 * ||M|| * (corrector tol + 1e-11 integration error) with M the oracle's own monodromy matrix",
]

EPS = 2.0 ** -52
NT_CAP = 150_000


class _Runaway(BaseException):
    """Raised by the scripted corrector when the backend keeps calling far beyond
    any admissible number of calls (escapes the backend's `except Exception`)."""


# =====================================================================================
#                                   library access
# =====================================================================================
_lib = None


def _libs():
    global _lib
    if _lib is None:
        import logging
        logging.disable(logging.CRITICAL)
        from hiten.algorithms.continuation.backends.pc import _PredictorCorrectorContinuationBackend as BE
        from hiten.algorithms.continuation.config import OrbitContinuationConfig as CFG
        from hiten.algorithms.continuation.interfaces import _OrbitContinuationInterface as INTF
        from hiten.algorithms.continuation.options import OrbitContinuationOptions as OPT
        from hiten.algorithms.continuation.stepping import make_natural_stepper, make_secant_stepper
        from hiten.algorithms.continuation.stepping.support import _NullStepSupport, _VectorSpaceSecantSupport
        _lib = dict(BE=BE, CFG=CFG, INTF=INTF, OPT=OPT, nat=make_natural_stepper, sec=make_secant_stepper,
                    null=_NullStepSupport, vss=_VectorSpaceSecantSupport)
    return _lib


def _policy_callable(pol):
    if pol is None:
        return None
    f = float(pol["factor"])
    return lambda v: v * f


def _build(cfg):
    """Backend + request for a configuration, through the real options/config/interface path."""
    L = _libs()
    m = len(cfg["idx"])
    tgt = cfg["target"]
    if cfg.get("flat_target") and m == 1:
        tgt = [tgt[0][0], tgt[1][0]]
    step = cfg["step"]
    step = step[0] if cfg.get("scalar_step") and len(step) == 1 else tuple(step)
    try:
        opts = L["OPT"](target=tgt, step=step, max_members=int(cfg["max_members"]),
                        max_retries_per_step=int(cfg["max_retries"]), step_min=float(cfg["step_min"]),
                        step_max=float(cfg["step_max"]), shrink_policy=_policy_callable(cfg.get("policy")))
        conf = L["CFG"](state=tuple(int(i) for i in cfg["idx"]), stepper=cfg["stepper"])
        intf = L["INTF"]()
        problem = intf.create_problem(domain_obj=np.array(cfg["seed"], dtype=float), config=conf, options=opts)
        req = intf.to_backend_inputs(problem).request
    except Exception as e:
        raise HarnessError("library refused a configuration of the documented domain: %r (%r)" % (e, cfg))
    if cfg["stepper"] == "secant":
        be = L["BE"](stepper_factory=L["sec"](), support_factory=L["vss"])
    else:
        be = L["BE"](stepper_factory=L["nat"](), support_factory=L["null"])
    return be, req


class _Scripted:
    """Corrector whose k-th call does what script[k] says (pad after the end)."""

    def __init__(self, cfg, script, limit):
        self.script = script
        self.pad = cfg.get("pad", "a")
        self.idx = cfg["idx"]
        c = cfg["corr"]
        self.free = c["free"]
        self.delta = float(c["delta"])
        self.pdrift = [float(v) for v in c["pdrift"]]
        self.log = []
        self.limit = limit

    def __call__(self, prediction):
        k = len(self.log)
        if k >= self.limit:
            raise _Runaway()
        o = self.script[k] if k < len(self.script) else self.pad
        p = np.array(prediction, dtype=float, copy=True)
        if o == "a":
            member = p.copy()
            if self.free is not None:
                member[self.free] += self.delta * (1 + k % 3)
            for i, j in enumerate(self.idx):
                member[j] += self.pdrift[i]
            self.log.append((p.tolist(), "a", member.tolist()))
            if k % 2 == 0:
                return member, abs(self.delta), True, {"period": 1.0 + k}
            return member, abs(self.delta), True
        self.log.append((p.tolist(), o, None))
        if o == "r":
            return p + 100.0, 1.0, False, {"period": float("nan")}
        raise RuntimeError("scripted corrector failure at call %d" % k)


def _call_limit(cfg):
    return 4 * (int(cfg["max_members"]) + 1) * (int(cfg["max_retries"]) + 2) + 16


def execute(cfg, script, built=None):
    be, req = built if built is not None else _build(cfg)
    corr = _Scripted(cfg, script, _call_limit(cfg))
    req.corrector = corr
    err = None
    resp = None
    try:
        resp = be.run(request=req)
    except _Runaway:
        err = "runaway"
    except Exception as e:  # a well-formed request must be handled
        err = "%s: %s" % (type(e).__name__, e)
    return corr.log, resp, err


# =====================================================================================
#                    reference model of the loop (from the statement)
# =====================================================================================
def _m_step0(cfg):
    m = len(cfg["idx"])
    s = [float(v) for v in cfg["step"]]
    return s * m if len(s) == 1 and m > 1 else s


def _m_target(cfg):
    a, b = cfg["target"]
    lo = [min(float(x), float(y)) for x, y in zip(a, b)]
    hi = [max(float(x), float(y)) for x, y in zip(a, b)]
    return lo, hi


def _m_shrink(step, cfg):
    pol = cfg.get("policy")
    f = 0.5 if pol is None else float(pol["factor"])
    smin, smax = float(cfg["step_min"]), float(cfg["step_max"])
    out = []
    for s in step:
        v = s * f
        out.append(math.copysign(min(max(abs(v), smin), smax), s))
    return out


def _norm(v):
    return math.sqrt(math.fsum(x * x for x in v))


def _outside(member, idx, lo, hi):
    return any(member[j] < lo[i] or member[j] > hi[i] for i, j in enumerate(idx))


def analyse(cfg, log, resp, err):
    """Compare what the backend did with the reference model.

    Returns (fails, facts): fails = [(bucket, msg)], facts = dict for coverage."""
    fails = []
    idx = [int(i) for i in cfg["idx"]]
    m = len(idx)
    n = len(cfg["seed"])
    natural = cfg["stepper"] == "natural"
    seed = [float(v) for v in cfg["seed"]]
    lo, hi = _m_target(cfg)
    smin, smax = float(cfg["step_min"]), float(cfg["step_max"])
    maxm, maxr = int(cfg["max_members"]), int(cfg["max_retries"])
    step = _m_step0(cfg)
    sign0 = [math.copysign(1.0, s) for s in step]
    emb = [0.0] * n
    for i, j in enumerate(idx):
        emb[j] = step[i]
    nrm0 = _norm(emb)
    tangent0 = [v / nrm0 for v in emb]

    fam = [seed]
    fails_here = 0
    nfail = sum(1 for (_, o, _m) in log if o != "a")      # failed corrections that occurred (whole log)
    stop = "full" if maxm <= 1 else None
    in_sync = True           # model step == backend step as far as observed
    prev_failed = False
    facts = {"clamp_min": False, "clamp_max": False, "secant_through_members": False, "on_boundary": False,
             "reject_then_accept": False, "degenerate": False}
    seed_out = _outside(seed, idx, lo, hi)
    after = {"target": "continues-past-target", "gaveup": "continues-after-give-up",
             "full": "corrector-called-after-max-members"}

    for k, (pred, outcome, member) in enumerate(log):
        if stop is not None:
            why = {"target": "member %d left the target interval [%r, %r] (parameter %r)" % (
                       len(fam) - 1, lo, hi, [fam[-1][j] for j in idx]),
                   "gaveup": "%d consecutive failed corrections at member %d with max_retries_per_step=%d" % (fails_here, len(fam) - 1, maxr),
                   "full": "family already has max_members=%d members" % maxm}[stop]
            fails.append((after[stop], "corrector call #%d happened although %s" % (k, why)))
            break
        last = fam[-1]
        if in_sync:
            bad = None
            if natural:
                for j in range(n):
                    d = step[idx.index(j)] if j in idx else 0.0
                    if abs(pred[j] - (last[j] + d)) > 4 * EPS * (abs(last[j]) + abs(d)):
                        if j not in idx:
                            bad = ("natural-prediction-moves-other-component",
                                   "component %d of the prediction is %r, last member has %r" % (j, pred[j], last[j]))
                        else:
                            obs = pred[j] - last[j]
                            what = "prediction[%d]-last[%d] = %r, current step %r (call #%d)" % (j, j, obs, d, k)
                            if prev_failed:
                                slack = 8 * EPS * (abs(last[j]) + abs(d))
                                if abs(obs) < smin - slack:
                                    bad = ("step-below-min-after-failure", what + " < step_min=%r" % smin)
                                elif abs(obs) > smax + slack:
                                    bad = ("step-above-max-after-failure", what + " > step_max=%r" % smax)
                                elif obs * d < 0:
                                    bad = ("step-sign-after-failure", what)
                                else:
                                    bad = ("step-size-after-failure", what)
                            else:
                                bad = ("natural-prediction-offset", what)
                        break
            else:
                if len(fam) >= 2:
                    diff = [a - b for a, b in zip(fam[-1], fam[-2])]
                    nd = _norm(diff)
                    if nd == 0.0:
                        facts["degenerate"] = True
                        in_sync = False
                        tan = None
                    else:
                        tan = [v / nd for v in diff]
                        facts["secant_through_members"] = True
                else:
                    tan = tangent0
                if tan is not None:
                    ds = _norm(step)
                    for j in range(n):
                        # the direction is a normalised difference of state vectors: rounding scales with the
                        # magnitude of the whole vector (cancellation in (seed+step)-seed), not of the component
                        if abs(pred[j] - (last[j] + ds * tan[j])) > 32 * EPS * (max(abs(v) for v in last) + ds):
                            off = [a - b for a, b in zip(pred, last)]
                            no = _norm(off)
                            dot = math.fsum(a * b for a, b in zip(off, tan))
                            what = "prediction-last = %r (norm %r), |step| = %r, unit secant %r (call #%d)" % (off, no, ds, tan, k)
                            if no > 0 and dot < -0.5 * no:
                                bad = ("secant-direction-reversed", what)
                            elif no == 0 or _norm([o / no - t for o, t in zip(off, tan)]) > 1e-6 + 64 * EPS * (_norm(last) + ds) / max(no, 1e-300):
                                bad = ("secant-direction", what)
                            elif prev_failed:
                                bad = ("secant-step-size-after-failure", what)
                            else:
                                bad = ("secant-prediction-magnitude", what)
                            break
            if bad:
                fails.append(bad)
                in_sync = False
        if outcome == "a":
            if fails_here > 0:
                facts["reject_then_accept"] = True
            fam.append(member)
            fails_here = 0
            prev_failed = False
            pv = [member[j] for j in idx]
            if any(pv[i] == lo[i] or pv[i] == hi[i] for i in range(m)):
                facts["on_boundary"] = True
            if _outside(member, idx, lo, hi):
                stop = "target"
            elif len(fam) >= maxm:
                stop = "full"
        else:
            fails_here += 1
            prev_failed = True
            new = _m_shrink(step, cfg)
            pol = cfg.get("policy")
            f = 0.5 if pol is None else float(pol["factor"])
            for s, v in zip(step, new):
                if abs(s * f) < smin:
                    facts["clamp_min"] = True
                if abs(s * f) > smax:
                    facts["clamp_max"] = True
            step = new
            if fails_here > maxr:
                stop = "gaveup"
    else:
        if stop is None and err is None:
            if seed_out and not log:
                stop = "seed-outside"      # refusing to start from a seed outside the target is accepted
            elif fails_here > 0:
                fails.append(("gives-up-early", "run ended after %d consecutive failed corrections at member %d, max_retries_per_step=%d allows %d" % (
                    fails_here, len(fam) - 1, maxr, maxr + 1)))
            else:
                fails.append(("stops-without-reason", "run ended with %d members (max_members=%d), last member inside the target, no failed correction pending" % (len(fam), maxm)))

    facts["stop"] = stop
    facts["members"] = len(fam)
    facts["calls"] = len(log)
    facts["crossed_before_max"] = stop == "target" and len(fam) < maxm
    facts["seed_out"] = seed_out

    if err == "runaway":
        fails.append(("runaway-loop", "more than %d corrector calls with max_members=%d, max_retries_per_step=%d" % (_call_limit(cfg), maxm, maxr)))
        return fails, facts
    if err is not None:
        fails.append(("backend-raises:" + err.split(":")[0], err))
        return fails, facts

    # ---- response vs. the events that occurred
    famr = [np.asarray(v, dtype=float).tolist() for v in resp.family_repr]
    info = resp.info
    if len(famr) > maxm:
        fails.append(("family-exceeds-max-members", "family has %d members, max_members=%d" % (len(famr), maxm)))
    accepted = [seed] + [mem for (_, o, mem) in log if o == "a"]
    if famr != accepted:
        fails.append(("family-content", "family is not [seed] + accepted corrector outputs in order: %d members reported, %d accepted" % (len(famr), len(accepted))))
    for i, mem in enumerate(famr[1:-1], start=1):
        if any(b == "continues-past-target" for b, _ in fails):
            break
        if len(mem) == n and _outside(mem, idx, lo, hi):
            fails.append(("continues-past-target", "member %d of %d (parameter %r) lies outside the target [%r, %r] but is not the last member" % (
                i, len(famr), [mem[j] for j in idx], lo, hi)))
            break
    if int(info.get("accepted_count", -1)) != len(famr):
        fails.append(("accepted-count", "accepted_count=%r, family has %d members" % (info.get("accepted_count"), len(famr))))
    nrej_only = sum(1 for (_, o, _m) in log if o == "r")
    rc = int(info.get("rejected_count", -1))
    if rc != nfail:
        if rc == nrej_only:
            fails.append(("rejected-count:raise-not-counted", "rejected_count=%d, failed corrections=%d of which %d raised" % (rc, nfail, nfail - nrej_only)))
        else:
            fails.append(("rejected-count", "rejected_count=%d, failed corrections=%d" % (rc, nfail)))
    if int(info.get("iterations", -1)) != len(log):
        fails.append(("iterations-count", "iterations=%r, corrector calls=%d" % (info.get("iterations"), len(log))))
    pv = [np.asarray(p, dtype=float).ravel().tolist() for p in info.get("parameter_values", ())]
    want = [[mem[j] for j in idx] for mem in famr if len(mem) == n]
    if pv != want:
        fails.append(("parameter-values", "parameter_values %r != parameter components of the family %r" % (pv, want)))
    fs = np.asarray(info.get("final_step"), dtype=float).ravel().tolist() if info.get("final_step") is not None else None
    if fs is None:
        pass
    elif len(fs) != m:
        fails.append(("final-step-shape", "final_step %r for %d continuation parameters" % (fs, m)))
    else:
        for i, v in enumerate(fs):
            if not (smin <= abs(v) <= smax):
                fails.append(("final-step-out-of-bounds", "final_step[%d]=%r outside [step_min=%r, step_max=%r] in magnitude" % (i, v, smin, smax)))
                break
            if math.copysign(1.0, v) != sign0[i]:
                fails.append(("final-step-sign", "final_step[%d]=%r, initial step %r" % (i, v, _m_step0(cfg)[i])))
                break
    return fails, facts


# =====================================================================================
#                               evaluation of one case
# =====================================================================================
def _cfgkey(cfg):
    return json.dumps({k: v for k, v in cfg.items() if k not in ("script",)}, sort_keys=True)


def _classes(cfg, facts, consumed):
    c = ["A:" + cfg["stepper"], "A:m=%d" % len(cfg["idx"]), "A:stop=" + str(facts["stop"])]
    if facts["reject_then_accept"]:
        c.append("A:fail-then-accept")
    if "x" in consumed:
        c.append("A:raise-consumed")
    if facts["clamp_min"]:
        c.append("A:clamped-at-step_min")
    if facts["clamp_max"]:
        c.append("A:clamped-at-step_max")
    if facts["crossed_before_max"]:
        c.append("A:left-target-before-max_members")
    if facts["on_boundary"]:
        c.append("A:member-on-target-boundary")
    if facts["seed_out"]:
        c.append("A:seed-outside-target")
    if facts["secant_through_members"] and facts["members"] >= 3:
        c.append("A:secant>=3-members")
    if facts["degenerate"]:
        c.append("A:secant-degenerate(skipped)")
    return c


def eval_case(cfg, ctx, built=None, key=None, sink=None, done=None):
    """Run one (configuration, script) case.  Returns number of consumed outcomes."""
    script = cfg.get("script", "")
    log, resp, err = done if done is not None else execute(cfg, script, built)
    fails, facts = analyse(cfg, log, resp, err)
    consumed = "".join(o for (_, o, _m) in log)
    nt = facts["reject_then_accept"] or facts["crossed_before_max"] or (facts["secant_through_members"] and facts["members"] >= 3)
    sample = None
    if nt and not ctx.samples and facts["reject_then_accept"] and len(consumed) >= 4:   # one sample per shard
        sample = {"stepper": cfg["stepper"], "idx": cfg["idx"], "step": cfg["step"], "target": cfg["target"],
                  "max_members": cfg["max_members"], "max_retries": cfg["max_retries"], "policy": cfg.get("policy"),
                  "consumed_outcomes": consumed, "stop": facts["stop"], "members": facts["members"],
                  "parameters": [[mem[j] for j in cfg["idx"]] for (_, o, mem) in log if o == "a"],
                  "counters": None if resp is None else {k: resp.info.get(k) for k in ("accepted_count", "rejected_count", "iterations")}}
    if nt:
        ctx.extra["A_nontrivial_cases"] = ctx.extra.get("A_nontrivial_cases", 0) + 1
    # thorough tier: bound the memory of the distinct-key set (the count above stays exact)
    record = nt and (ctx.tier == "quick" or len(ctx.nt_keys) < NT_CAP)
    ctx.case(nontrivial=((key or _cfgkey(cfg)), consumed) if record else None, cls=_classes(cfg, facts, consumed), sample=sample)
    for b, msg in fails:
        payload = dict(cfg)
        payload["script"] = script
        if sink is not None:
            sink(b, payload, msg)
        else:
            ctx.fail(b, payload, msg)
    return len(log)


# =====================================================================================
#                         (A1) exhaustive grid x script tree
# =====================================================================================
S_MIN, S_MAX = 2.0 ** -5, 2.0 ** -2
SEED6 = [0.5, -0.25, 0.25, 0.125, -0.5, 1.0]
STEPS = {1: [[0.125], [-0.125], [0.25], [-0.03125]],
         2: [[0.125, -0.0625], [-0.125, 0.25], [0.25, 0.25], [-0.03125, -0.125]]}
POLICIES = [None, {"factor": 0.25}, {"factor": 3.0}]
TARGET_KINDS = ["wide", "narrow", "edge", "seedout"]


def _target(kind, idx):
    lo, hi = [], []
    for j in idx:
        p0 = SEED6[j]
        if kind == "wide":
            a, b = p0 - 4.0, p0 + 4.0
        elif kind == "narrow":
            a, b = p0 - 0.3, p0 + 0.3
        elif kind == "edge":          # members land exactly on the boundary; passed as (max, min)
            a, b = p0 + 0.25, p0 - 0.25
        else:                          # seed outside the interval
            a, b = p0 + 0.0625, p0 + 4.0
        lo.append(a)
        hi.append(b)
    return [lo, hi]


def grid(tier, full_cross):
    out = []
    n = 0
    for stepper in ("natural", "secant"):
        for idx in ([2], [0, 4]):
            for si, step in enumerate(STEPS[len(idx)]):
                for ti, tk in enumerate(TARGET_KINDS):
                    for mm in range(1, 7):
                        for mr in range(0, 4):
                            if full_cross:
                                combos = [(p, d) for p in range(3) for d in range(2)]
                            else:   # cycle policy / drift through the cross of the other dimensions
                                combos = [((si + ti + mm + mr) % 3, (si + 2 * ti + mm) % 2)]
                            for (pi, di) in combos:
                                drift = [math.copysign(2.0 ** -6, s) for s in step] if di else [0.0] * len(idx)
                                cfg = {"stepper": stepper, "idx": idx, "seed": SEED6, "step": step,
                                       "target": _target(tk, idx), "max_members": mm, "max_retries": mr,
                                       "step_min": S_MIN, "step_max": S_MAX, "policy": POLICIES[pi],
                                       "corr": {"free": 1, "delta": 2.0 ** -7, "pdrift": drift}, "pad": "a",
                                       "flat_target": (n % 2 == 0), "scalar_step": (n % 3 == 0)}
                                if len(idx) == 2 and step[0] == step[1] and n % 2 == 1:
                                    cfg["step"] = [step[0]]       # one step broadcast to both parameters
                                out.append(cfg)
                                n += 1
    return out


def enumerate_config(cfg, L, ctx, sink):
    """All outcome strings of length <= L for one configuration (tree by consumed prefix)."""
    built = _build(cfg)
    key = _cfgkey(cfg)
    covered = 0
    runs = 0
    stack = [""]
    while stack:
        s = stack.pop()
        c = dict(cfg)
        c["script"] = s
        done = execute(c, s, built)
        runs += 1
        used = len(done[0])
        if used < len(s) and done[2] is None:
            raise HarnessError("backend is not deterministic: script %r consumed %d outcomes" % (s, used))
        if len(s) < L and used > len(s) and done[2] != "runaway":
            # the run asked for more outcomes than s contains: its behaviour depends on the continuation
            stack.extend(s + o for o in "xra")
            continue
        eval_case(c, ctx, built=built, key=key, sink=sink, done=done)
        covered += 3 ** (L - len(s))
    if covered != 3 ** L:
        raise HarnessError("script enumeration covered %d of %d strings" % (covered, 3 ** L))
    return runs


class _Best:
    """Keep the smallest failing case per bucket (enumeration has no shrinker)."""

    def __init__(self):
        self.best = {}

    def __call__(self, bucket, payload, msg):
        size = (len(payload["script"]), payload["max_members"], len(payload["idx"]), payload["max_retries"],
                0 if payload.get("policy") is None else 1)
        b = self.best.get(bucket)
        if b is None:
            self.best[bucket] = [size, payload, msg, 1]
        else:
            b[3] += 1
            if size < b[0]:
                b[0], b[1], b[2] = size, payload, msg

    def flush(self, ctx):
        for bucket, (size, payload, msg, count) in sorted(self.best.items()):
            ctx.fail(bucket, payload, msg)
            ctx.verdicts[bucket]["count"] += count - 1


def _a_shards(ctx):
    """(index of this shard among the A shards or None, number of A shards, number of B shards)."""
    nb = 0 if ctx.nshards < 4 else ctx.scale(1, 4)
    na = ctx.nshards - nb
    return (ctx.shard if ctx.shard < na else None), na, nb


def run_enumeration(ctx, me, na):
    L = ctx.scale(7, 9)
    plans = [(L, grid(ctx.tier, full_cross=False))]
    if ctx.tier == "thorough":
        plans.append((7, grid(ctx.tier, full_cross=True)))
    sink = _Best()
    total_runs = 0
    ncfg = 0
    nstr = 0
    for (Lp, cs) in plans:
        # deterministic pseudo-random order so that every shard gets a similar mix of cheap and expensive configurations
        order = sorted(range(len(cs)), key=lambda i: zlib.crc32(_cfgkey(cs[i]).encode()))
        for pos, i in enumerate(order):
            if pos % na != me:
                continue
            total_runs += enumerate_config(cs[i], Lp, ctx, sink)
            ncfg += 1
            nstr += 3 ** Lp
    sink.flush(ctx)
    ctx.exhaustive = True
    ctx.extra["A_enumerated_configurations"] = ncfg
    ctx.extra["A_backend_runs_incl_probes"] = total_runs
    ctx.extra["A_max_script_length_enumerated"] = L if me == 0 else 0
    if me == 0 and ctx.tier != "quick":
        ctx.note("thorough tier: at most %d distinct non-trivial keys are kept per shard (memory); A_nontrivial_cases is the exact number of non-trivial enumerated/drawn cases" % NT_CAP)
    ctx.extra["A_outcome_strings_represented"] = nstr


# =====================================================================================
#                      (A2) Hypothesis: long scripts, float steps
# =====================================================================================
_IDX_SETS = [[2], [0], [4], [5], [0, 4], [2, 1], [5, 3], [0, 2, 4], [3, 1, 5]]


@st.composite
def long_case(draw):
    stepper = draw(st.sampled_from(["natural", "secant"]))
    idx = list(draw(st.sampled_from(_IDX_SETS)))
    m = len(idx)
    free = min(j for j in range(6) if j not in idx)
    smin = draw(st.sampled_from([1e-10, 1e-6, 1e-3, 2.0 ** -5, 0.01]))
    ratio = draw(st.one_of(st.sampled_from([2.0, 8.0, 1e3]), st.floats(1.5, 1e4)))
    smax = smin * ratio
    seed = [draw(st.floats(-2.0, 2.0)) for _ in range(6)]
    step, tlo, thi, drift = [], [], [], []
    wide = draw(st.booleans())
    for i in range(m):
        u = draw(st.one_of(st.sampled_from([0.0, 1.0]), st.floats(0.0, 1.0)))
        mag = min(max(smin * ratio ** u, smin), smax)
        sg = draw(st.sampled_from([1.0, -1.0]))
        step.append(sg * mag)
        ka = draw(st.one_of(st.floats(-1.0, 10.0), st.integers(-1, 6).map(float)))
        kb = draw(st.one_of(st.floats(-1.0, 10.0), st.integers(-1, 6).map(float)))
        if wide:
            ka, kb = 1e6 + ka, 1e6 + kb
        p0 = seed[idx[i]]
        tlo.append(p0 - mag * ka)
        thi.append(p0 + mag * kb)
        drift.append(mag * draw(st.one_of(st.sampled_from([0.0, 0.0, 0.25, -0.25, 0.5]), st.floats(-0.5, 0.5))))
    pol = draw(st.one_of(st.none(), st.sampled_from([0.25, 0.1, 0.9, 0.75, 1e-3, 2.0]).map(lambda f: {"factor": f}),
                         st.floats(0.01, 0.99).map(lambda f: {"factor": f})))
    # outcome script: base-4 digits (a, a, r, x) of one integer -> shrinks towards short all-accept scripts
    ln = draw(st.integers(0, 60))
    code = draw(st.integers(0, 4 ** ln - 1))
    script = "".join("aarx"[(code >> (2 * k)) & 3] for k in range(ln))
    return {"stepper": stepper, "idx": idx, "seed": seed, "step": step, "target": [tlo, thi],
            "max_members": draw(st.integers(1, 30)), "max_retries": draw(st.integers(0, 8)),
            "step_min": smin, "step_max": smax, "policy": pol,
            "corr": {"free": free, "delta": draw(st.floats(-0.1, 0.1)), "pdrift": drift},
            "pad": draw(st.sampled_from("ar")), "flat_target": draw(st.booleans()), "scalar_step": draw(st.booleans()),
            "script": script}


def eval_long(case, ctx):
    eval_case(case, ctx)


# =====================================================================================
#                    (B) end-to-end families, independent periodicity oracle
# =====================================================================================
_EM = ["earth", "moon"]


def e2e_cases(tier):
    halo_s = {"system": _EM, "point": 1, "family": "halo", "args": {"amplitude_z": 0.2, "zenith": "southern"}}
    base = {"kind": "e2e", "max_retries": 3, "step_min": 1e-6, "step_max": 0.1, "tol": 1e-12}
    out = [
        # secant in z (the halo default), target never reached: max_members decides
        dict(base, **halo_s, stepper="secant", state=[2], step=[0.004], target_rel=[[-1.0], [1.0]], max_members=4),
        # natural in z, downwards; the second generated member leaves the target: 3 members expected
        dict(base, **halo_s, stepper="natural", state=[2], step=[-0.003], target_rel=[[-0.005], [1.0]], max_members=5),
        # step too large for the corrector: failed corrections, halving, then accepts (retry bookkeeping end-to-end)
        dict(base, **halo_s, stepper="natural", state=[2], step=[0.06], target_rel=[[-1.0], [1.0]], max_members=4, step_max=0.5),
    ]
    if tier != "thorough":
        return out
    for stepper in ("natural", "secant"):
        for stp in (0.03, -0.06, 0.12, 0.25):      # 0.12 / 0.25: all retries fail -> give-up with the seed only
            out.append(dict(base, **halo_s, stepper=stepper, state=[2], step=[stp], target_rel=[[-1.0], [1.0]], max_members=4, step_max=0.5))
    for point in (1, 2):
        for fam, args_list in (("halo", [{"amplitude_z": a, "zenith": z} for a in (0.1, 0.2, 0.3) for z in ("southern", "northern")]),
                               ("lyapunov", [{"amplitude_x": a} for a in (0.02, 0.05)])):
            for ai, args in enumerate(args_list):
                for si, stepper in enumerate(("secant", "natural")):
                    sgn = 1.0 if (ai + si + point) % 2 == 0 else -1.0
                    if fam == "halo":
                        state, mag = [2], (0.002 if ai % 2 else 0.004)
                    else:
                        state, mag = [0], 0.001
                    crossing = (ai + point) % 2 == 0
                    trel = [[-2.5 * mag], [2.5 * mag]] if crossing else [[-1.0], [1.0]]
                    out.append(dict(base, system=_EM, point=point, family=fam, args=args, stepper=stepper, state=state,
                                    step=[sgn * mag], target_rel=trel, max_members=6 if crossing else 4))
    return out


_sys_cache = {}


def _lp(system, point):
    k = (tuple(system), int(point))
    if k not in _sys_cache:
        from hiten import System
        sysm = System.from_bodies(*system)
        _sys_cache[k] = (sysm, sysm.get_libration_point(int(point)))
    return _sys_cache[k]


def eval_e2e(case, ctx):
    _libs()
    from hiten.algorithms.continuation.config import OrbitContinuationConfig
    from hiten.algorithms.continuation.options import OrbitContinuationOptions
    from hiten.system.family import OrbitFamily
    from ..oracle import cr3bp
    tag = "%s-L%d-%s-%s" % ("".join(w[0] for w in case["system"]), case["point"], case["family"], case["stepper"])
    sysm, lp = _lp(case["system"], case["point"])
    mu = float(sysm.mu)
    try:
        orbit = lp.create_orbit(case["family"], **case["args"])
        orbit.correct()
        x_seed = np.asarray(orbit.initial_state, dtype=float).copy()
        T_seed = float(orbit.period)
    except Exception:
        ctx.case(cls="B:seed-correction-failed(skipped)")
        return
    state = [int(i) for i in case["state"]]
    p0 = [float(x_seed[j]) for j in state]
    lo = [p0[i] + min(case["target_rel"][0][i], case["target_rel"][1][i]) for i in range(len(state))]
    hi = [p0[i] + max(case["target_rel"][0][i], case["target_rel"][1][i]) for i in range(len(state))]
    maxm = int(case["max_members"])
    tol = float(case["tol"])
    fails = []
    try:
        orbit.continuation_config = OrbitContinuationConfig(state=tuple(state), stepper=case["stepper"])
        opts = OrbitContinuationOptions(target=(lo, hi), step=tuple(case["step"]), max_members=maxm,
                                        max_retries_per_step=int(case["max_retries"]), step_min=float(case["step_min"]),
                                        step_max=float(case["step_max"]), extra_params=orbit.correction_options)
        if abs(float(opts.extra_params.tol) - tol) > 0:
            tol = float(opts.extra_params.tol)
        res = orbit.generate(opts)
    except Exception as e:
        ctx.case(cls="B:generate-raised")
        ctx.fail("e2e-generate-raises:" + type(e).__name__, case, repr(e))
        return
    fam = list(res.family)
    nf = len(fam)
    if nf > maxm:
        fails.append(("family-exceeds-max-members", "family has %d members, max_members=%d" % (nf, maxm)))
    if int(res.accepted_count) != nf:
        fails.append(("accepted-count", "accepted_count=%r, family has %d members" % (res.accepted_count, nf)))
    if int(res.iterations) != (int(res.accepted_count) - 1) + int(res.rejected_count):
        fails.append(("counters-inconsistent", "iterations=%r but %d accepted corrections + %d rejected" % (
            res.iterations, int(res.accepted_count) - 1, int(res.rejected_count))))
    states = [np.asarray(o.initial_state, dtype=float) for o in fam]
    pv = [np.asarray(p, dtype=float).ravel().tolist() for p in res.parameter_values]
    want = [[float(x[j]) for j in state] for x in states]
    if pv != want:
        fails.append(("parameter-values", "parameter_values %r != parameter components of the members %r" % (pv, want)))
    for i in range(1, nf - 1):
        if any(want[i][c] < lo[c] or want[i][c] > hi[c] for c in range(len(state))):
            fails.append(("continues-past-target", "end-to-end: member %d of %d (parameter %r) lies outside the target [%r, %r] but is not the last member" % (
                i, nf, want[i], lo, hi)))
            break
    try:
        of = OrbitFamily.from_result(res)
        same = len(of) == nf and all((a is b) or (np.array_equal(np.asarray(a.initial_state), np.asarray(b.initial_state)) and a.period == b.period)
                                     for a, b in zip(of, fam))
        if not same:
            fails.append(("family-from-result", "OrbitFamily.from_result(result) does not contain the members of result.family"))
    except Exception as e:
        fails.append(("family-from-result", "OrbitFamily.from_result raised %r" % (e,)))
    # --- periodicity of every generated member over ITS OWN period (oracle's own field and monodromy)
    xs, Ms = cr3bp.flow_stm(x_seed, T_seed, mu)
    seed_ok = float(np.max(np.abs(xs - x_seed))) <= 100.0 * float(np.linalg.norm(Ms, 2)) * (tol + 1e-11)
    outside_last = nf >= 2 and any(want[-1][c] < lo[c] or want[-1][c] > hi[c] for c in range(len(state)))
    ctx.case(cls=["B:family", "B:" + tag, "B:members=%d" % nf, "B:rejected>0" if res.rejected_count else "B:rejected=0",
                  "B:last-member-outside-target" if outside_last else "B:all-inside-target"] + ([] if seed_ok else ["B:seed-fails-closure(skipped)"]),
             sample={"e2e": tag, "args": case["args"], "step": case["step"], "target": [lo, hi], "members": nf,
                     "parameters": want, "periods": [float(o.period) if o.period is not None else None for o in fam],
                     "counters": [int(res.accepted_count), int(res.rejected_count), int(res.iterations)]})
    if seed_ok:
        for i in range(1, nf):
            T = fam[i].period
            x0 = states[i]
            if T is None or not np.isfinite(float(T)) or float(T) <= 0:
                fails.append(("e2e-member-period-missing", "member %d has period %r" % (i, T)))
                ctx.case(cls="B:member")
                continue
            T = float(T)
            xT, M = cr3bp.flow_stm(x0, T, mu)
            err = float(np.max(np.abs(xT - x0)))
            nM = float(np.linalg.norm(M, 2))
            bound = 100.0 * nM * (tol + 1e-11)
            ctx.case(nontrivial=("B", tag, json.dumps(case["args"], sort_keys=True), case["step"], i), cls="B:member")
            if not (err <= bound):
                if T == T_seed and float(np.max(np.abs(x0 - x_seed))) > 0:
                    fails.append(("e2e-member-carries-seed-period", "member %d (state %r) has exactly the seed's period %r; closure error %.3e > bound %.3e" % (
                        i, x0.tolist(), T, err, bound)))
                else:
                    fails.append(("e2e-member-not-periodic", "member %d (state %r, period %r): |phi_T(x0)-x0| = %.3e > 100*||M||*(tol+1e-11) = %.3e (||M||=%.3e)" % (
                        i, x0.tolist(), T, err, bound, nM)))
    for b, msg in fails:
        ctx.fail(b, case, msg)


def run_e2e(ctx, me, nb):
    from ..oracle import cr3bp
    try:
        cr3bp.selftest()
    except AssertionError as e:
        raise HarnessError("CR3BP oracle self-test failed: %r" % (e,))
    cases = e2e_cases(ctx.tier)
    n = 0
    for pos, c in enumerate(cases):
        if pos % nb == me:
            eval_e2e(c, ctx)
            n += 1
    ctx.extra["B_families"] = n


# =====================================================================================
#                                      driver
# =====================================================================================
def run(ctx):
    me, na, nb = _a_shards(ctx)
    if me is None:
        run_e2e(ctx, ctx.shard - na, nb)
        return
    run_enumeration(ctx, me, na)
    base, rem = divmod(int(ctx.scale(6000, 120000)), na)
    explore(ctx, "long", long_case(), eval_long, base + (1 if me < rem else 0))
    if nb == 0 and me == 0:
        run_e2e(ctx, 0, 1)


def replay(ctx, payload):
    if payload.get("kind") == "e2e":
        eval_e2e(payload, ctx)
    else:
        eval_case(payload, ctx)
