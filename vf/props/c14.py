"""C14 — centre-manifold Poincare maps: on the section, on the energy level, genuine returns, independent of parallelism.

One centre manifold per shard (system x L1|L2 x degree).  Generated problem: energy E := H_cm(generated CM point)
(own evaluation, so that the level set is non-empty), section coordinate, seeding strategy, n_seeds, n_iter,
integrator (fixed 4/6/8 | symplectic 2/4/6), dt (10^[-3,-1.3], bounded below by a work budget), and a list of
partitions (n_workers 1..16, numba threads 1..16, prange chunk size).
Every map is computed with a FRESH CenterManifoldMap object (the service cache key of compute() keeps only the option
*names*, so distinct options on one object would return the first result) and the harness proves that the engine
really ran by recording the seeds it lifted (no seed recorded => HarnessError).

Oracles (own polynomial evaluator on the coefficient data of cm.hamiltonian(N), SciPy DOP853 — vf.oracle.c14_ref):
 (1) section coordinate of every returned state (and seed) == 0.0 exactly; `points` are the labelled plane projection of
     `states`, labels are the documented plane coordinates;
 (2) |H_cm(state) - E| <= n_iter * max_point[ |H_f| D + |H_ff| D^2/2 + |grad H| (herm + integ) ] + seed tolerance, with
     D = 1.25 max|f''| dt^2/8 the derived section offset of the linear-fraction crossing (f'' ~ -W^2 f vanishes at the
     crossing, so D = O(dt^3) in practice), herm the cubic-Hermite remainder and integ the one-step-method allowance
     (formulas in ASSUMPTIONS); evaluated at dt and at dt/2 (envelope form of the halving law: every term of the bound
     shrinks >= 4x; the raw max-error ratio is reported in the evidence, not asserted);
 (3) genuine return: the reference integrates the reduced Hamilton equations from every seed and every returned point
     to the following crossings of the section (both directions, two per direction); the returned points must admit
     an INJECTIVE assignment of predecessors (maximum bipartite matching on the tolerance graph) under ONE direction
     rule — set-wise, because failed seeds are dropped silently;
 (4) partition independence: the lexicographically sorted states of every (n_workers, threads, chunk) run are
     bit-for-bit those of the (1 worker, 1 thread) run (each seed is iterated sequentially by deterministic code).
"""
from __future__ import annotations

import os

# schedule knob owned by the harness: idle OpenMP workers sleep instead of spinning (16 threads per shard on a shared box)
os.environ.setdefault("OMP_WAIT_POLICY", "PASSIVE")

import logging
import math

import numpy as np
from hypothesis import strategies as st

from ..hyp import explore
from ..oracle import c14_ref as R
from ..oracle import polyref as P
from ..runner import HarnessError, shard_replays

PROPERTY = "C14"
LEVEL = "exploration"
SHARDS = {"quick": 4, "thorough": 8}
NUMBA_THREADS = {"quick": 16, "thorough": 16}
REPLAY_IN_RUN = True     # replays need a computed centre manifold (JIT-heavy): run inside the shards
RULE = ("case = (manifold of the shard, energy = H_cm(generated point r*u), section coordinate, seeding strategy, n_seeds, n_iter, "
        "method/order, dt, partitions); every case computes the map at (1 worker, 1 thread), at each partition and at dt/2, "
        "each with a fresh map object; evaluations = maps pushed through the oracles; non-trivial = n_iter >= 2 with at least "
        "one returned point whose matched predecessor is itself a returned point, a reference return computed for every "
        "predecessor, AND at least one compared partition with n_workers >= 2 (>= 2 non-empty chunks); distinct by full input")
ASSUMPTIONS = [
    "harness hooks (observation/schedule only): _CenterManifoldInterface.lift_plane_point is wrapped to RECORD the seeds the engine lifts (they are not part of the returned result); the ThreadPoolExecutor name in centermanifold.engine is replaced by a factory that adds an initializer setting numba.set_num_threads / set_parallel_chunksize in each worker thread (numba's thread count is thread-local, so setting it in the caller would not reach the engine's workers)",
    "max_steps is set to ceil(12/dt) (the default 2000 steps cannot reach a return for dt < ~2e-3); the reference looks for crossings up to the same horizon",
    "direction: q_k sections — documented test p_k > 0 (== x_c increasing up to higher-order terms): a reference crossing is firm if increasing with p_k > 2 dt |p_k'|, optional if the two readings disagree or are within that margin; p_k sections — the code comment says q_k' > 0, which is degenerate on p_k = 0, so a map passes if ALL its points are explained by one of: x_c increasing, x_c decreasing, or any crossing with own q_k' > 0 at the crossing point",
    "a reference crossing is optional (may be skipped by a fixed-step detector) when the phase before or after it is shorter than 3 dt; a returned point whose own f' changes sign within +-dt of it is ill-conditioned and matches anything",
    "position tolerance of a returned point y: 1.25 |x'| max|f''| dt^2 / (8 min|f'|) [linear-fraction time error, extrema over y, y +- dt x'] + 4 W^4 |y| dt^4/384 [Hermite remainder] + (W dt)^p (W T) rho [one-step allowance, unit error constant; p = order for fixed; symplectic: p = 2 for any declared order (known finding C16) plus (W/c)^2 (W T) rho, Tao's T dt^l omega bound with the library's omega = (c dt)^-l, c = c_omega_heuristic = 20 — measured symplectic errors do not decrease with dt] + 1e-9 [reference]; W^2 = max |x''|/|x| over the points, rho = max |x|, T = 1.5 linear periods of the slower mode",
    "energy tolerance: n_iter * max over points of [|H_f| D + |H_ff| D^2/2 + |grad H| (Hermite + one-step allowance)] + |dH/dm| (2e-12 + 8 eps |m|) + 64 eps sum|terms| (seed root: Brent xtol 1e-12); the halving law is asserted in envelope form only (both runs within their own bound), because the leading error is proportional to alpha(1-alpha) of each crossing and the raw max-ratio is not monotone",
    "partition independence is asserted bit-for-bit (polynomial evaluation in the kernels is sequential per seed); it is not asserted for seed_strategy='random' (unseeded numpy Generator: the seeds differ between runs by design)",
    "n_seeds is passed but not asserted (the strategies read it from the config object, which has no such field: always 20 seeds); stale compute() cache across options on one map object is recorded in notes, not asserted (neither is part of the property text)",
    "a fuzzing harness controls worker/thread counts and chunk sizes, not instruction interleavings",
]
logging.disable(logging.CRITICAL)
EPS = R.EPS
IDX4, CONJ, PLANE = R.IDX4, R.CONJ, R.PLANE
HORIZON = 12.0
C_OMEGA = 20.0           # c_omega_heuristic passed to the library (its documented default)
SYSTEMS = {"EM": ("earth", "moon"), "SE": ("sun", "earth")}
RK_STAGES = {4: 4, 6: 7, 8: 13}
SY_STAGES = {2: 5, 4: 15, 6: 45}

# ------------------------------------------------------------------ library access + harness hooks
_LIB = None
_REC = {"on": False, "seeds": []}
_SCHED = {"threads": None, "chunk": 0, "started": 0, "seen": []}


class _L:
    pass


def _init_worker():
    import numba
    if _SCHED["threads"] is not None:
        numba.set_num_threads(int(_SCHED["threads"]))
        numba.set_parallel_chunksize(int(_SCHED["chunk"]))
    _SCHED["started"] += 1
    _SCHED["seen"].append(int(numba.get_num_threads()))


def lib():
    global _LIB
    if _LIB is not None:
        return _LIB
    import concurrent.futures as cf

    import numba
    from hiten import System
    from hiten.algorithms.poincare.centermanifold import engine as ENG
    from hiten.algorithms.poincare.centermanifold import interfaces as INT
    from hiten.algorithms.poincare.centermanifold.config import CenterManifoldMapConfig
    from hiten.algorithms.poincare.centermanifold.options import CenterManifoldMapOptions
    from hiten.algorithms.poincare.core.options import IterationOptions, SeedingOptions
    from hiten.algorithms.types.configs import IntegrationConfig
    from hiten.algorithms.types.options import IntegrationOptions, WorkerOptions
    from hiten.system.maps.center import CenterManifoldMap
    L = _L()
    L.numba = numba
    L.System, L.Map, L.Cfg, L.Opt = System, CenterManifoldMap, CenterManifoldMapConfig, CenterManifoldMapOptions
    L.ItO, L.SeO, L.InC, L.InO, L.WoO = IterationOptions, SeedingOptions, IntegrationConfig, IntegrationOptions, WorkerOptions
    L.maxthreads = int(numba.config.NUMBA_NUM_THREADS)
    # hook 1: record lifted seeds
    orig = INT._CenterManifoldInterface.lift_plane_point
    if not getattr(orig, "_vf_spy", False):
        def spy(self, plane, **kw):
            out = orig(self, plane, **kw)
            if _REC["on"] and out is not None:
                _REC["seeds"].append(tuple(float(v) for v in out))
            return out
        spy._vf_spy = True
        INT._CenterManifoldInterface.lift_plane_point = spy
    # hook 2: thread count / chunk size inside the engine's worker threads
    if not getattr(ENG.ThreadPoolExecutor, "_vf_pool", False):
        real = cf.ThreadPoolExecutor

        def pool(max_workers=None, **kw):
            return real(max_workers=max_workers, initializer=_init_worker, **kw)
        pool._vf_pool = True
        ENG.ThreadPoolExecutor = pool
    _LIB = L
    return L


_MAN = {}


class Man:
    pass


def manifold(man):
    key = (man["sys"], int(man["point"]), int(man["N"]))
    m = _MAN.get(key)
    if m is not None:
        return m
    L = lib()
    if len(_MAN) >= 3:
        _MAN.pop(next(iter(_MAN)))
    sysm = L.System.from_bodies(*SYSTEMS[man["sys"]])
    pt = sysm.get_libration_point(int(man["point"]))
    N = int(man["N"])
    cm = pt.get_center_manifold(degree=N)
    cm.compute()
    h = cm.hamiltonian(N)
    m = Man()
    m.key, m.N, m.cm = key, N, cm
    m.ham = R.CMHam(P.to_dict(h.poly_H, h.dynamics.clmo))
    quad = [m.ham.d4.get(tuple(2 if a == b else 0 for a in range(4)), 0.0) for b in range(4)]
    if min(quad) <= 0:
        raise HarnessError("quadratic part of the reduced Hamiltonian is not a sum of positive squares: %r" % (quad,))
    m.Tret = 1.5 * 2.0 * math.pi / (2.0 * min(quad))        # 1.5 linear periods of the slower mode: allowance for one return
    if m.ham.max_imag > 1e-9 * max(m.ham.cmax, 1e-300):
        raise HarnessError("centre-manifold Hamiltonian has complex coefficients (max |Im| %.3g): property C08/C09 territory" % m.ham.max_imag)
    if m.ham.linear_hyperbolic > 1e-12 * max(m.ham.cmax, 1e-300):
        raise HarnessError("q1 = p1 = 0 is not invariant for the reduced Hamiltonian (term linear in q1|p1: %.3g)" % m.ham.linear_hyperbolic)
    _MAN[key] = m
    return m


# ------------------------------------------------------------------ one library map
def run_map(m, E, case, dt, part):
    """Compute one map with a fresh CenterManifoldMap; returns dict(states, points, labels, seeds, workers_seen) or
    dict(error=...)."""
    L = lib()
    c = case["coord"]
    strat = case["strategy"]
    axis = case.get("axis") if strat == "single" else None
    nw, nt, chunk = int(part[0]), int(part[1]), int(part[2])
    pm = L.Map(m.cm, float(E))
    pm.config = L.Cfg(seed_strategy=strat, seed_axis=axis, section_coord=c, integration=L.InC(method=case["method"]))
    opt = L.Opt(integration=L.InO(dt=float(dt), order=int(case["order"]), max_steps=int(math.ceil(HORIZON / dt)), c_omega_heuristic=C_OMEGA),
                iteration=L.ItO(n_iter=int(case["n_iter"])), seeding=L.SeO(n_seeds=int(case["n_seeds"])),
                workers=L.WoO(n_workers=nw))
    _REC["seeds"] = []
    _REC["on"] = True
    _SCHED.update(threads=max(1, min(nt, L.maxthreads)), chunk=chunk, started=0, seen=[])
    try:
        res = pm.compute(section_coord=c, options=opt)
        out = {"states": np.array(res.states, dtype=float), "points": np.array(res.points, dtype=float),
               "labels": tuple(res.labels), "seeds": np.array(_REC["seeds"], dtype=float).reshape(-1, 4),
               "started": int(_SCHED["started"]), "seen": list(_SCHED["seen"]), "pm": pm, "opt": opt}
    except Exception as e:           # noqa: BLE001 - reported as a verdict by the caller
        out = {"error": "%s: %s" % (type(e).__name__, str(e)[:300]), "etype": type(e).__name__}
    finally:
        _REC["on"] = False
        _SCHED.update(threads=None, chunk=0)
    return out


def lexsorted(S):
    S = np.asarray(S, dtype=float).reshape(-1, 4)
    if not len(S):
        return S
    return S[np.lexsort(S.T[::-1])]


# ------------------------------------------------------------------ oracle for one map
def _p_eff(case):
    return int(case["order"]) if case["method"] == "fixed" else 2


def conditioning(H, Y, c, dt):
    """Per-point quantities at the returned points Y (M,4): dict of arrays."""
    X = Y.T
    f1, f2, sp = H.fdots(X, c)
    F = H.field(X)
    f1s, f2s = [f1], [np.abs(f2)]
    for sgn in (-1.0, 1.0):
        a, b, _ = H.fdots(X + sgn * dt * F, c)
        f1s.append(a)
        f2s.append(np.abs(b))
    f1s = np.array(f1s)
    same = np.all(f1s > 0, axis=0) | np.all(f1s < 0, axis=0)
    m1 = np.where(same, np.min(np.abs(f1s), axis=0), 0.0)
    M2 = np.max(np.array(f2s), axis=0)
    g = H.grad(X)
    Hs = H.hess(X)
    j = IDX4[c]
    # x'' = J Hess x'
    JH = np.array([Hs[1], -Hs[0], Hs[3], -Hs[2]])           # (4,4,M): row a of J*Hess
    acc = np.einsum("abm,bm->am", JH, F)
    r = np.sqrt(np.sum(X * X, axis=0))
    return {"f1": f1, "f2": f2, "speed": sp, "m1": m1, "M2": M2, "Hf": np.abs(g[j]), "Hff": np.abs(Hs[j, j]),
            "gradH": np.sqrt(np.sum(g * g, axis=0)), "acc": np.sqrt(np.sum(acc * acc, axis=0)), "r": r, "F": F}


def tolerances(H, Y, c, dt, case, Tret):
    q = conditioning(H, Y, c, dt)
    r = q["r"]
    rho = float(np.max(r)) if len(r) else 0.0
    W2 = float(np.max(q["acc"] / np.maximum(r, 1e-300))) if len(r) else 0.0
    W = math.sqrt(W2)
    p = _p_eff(case)
    herm = 4.0 * W ** 4 * r * dt ** 4 / 384.0
    integ = (W * dt) ** p * (W * Tret) * rho
    if case["method"] != "fixed":
        # extended-phase-space (Tao) scheme with the library's binding omega = (c dt)^-order: error ~ T dt^l omega ~ T c^-l
        integ += (W / C_OMEGA) ** 2 * (W * Tret) * rho
    D = 1.25 * q["M2"] * dt * dt / 8.0
    with np.errstate(divide="ignore", invalid="ignore"):
        dtime = np.where(q["m1"] > 0, D / q["m1"], np.inf)
    pos = q["speed"] * dtime + herm + integ + 1e-9
    en = q["Hf"] * D + 0.5 * q["Hff"] * D * D + q["gradH"] * (herm + integ)
    q.update(W=W, rho=rho, pos=pos, en=en, D=D, ill=~(q["m1"] > 0))
    return q


def _cand_table(H, X, c, dt):
    """Reference crossings (both directions) from the columns of X: per start point a time-ordered list of dicts and a
    flag telling whether the list is known to be complete up to the horizon."""
    n = X.shape[1]
    per = [[] for _ in range(n)]
    complete = np.ones(n, dtype=bool)
    for d in (+1, -1):
        ref, comp = R.returns(H, X, c, direction=d, horizon=HORIZON + 2 * dt, first=8.0, ncand=2, hs=min(0.005, dt / 2.0))
        complete &= comp
        for i, cands in enumerate(ref):
            for (y, t, tneg, tpos) in cands:
                per[i].append({"y": y, "t": t, "dir": d, "graze": (tneg < 3 * dt) or (tpos < 3 * dt)})
    for lst in per:
        lst.sort(key=lambda z: z["t"])
    return per, complete


def _literal(H, cands_flat, c, dt):
    """Literal direction quantity of the code comments at the crossing points: p_k for q_k sections, q_k' for p_k
    sections, and the margin 2 dt |d/dt of it|."""
    if not cands_flat:
        return np.zeros(0), np.zeros(0)
    Y = np.array([z["y"] for z in cands_flat]).T
    F = H.field(Y)
    if c.startswith("q"):
        k = IDX4[CONJ[c]]
        return Y[k], 2.0 * dt * np.abs(F[k])
    qk = CONJ[c]
    f1, f2, _ = H.fdots(Y, qk)
    return f1, 2.0 * dt * np.abs(f2)


def _allowed(lst, status):
    """Walk time-ordered candidates with a three-valued status (+1 firm, 0 optional, -1 rejected by the rule): the
    images allowed for this predecessor, and whether the walk ran off the table without meeting a firm crossing."""
    out = []
    for z, s in zip(lst, status):
        if s < 0:
            continue
        out.append(z)
        if s > 0:
            return out, False
    return out, True


def _status(name, z):
    if name == "q":            # q_k section: orientation (x_c increasing) and the documented literal test p_k > 0 combined
        if z["dir"] > 0 and z["lit"] > z["mar"] and not z["graze"]:
            return 1
        if z["dir"] < 0 and z["lit"] < -z["mar"]:
            return -1
        return 0
    if name == "inc":
        return -1 if z["dir"] < 0 else (0 if z["graze"] else 1)
    if name == "dec":
        return -1 if z["dir"] > 0 else (0 if z["graze"] else 1)
    # "literal": any crossing with own q_k' > 0 at the crossing point
    if z["lit"] < 0:
        return -1
    return 0 if z["graze"] else 1


def match(H, Y, preds, c, dt, tol, readings):
    """Try every reading in turn.  Returns (ok, reading, diag, per)."""
    from scipy.sparse import csr_matrix
    from scipy.sparse.csgraph import maximum_bipartite_matching
    M = len(Y)
    per, complete = _cand_table(H, preds.T, c, dt)
    flat = [z for lst in per for z in lst]
    lit, mar = _literal(H, flat, c, dt)
    for k, z in enumerate(flat):
        z["lit"], z["mar"] = float(lit[k]), float(mar[k])
    diag = {}
    nseed = len(preds) - M          # predecessor nseed+m is returned point m itself
    for name in readings:
        if name == "literal" and (len(lit) == 0 or float(np.min(np.abs(lit))) <= 1e-9):
            continue                # q_k' vanishes (identically) on the section: the literal rule is not a rule
        adj = np.zeros((M, len(preds)), dtype=bool)
        wild = 0
        for i, lst in enumerate(per):
            allowed, open_end = _allowed(lst, [_status(name, z) for z in lst])
            if open_end and not complete[i]:
                adj[:, i] = True    # the rule may select a crossing beyond the reference table: anything goes
                wild += 1
                continue
            for z in allowed:
                adj[:, i] |= np.max(np.abs(Y - z["y"][None, :]), axis=1) <= tol["pos"]
        adj[tol["ill"], :] = True
        adj[np.arange(M), nseed + np.arange(M)] = False
        mt = maximum_bipartite_matching(csr_matrix(adj), perm_type="column")
        un = np.flatnonzero(mt < 0)
        diag[name] = {"unmatched": un, "adj": adj, "match": mt, "wild": wild}
        if len(un) == 0:
            return True, name, diag, per
    return False, None, diag, per


def check_map(ctx, case, m, E, dt, res, tag, full=True):
    """Oracles (1)-(3) on one computed map.  Returns a summary dict (None if the map could not be judged)."""
    H = m.ham
    c = case["coord"]
    j = IDX4[c]
    S = res["states"]
    seeds = res["seeds"]
    head = "%s L%d N=%d E=%.17g section %s=0 %s %s/%d dt=%.6g n_iter=%d [%s]" % (
        m.key[0], m.key[1], m.N, E, c, case["strategy"], case["method"], case["order"], dt, case["n_iter"], tag)
    if S.ndim != 2 or S.shape[1] != 4 or not np.all(np.isfinite(S)):
        ctx.fail("states:not-a-finite-(n,4)-array", case, "%s: states shape %r finite=%r" % (head, S.shape, bool(np.all(np.isfinite(S)))))
        return None
    if len(seeds) == 0:
        raise HarnessError("no seed was lifted during compute(): the engine did not run (cached result?) — %s" % head)
    M = len(S)
    # ---- (1) on the section, exactly; points/labels consistent with states
    off = np.flatnonzero(S[:, j] != 0.0)
    if len(off):
        ctx.fail("section-coordinate-not-zero:%s" % c, case, "%s: %d of %d returned states have %s != 0, e.g. state %r" % (head, len(off), M, c, S[off[0]].tolist()))
    if np.any(seeds[:, j] != 0.0):
        ctx.fail("seed-not-on-section:%s" % c, case, "%s: lifted seed with %s != 0: %r" % (head, c, seeds[np.flatnonzero(seeds[:, j] != 0.0)[0]].tolist()))
    kind = "planar" if c in ("q2", "p2") else "vertical"
    if tuple(res["labels"]) != PLANE[c]:
        ctx.fail("labels:not-the-plane-coordinates:%s-section" % kind, case, "%s: labels %r, documented plane %r" % (head, res["labels"], PLANE[c]))
    else:
        want = S[:, [IDX4[PLANE[c][0]], IDX4[PLANE[c][1]]]]
        pts = res["points"]
        if pts.shape != want.shape or not np.array_equal(pts, want):
            k = 0
            if pts.shape == want.shape:
                k = int(np.flatnonzero(np.any(pts != want, axis=1))[0])
            ctx.fail("points:not-the-labelled-projection-of-states:%s-section" % kind, case,
                     "%s: result.points (labels %r) != states[:, (%s, %s)]; e.g. point %r for state %r"
                     % (head, res["labels"], PLANE[c][0], PLANE[c][1], pts[k].tolist() if len(pts) else None, S[k].tolist() if M else None))
    if M == 0:
        return {"M": 0, "emax": 0.0, "pairs": 0}
    # ---- tolerances from the conditioning of the returned points
    tol = tolerances(H, S, c, dt, case, m.Tret)
    # ---- (2) energy level
    dH = H.value(S.T) - E
    cj = IDX4[CONJ[c]]
    gs = np.abs(H.grad(seeds.T)[cj])
    seedtol = float(np.max(gs * (2e-12 + 8 * EPS * np.abs(seeds[:, cj])) + 64 * EPS * H.abssum(seeds.T)))
    dHs = np.abs(H.value(seeds.T) - E)
    if np.any(dHs > seedtol):
        k = int(np.argmax(dHs))
        ctx.fail("seed-off-energy-level:%s" % c, case, "%s: |H(seed) - E| = %.3g > %.3g for lifted seed %r" % (head, dHs[k], seedtol, seeds[k].tolist()))
    etol = int(case["n_iter"]) * float(np.max(tol["en"])) + seedtol + 64 * EPS * float(np.max(H.abssum(S.T)))
    emax = float(np.max(np.abs(dH)))
    if emax > etol:
        k = int(np.argmax(np.abs(dH)))
        ctx.fail("energy-level:%s:%s" % (case["method"], "enforcement-dominated" if tol["Hf"][k] * tol["D"][k] > 0.5 * tol["en"][k] else "integration-dominated"), case,
                 "%s: |H(state) - E| = %.3g > %.3g (n_iter x per-return bound; W=%.3g) at state %r" % (head, emax, etol, tol["W"], S[k].tolist()))
    out = {"M": M, "emax": emax, "etol": etol, "pairs": 0, "ill": int(np.sum(tol["ill"]))}
    if not full:
        return out
    # ---- (3) genuine returns in one direction
    preds = np.vstack([seeds, S])
    readings = ["q"] if c.startswith("q") else ["inc", "dec", "literal"]
    try:
        ok, name, diag, per = match(H, S, preds, c, dt, tol, readings)
    except RuntimeError as e:      # the reference integrator gave up (not a statement about the library)
        ctx.note("reference integration failed for %s: %s" % (head, e))
        out["reference_failed"] = True
        return out
    out["reading"] = name
    f1 = tol["f1"]
    firm = np.abs(f1) > 2.0 * dt * np.abs(tol["f2"])
    npos, nneg = int(np.sum(firm & (f1 > 0))), int(np.sum(firm & (f1 < 0)))
    out["signs"] = (npos, nneg)
    if ok:
        mt = diag[name]["match"]
        out["pairs"] = int(np.sum(mt >= len(seeds)))
        out["complete"] = diag[name]["wild"] == 0 and out["ill"] == 0
    else:
        if npos and nneg:
            ctx.fail("direction:%s-section:crossings-in-both-directions" % c, case,
                     "%s: %d returned points cross with %s increasing and %d with %s decreasing (own d%s/dt at the point, firm sign); no single "
                     "direction rule explains the map (unmatched under %s)" % (head, npos, c, nneg, c, c, {r: int(len(diag[r]["unmatched"])) for r in diag}))
        else:
            r0 = "q" if c.startswith("q") else ("inc" if npos >= nneg else "dec")
            un = diag[r0]["unmatched"]
            adj = diag[r0]["adj"]
            lonely = [int(u) for u in un if not np.any(adj[u])]
            k = lonely[0] if lonely else int(un[0])
            best = (np.inf, None, None)          # nearest reference crossing of ANY predecessor, any direction, any rank
            for i, lst in enumerate(per):
                if i == len(seeds) + k:
                    continue
                for z in lst:
                    d = float(np.max(np.abs(S[k] - z["y"])))
                    if d < best[0]:
                        best = (d, i, z)
            who = "none" if best[1] is None else ("seed %d" % best[1] if best[1] < len(seeds) else "returned point %d" % (best[1] - len(seeds)))
            detail = ("%s: %d of %d returned points have no (distinct) predecessor among %d seeds + %d returned points under the rule '%s'; e.g. state %r (own d%s/dt = %.3g): "
                      "nearest reference crossing of any predecessor at distance %.3g (tolerance %.3g): crossing of %s at t = %s, direction %s"
                      % (head, len(un), M, len(seeds), M, r0, S[k].tolist(), c, float(f1[k]), best[0], float(tol["pos"][k]), who,
                         None if best[2] is None else "%.6g" % best[2]["t"], None if best[2] is None else "%+d" % best[2]["dir"]))
            if c.startswith("q") and nneg and not npos:
                ctx.fail("direction:%s-section:all-decreasing" % c, case, "%s: every returned point crosses with %s decreasing (documented: %s > 0)" % (head, c, CONJ[c]))
            elif not lonely:
                ctx.fail("genuine-return:%s:same-image-for-several-points" % case["method"], case, detail)
            elif best[0] <= float(tol["pos"][k]):
                ctx.fail("direction:%s-section:not-the-next-crossing-in-one-direction" % c, case, detail)
            else:
                ctx.fail("genuine-return:%s:point-not-on-a-predecessor-trajectory" % case["method"], case, detail)
    return out


# ------------------------------------------------------------------ evaluation of one generated case
def energy_of(m, case):
    u = np.array(case["dir"], dtype=float)
    p4 = float(case["r"]) * u / np.linalg.norm(u)
    return float(m.ham.value(p4)), p4


def eval_case(case, ctx):
    m = manifold(case["man"])
    H = m.ham
    E, p4 = energy_of(m, case)
    c = case["coord"]
    dt = float(case["dt"])
    cls = ["section:" + c, "strategy:" + case["strategy"], "%s/%d" % (case["method"], case["order"]), "N=%d" % m.N,
           "%s-L%d" % (m.key[0], m.key[1]), "dt:1e%d" % int(math.floor(math.log10(dt))), "n_iter=%d" % int(case["n_iter"])]
    if not (E > 0):
        ctx.case(cls=cls + ["energy<=0:skipped"])
        return
    nmaps = 0
    base = run_map(m, E, case, dt, (1, 1, 0))
    nmaps += 1
    if "error" in base:
        ctx.case(cls=cls + ["compute-raised"])
        ctx.fail("compute:raises:%s" % base["etype"], case, "L%d N=%d E=%.17g section %s %s %s/%d dt=%g: %s" % (m.key[1], m.N, E, c, case["strategy"], case["method"], case["order"], dt, base["error"]))
        return
    if base["started"] < 1 or any(s != 1 for s in base["seen"]):
        raise HarnessError("thread-count hook ineffective: workers started %d, thread counts seen %r" % (base["started"], base["seen"]))
    sm = check_map(ctx, case, m, E, dt, base, "1 worker, 1 thread")
    # ---- (4) partitions
    S0 = lexsorted(base["states"])
    compared = 0
    multi = 0
    for part in case["parts"]:
        res = run_map(m, E, case, dt, part)
        nmaps += 1
        ptag = "n_workers=%d threads=%d chunk=%d" % tuple(part)
        if "error" in res:
            ctx.fail("compute:raises:%s" % res["etype"], case, "%s: %s" % (ptag, res["error"]))
            continue
        want_t = max(1, min(int(part[1]), lib().maxthreads))
        if any(s != want_t for s in res["seen"]):
            raise HarnessError("thread-count hook ineffective: wanted %d, seen %r" % (want_t, res["seen"]))
        check_map(ctx, case, m, E, dt, res, ptag, full=False)
        if case["strategy"] == "random":
            continue
        Sk = lexsorted(res["states"])
        compared += 1
        nchunks = min(int(part[0]), len(res["seeds"]))
        multi += 1 if nchunks >= 2 else 0
        if Sk.shape != S0.shape:
            ctx.fail("partition:number-of-points-differs", case,
                     "L%d N=%d E=%.17g section %s %s %s/%d dt=%g n_iter=%d: %d states with %s, %d with 1 worker/1 thread"
                     % (m.key[1], m.N, E, c, case["strategy"], case["method"], case["order"], dt, case["n_iter"], len(Sk), ptag, len(S0)))
        elif Sk.tobytes() != S0.tobytes():
            bad = np.flatnonzero(np.any(Sk != S0, axis=1))
            rel = float(np.max(np.abs(Sk - S0))) if len(bad) else 0.0     # -0.0 vs 0.0 differ in bytes only
            if len(bad):
                ctx.fail("partition:states-differ:%s" % ("rounding-level" if rel <= 1e-12 else "gross"), case,
                         "L%d N=%d E=%.17g section %s %s %s/%d dt=%g n_iter=%d: sorted states with %s differ from the 1 worker/1 thread run in %d rows (max abs diff %.3g), e.g. %r vs %r"
                         % (m.key[1], m.N, E, c, case["strategy"], case["method"], case["order"], dt, case["n_iter"], ptag, len(bad), rel, Sk[bad[0]].tolist(), S0[bad[0]].tolist()))
    # ---- halving dt
    ratio = None
    if case.get("halve", True) and sm is not None:
        half = run_map(m, E, case, dt / 2.0, (1, 1, 0))
        nmaps += 1
        if "error" in half:
            ctx.fail("compute:raises:%s" % half["etype"], case, "dt/2 run: %s" % half["error"])
        else:
            sh = check_map(ctx, case, m, E, dt / 2.0, half, "dt/2, 1 worker, 1 thread")
            if sh is not None and sh["emax"] > 0 and sm["emax"] > 0:
                ratio = sm["emax"] / sh["emax"]
                hist = ctx.extra.setdefault("max_energy_error_ratio_dt_over_half_dt:" + case["method"], {"<2": 0, "2-4": 0, "4-16": 0, ">=16": 0})
                hist["<2" if ratio < 2 else "2-4" if ratio < 4 else "4-16" if ratio < 16 else ">=16"] += 1
    # ---- same-object recompute (observation only; the cache key drops option values)
    if case.get("probe_cache") and sm is not None and sm["M"] > 0:
        try:
            L = lib()
            pm = base["pm"]
            opt2 = L.Opt(integration=base["opt"].integration, iteration=L.ItO(n_iter=int(case["n_iter"]) + 1),
                         seeding=base["opt"].seeding, workers=base["opt"].workers)
            _REC["seeds"] = []
            _REC["on"] = True
            r2 = pm.compute(section_coord=c, options=opt2)
            _REC["on"] = False
            stale = len(_REC["seeds"]) == 0 and len(r2.states) == len(base["states"])
            ctx.extra["same_object_second_compute_with_other_n_iter"] = ctx.extra.get("same_object_second_compute_with_other_n_iter", 0) + 1
            if stale:
                if "same_object_second_compute_returned_stale_result" not in ctx.extra:
                    ctx.note("observation (not asserted): compute() on the SAME map object with n_iter+1 returned the cached n_iter result without running "
                             "the engine — the cache key built by make_key() keeps only the option NAMES (nested dicts are iterated over their keys)")
                ctx.extra["same_object_second_compute_returned_stale_result"] = ctx.extra.get("same_object_second_compute_returned_stale_result", 0) + 1
        except Exception:          # noqa: BLE001 - observation only
            _REC["on"] = False
    # ---- bookkeeping
    nt = None
    if sm is not None:
        cls.append("points:%s" % ("0" if sm["M"] == 0 else "<=40" if sm["M"] <= 40 else "<=100" if sm["M"] <= 100 else ">100"))
        if sm.get("ill"):
            cls.append("has-ill-conditioned-crossings")
        if sm.get("reference_failed"):
            cls.append("reference-integration-failed")
        if sm.get("reading"):
            cls.append("reading:" + sm["reading"])
        if base["seeds"].shape[0] != int(case["n_seeds"]):
            cls.append("n_seeds-not-honoured")
            if "n_seeds_not_honoured" not in ctx.extra:
                ctx.note("observation (not asserted): SeedingOptions(n_seeds=%d) produced %d seeds (the strategies read n_seeds from the config object, which has no such field: default 20)"
                         % (int(case["n_seeds"]), base["seeds"].shape[0]))
            ctx.extra["n_seeds_not_honoured"] = ctx.extra.get("n_seeds_not_honoured", 0) + 1
        if int(case["n_iter"]) >= 2 and sm.get("pairs", 0) >= 1 and sm.get("complete") and multi >= 1:
            nt = repr(case)
    ctx.case(nontrivial=nt, cls=cls, n=nmaps,
             sample={"man": case["man"], "E": E, "coord": c, "strategy": case["strategy"], "method": "%s/%d" % (case["method"], case["order"]),
                     "dt": dt, "n_iter": case["n_iter"], "seeds": int(base["seeds"].shape[0]), "points": None if sm is None else sm["M"],
                     "max_energy_error": None if sm is None else sm["emax"], "energy_tol": None if sm is None else sm.get("etol"),
                     "ratio_dt_half": ratio, "parts": case["parts"], "returned_pairs": None if sm is None else sm.get("pairs")} if nt else None)


# ------------------------------------------------------------------ generator
_mag = st.floats(0.25, 1.0)
_sgn = st.sampled_from([-1.0, 1.0])


@st.composite
def map_case(draw, man, work, nparts_=2):
    """work: budget in stage-evaluations-per-unit-time (n_iter * stages / dt <= work)."""
    c = draw(st.sampled_from(["q3", "p3", "q2", "p2"]))
    strat = draw(st.sampled_from(["axis_aligned", "single", "level_sets", "radial", "random", "axis_aligned"]))
    axis = draw(st.sampled_from(list(PLANE[c])))
    method = draw(st.sampled_from(["fixed", "fixed", "symplectic"]))
    order = draw(st.sampled_from([4, 6, 8] if method == "fixed" else [2, 4, 6]))
    stages = (RK_STAGES if method == "fixed" else SY_STAGES)[order]
    n_iter = draw(st.integers(1, 8))
    # dt in 10^[-3, -1.3], bounded below by the work budget; n_iter is reduced (constructively) if even dt = 0.05 is too costly
    hi = 10 ** -1.3
    while n_iter > 1 and n_iter * stages / hi > work:
        n_iter -= 1
    lo = max(1e-3, min(hi, n_iter * stages / work))
    u = draw(st.floats(0.0, 1.0))
    dt = float(math.exp(math.log(lo) + u * (math.log(hi) - math.log(lo))))
    nparts = nparts_
    parts = []
    for k in range(nparts):
        nw = draw(st.integers(2, 16)) if k == 0 else draw(st.integers(1, 16))
        nt = draw(st.sampled_from([1, 2, 3, 4, 5, 8, 11, 16]))
        ch = draw(st.sampled_from([0, 0, 1, 2, 3]))
        parts.append([nw, nt, ch])
    return {"man": man, "dir": [draw(_mag) * draw(_sgn) for _ in range(4)], "r": draw(st.floats(0.06, 0.42)),
            "coord": c, "strategy": strat, "axis": axis, "n_seeds": draw(st.integers(3, 12)), "n_iter": n_iter,
            "method": method, "order": order, "dt": dt, "parts": parts, "halve": True, "probe_cache": draw(st.booleans())}


# ------------------------------------------------------------------ oracle self-test
def _selftest():
    # (a) evaluator against a hand-expanded polynomial and finite differences
    d6 = {(0, 2, 0, 0, 0, 0): 1.1, (0, 0, 0, 0, 2, 0): 1.1, (0, 0, 2, 0, 0, 0): 0.9, (0, 0, 0, 0, 0, 2): 0.9,
          (0, 2, 0, 0, 1, 0): 0.5, (0, 0, 2, 0, 1, 0): 0.4, (0, 1, 1, 0, 0, 1): -0.3, (1, 0, 0, 1, 0, 0): 7.0, (0, 0, 0, 0, 4, 0): 0.2}
    H = R.CMHam(d6)
    x = np.array([0.3, -0.2, 0.25, 0.15])       # q2,p2,q3,p3
    q2, p2, q3, p3 = x
    want = 1.1 * q2 * q2 + 1.1 * p2 * p2 + 0.9 * q3 * q3 + 0.9 * p3 * p3 + 0.5 * q2 * q2 * p2 + 0.4 * q3 * q3 * p2 - 0.3 * q2 * q3 * p3 + 0.2 * p2 ** 4
    assert abs(H.value(x) - want) < 1e-15, (H.value(x), want)
    assert H.dropped_hyperbolic == 1
    g = H.grad(x)[:, 0]
    wg = [2.2 * q2 + q2 * p2 - 0.3 * q3 * p3, 2.2 * p2 + 0.5 * q2 * q2 + 0.4 * q3 * q3 + 0.8 * p2 ** 3, 1.8 * q3 + 0.8 * q3 * p2 - 0.3 * q2 * p3, 1.8 * p3 - 0.3 * q2 * q3]
    assert np.max(np.abs(g - np.array(wg))) < 1e-14, (g, wg)
    F = H.field(x)[:, 0]
    assert np.max(np.abs(F - np.array([wg[1], -wg[0], wg[3], -wg[2]]))) < 1e-14
    h = 1e-6
    for c in ("q2", "p2", "q3", "p3"):
        f1, f2, sp = H.fdots(x, c)
        assert abs(f1[0] - F[IDX4[c]]) < 1e-14
        # f'' by differencing f' along the field
        a = H.field(x + h * F)[IDX4[c], 0]
        b = H.field(x - h * F)[IDX4[c], 0]
        assert abs(f2[0] - (a - b) / (2 * h)) < 1e-8, (c, f2[0], (a - b) / (2 * h))
    # (b) reference returns on two uncoupled harmonic oscillators: exact period and image
    Hh = R.CMHam({(0, 2, 0, 0, 0, 0): 1.0, (0, 0, 0, 0, 2, 0): 1.0, (0, 0, 2, 0, 0, 0): 0.75, (0, 0, 0, 0, 0, 2): 0.75})
    X0 = np.array([[0.3, 0.1, 0.0, 0.2], [-0.1, 0.2, 0.0, 0.4]]).T
    ref, _ = R.returns(Hh, X0, "q3", direction=+1, horizon=12.0, first=9.0, ncand=2, hs=0.005)
    for i in range(2):
        y, t = ref[i][0][0], ref[i][0][1]
        T = 2 * math.pi / 1.5
        assert abs(t - T) < 1e-9, (t, T)
        ang = 2.0 * T
        wq = X0[0, i] * math.cos(ang) + X0[1, i] * math.sin(ang)
        wp = -X0[0, i] * math.sin(ang) + X0[1, i] * math.cos(ang)
        assert np.max(np.abs(y - np.array([wq, wp, 0.0, X0[3, i]]))) < 1e-9, (y, wq, wp)
        assert abs(ref[i][1][1] - 2 * T) < 1e-9
    refd, _ = R.returns(Hh, X0, "q3", direction=-1, horizon=12.0, first=9.0, ncand=1, hs=0.005)
    assert abs(refd[0][0][1] - math.pi / 1.5) < 1e-9
    # (c) calibration of the linear-fraction bound on a coupled system: model of the documented refinement
    #     (chord zero + cubic Hermite with exact end data) against the exact crossing
    x0 = np.array([0.25, 0.1, 0.0, 0.3])
    ref, _ = R.returns(H, x0[:, None], "q3", direction=+1, horizon=12.0, first=9.0, ncand=1, hs=0.005)
    ystar, tstar = ref[0][0][0], ref[0][0][1]
    dense = R._integrate(H, x0[:, None], tstar + 0.2, 1e-12, 1e-14)
    worst = 0.0
    for dt in (0.04, 0.01):
        for alpha in (0.2, 0.5, 0.8):
            ta = tstar - alpha * dt
            xa, xb = dense(ta), dense(ta + dt)
            fa, fb = H.field(xa)[:, 0], H.field(xb)[:, 0]
            al = xa[2] / (xa[2] - xb[2])
            y = np.array([R.hermite(al, xa[k], xb[k], fa[k], fb[k], dt) for k in range(4)])
            off = abs(y[2])
            y[2] = 0.0
            err = float(np.max(np.abs(y - ystar)))
            tol = tolerances(H, ystar[None, :], "q3", dt, {"method": "fixed", "order": 8}, tstar)
            lin = float(tol["speed"][0] * tol["D"][0] / tol["m1"][0])
            assert off <= tol["D"][0], ("section offset above the derived bound", off, tol["D"][0])
            assert err <= lin + float(4.0 * tol["W"] ** 4 * tol["r"][0] * dt ** 4 / 384.0) + 1e-9, ("linear-fraction bound violated by the model", dt, alpha, err, lin)
            if alpha != 0.5:      # f'' ~ -W^2 f vanishes AT the crossing: at alpha = 1/2 the chord error cancels to higher order
                worst = max(worst, lin / max(err, 1e-300))
    assert worst < 16.0, ("linear-fraction bound is vacuous (bound/actual = %.3g at alpha = 0.2|0.8)" % worst)


# ------------------------------------------------------------------ entry points
def _shard_man(ctx):
    if ctx.tier == "quick":
        table = [("EM", 1, 6), ("EM", 2, 4), ("EM", 2, 6), ("EM", 1, 4)]
    else:
        table = [("EM", 1, 6), ("EM", 2, 6), ("SE", 1, 6), ("SE", 2, 4), ("EM", 1, 8), ("EM", 2, 4), ("SE", 2, 6), ("EM", 1, 4)]
    s, p, n = table[ctx.shard % len(table)]
    return {"sys": s, "point": p, "N": n}


def run(ctx):
    try:
        _selftest()
    except AssertionError as e:
        raise HarnessError("oracle self-test failed: %r" % (e,))
    man = _shard_man(ctx)
    shard_replays(ctx, replay)
    # work = bound on n_iter * stages / dt of the base map (about 1.7 ms of single-thread kernel time per unit with 20 seeds)
    work = ctx.scale(600.0, 2000.0)
    n = ctx.scale(3, 14)
    explore(ctx, "maps", map_case(man, work, ctx.scale(2, 3)), eval_case, n, shrink_calls=ctx.scale(1, 6))
    ctx.extra.setdefault("threading_layer", {})[_layer()] = 1


def _layer():
    try:
        return lib().numba.threading_layer()
    except Exception:      # noqa: BLE001
        return "unlaunched"


def replay(ctx, payload):
    eval_case(payload, ctx)
