"""C18 — Hamiltonian-form conversions and coordinate changes run and are mutually inverse.

Five generated searches (all through the public observation points):

edge      every edge of the conversion registry (enumerated at run time) x (mu, L1/L2, degree, source); sources are
          pipeline-produced Hamiltonians AND generated polynomials wrapped as ``Hamiltonian(poly, deg, 3, name=src)``
          (for the Lie edges the generated polynomial carries the quadratic normal form the routine divides by).
          (1) ``ham.to_state(dst, point=...)`` returns a Hamiltonian named ``dst`` (or (Hamiltonian, generating
          functions)); (2) when the reverse edge is registered, ``dst->src(src->dst(P)) == P`` coefficient-wise.
polycoord ``_substitute_complex/_substitute_real/_polylocal2realmodal/_polyrealmodal2local`` against the coordinate
          functions of the same / the opposite direction:  P_new(f_same(x)) == P_old(x)  and  P_new(y) == P_old(f_rev(y)),
          polynomials evaluated by an own NumPy evaluator that reads the packed layout (vf.oracle.polyref).
pointmap  ``_solve_complex/_solve_real``, ``_coordlocal2realmodal/_coordrealmodal2local``,
          ``_local2synodic_*/_synodic2local_*`` (L1..L5) are inverse to each other in both orders.
matrix    ``_M(mix) @ _M_inv(mix) == I`` and ``M^T J M == J`` for every subset of canonical pairs (exhaustive).
order     ``HamiltonianPipeline.get_hamiltonian`` requested in generated orders (repeats, ``cache_clear`` in between)
          returns the same coefficients as a fresh pipeline asked in the canonical order.

All tolerances are formulas of the instance (see ``_rt_bound`` / ``_affine``): cleaning threshold of the edge (read from
the registry) times the number of coefficients that can have been cleaned, plus rounding terms scaled by the row-sum
norms of the substitution matrices to the power of the degree and by cond(C).
"""
from __future__ import annotations

import itertools
import json
import logging
import math
import os

import numpy as np
from hypothesis import strategies as st

from .. import gen
from ..hyp import explore
from ..oracle import polyref as R
from ..runner import HarnessError

PROPERTY = "C18"
LEVEL = "exploration"
SHARDS = {"quick": 4, "thorough": 8}
# the polynomial kernels are faster single-threaded at these sizes (prange overhead dominates: 0.1 s vs 2.8 s at degree 6)
NUMBA_THREADS = {"quick": 1, "thorough": 1}
REPLAY_IN_RUN = True    # regression inputs need the JIT-compiled polynomial stack: replayed inside shard 1 (single-threaded), not in the parent
os.environ.setdefault("NUMBA_NUM_THREADS", "1")   # --replay / in-process runs: same single-threaded kernels as the shards
RULE = ("edge cases = every registry edge (enumerated at run time, all of them in every run) x generated (mu from {Earth-Moon, Sun-Earth, "
        "Sun-Jupiter} or the log-uniform/catalogue mixture, point L1/L2, degree 2..8 (quick weighted towards 2..6), source = pipeline Hamiltonian or "
        "generated sparse/dense polynomial); non-trivial = degree >= 3 AND (edge points back towards 'physical' in the registry graph OR the "
        "source is a generated polynomial with >= 20 non-zero coefficients); distinct by (edge, mu to 6 digits, point, degree, source digest). "
        "polycoord/pointmap/order cases: generated polynomials, complex/real 6-vectors, request orders; non-trivial = polynomial with >= 20 "
        "non-zero coefficients and degree >= 3 / vector with all six components non-zero / order different from the canonical one")
ASSUMPTIONS = [
    "the cleaning tolerance of an edge is the 'tol' default stored in the registry entry (1e-12 modal, 1e-14 normal-form edges), never below the 1e-14 used inside _substitute_linear",
    "round-trip tolerance per degree d: tol_back + tol_fwd*Z_d*r_back^d + (8 eps (d+2) N_d + 64 eps d cond(T))*(r_fwd r_back)^d*||P_d||_1 "
    "(Z_d zeros of the intermediate block, N_d block length, r = max row sum of |T|); T = C of the point for physical<->real_modal, the unitary complexification otherwise",
    "a Hamiltonian's representation is identified by .name (the registry is keyed by it and every wrapper documents the name it returns), so a result named differently from dst is a failed conversion",
    "Lie edges (one-way) are only required to run and to return (Hamiltonian named dst, LieGeneratingFunction); what they compute is C08's subject",
    "request-order independence is asserted up to sqrt(eps)*(1+max|coefficient|): thread-private partial sums make the kernels not bitwise reproducible in general",
    "coordinate vectors: real/imaginary parts are exactly 0 or of modulus in [1e-12, 1e3]; _clean_coordinates' documented 1e-30 threshold is added to the point-map tolerance",
]
logging.disable(logging.CRITICAL)

EPS = 2.220446049250313e-16
EM, SE, SJ = 0.01215058560962404, 3.0034805945423304e-06, 0.0009536838895767034
J6 = np.block([[np.zeros((3, 3)), np.eye(3)], [-np.eye(3), np.zeros((3, 3))]])

# ------------------------------------------------------------------ library access (lazy: HITEN_SRC must be honoured)
_lib = {}


def lib():
    if not _lib:
        from hiten import System
        from hiten.algorithms.hamiltonian import transforms as T
        from hiten.algorithms.hamiltonian import wrappers  # noqa: F401  (populates the registry)
        from hiten.algorithms.hamiltonian.pipeline import HamiltonianPipeline
        from hiten.algorithms.polynomial.base import _init_index_tables
        from hiten.algorithms.types.services import get_hamiltonian_services
        from hiten.system.hamiltonian import Hamiltonian, LieGeneratingFunction
        _lib.update(System=System, T=T, Pipeline=HamiltonianPipeline, tables=_init_index_tables,
                    services=get_hamiltonian_services, Hamiltonian=Hamiltonian, LGF=LieGeneratingFunction)
    return _lib


def registry():
    return lib()["services"]()._CONVERSION_REGISTRY


def edges():
    return sorted((str(a), str(b)) for (a, b) in registry())


def forms():
    return sorted({f for e in edges() for f in e})


def graph_dist():
    """BFS distance from 'physical' over the registry graph (order independent)."""
    E = edges()
    dist = {"physical": 0}
    frontier = ["physical"]
    while frontier:
        nxt = []
        for a in frontier:
            for (s, d) in E:
                if s == a and d not in dist:
                    dist[d] = dist[a] + 1
                    nxt.append(d)
        frontier = sorted(nxt)
    return dist


_tables = {}
_points = {}
_pipes = {}


def tables(deg):
    if deg not in _tables:
        psi, clmo = lib()["tables"](deg)
        _tables[deg] = (psi, clmo, [R.exps(clmo, d) for d in range(deg + 1)])
    return _tables[deg]


def point(mu, idx):
    key = (float(mu), int(idx))
    if key not in _points:
        if len(_points) > 400:
            _points.clear(); _pipes.clear()
        _points[key] = lib()["System"].from_mu(float(mu)).get_libration_point(int(idx))
    return _points[key]


def pipeline(mu, idx, deg):
    key = (float(mu), int(idx), int(deg))
    if key not in _pipes:
        if len(_pipes) > 60:
            _pipes.clear()
        _pipes[key] = lib()["Pipeline"](point(mu, idx), int(deg))
    return _pipes[key]


# ------------------------------------------------------------------ polynomials (JSON spec -> packed blocks)
def _cx(v):
    return complex(v[0], v[1])


def build_blocks(spec, deg, h2=None):
    """Packed complex128 blocks (python list of arrays) of the polynomial described by `spec`:
    {"terms": [[k0..k5, re, im], ...], "dense": None | {"dd": int, "base": [[re, im], ...]}}.
    With h2 = (lam, om1, om2) the degree 0..2 part is replaced by lam q1 p1 + i om1 q2 p2 + i om2 q3 p3."""
    psi, clmo, E = tables(deg)
    blocks = [np.zeros(int(psi[6, d]), dtype=np.complex128) for d in range(deg + 1)]
    for row in spec.get("terms", []):
        k = tuple(int(v) for v in row[:6])
        d = sum(k)
        if d > deg:
            continue
        blocks[d][R.positions(clmo, d)[k]] += complex(row[6], row[7])
    dn = spec.get("dense")
    if dn:
        d = min(int(dn["dd"]), deg)
        base = np.array([_cx(v) for v in dn["base"]], dtype=np.complex128)
        blocks[d] = blocks[d] + base[np.arange(blocks[d].size) % base.size]
    if h2 is not None:
        for d in range(min(3, deg + 1)):
            blocks[d][:] = 0.0
        pos = R.positions(clmo, 2)
        lam, om1, om2 = h2
        blocks[2][pos[(1, 0, 0, 1, 0, 0)]] = lam
        blocks[2][pos[(0, 1, 0, 0, 1, 0)]] = 1j * om1
        blocks[2][pos[(0, 0, 1, 0, 0, 1)]] = 1j * om2
    return blocks


def typed(blocks):
    from numba.typed import List
    out = List()
    for b in blocks:
        out.append(np.ascontiguousarray(b, dtype=np.complex128))
    return out


def snapshot(poly):
    return [np.array(b, dtype=np.complex128, copy=True) for b in poly]


def nnz(blocks):
    return int(sum(int(np.count_nonzero(b)) for b in blocks))


def digest(blocks):
    import hashlib
    h = hashlib.blake2b(digest_size=8)
    for b in blocks:
        h.update(np.ascontiguousarray(b, dtype=np.complex128).tobytes())
    return h.hexdigest()


def peval(blocks, E, x):
    """Own evaluator: (value, sum of |terms|) of the packed polynomial at the complex 6-vector x."""
    x = np.asarray(x, dtype=np.complex128)
    val = 0j
    maj = 0.0
    for d, b in enumerate(blocks):
        nz = np.flatnonzero(b)
        if nz.size == 0:
            continue
        mono = np.prod(x[None, :] ** E[d][nz], axis=1)
        t = b[nz] * mono
        val += complex(np.sum(t))
        maj += float(np.sum(np.abs(t)))
    return val, maj


@st.composite
def poly_spec(draw, deg, mindeg=0, cplx=True):
    scale = draw(st.sampled_from([1.0, 1.0, 1.0, 1e-3, 1e3, 1e-6]))
    mode = draw(st.sampled_from(["sparse", "sparse", "dense", "mixed"]))
    lo = min(mindeg, deg)

    def coef():
        re = draw(st.floats(-1.0, 1.0)) * scale
        im = draw(st.floats(-1.0, 1.0)) * scale if cplx else 0.0
        return [float(re), float(im)]
    spec = {"terms": [], "dense": None}
    if mode in ("sparse", "mixed"):
        for _ in range(draw(st.integers(1, 40 if mode == "sparse" else 8))):
            dd = draw(st.integers(lo, deg))
            k = [0] * 6
            for _v in range(dd):
                k[draw(st.integers(0, 5))] += 1
            spec["terms"].append(k + coef())
    if mode in ("dense", "mixed"):
        dd = draw(st.integers(max(lo, 1), deg))
        spec["dense"] = {"dd": dd, "base": [coef() for _ in range(draw(st.integers(2, 7)))]}
    return spec


def mu_strategy():
    return st.one_of(st.sampled_from([EM, SE, SJ]), st.sampled_from([EM, SE]), gen.mu())


def _deg_strategy(ctx, lo=2):
    # single-threaded kernels make even degree 8 cheap (< 1 s per conversion); quick still leans on 2..6
    pool = ctx.scale([2, 3, 4, 4, 5, 5, 6, 6, 7, 8], [2, 3, 4, 5, 6, 6, 7, 7, 8, 8])
    return st.sampled_from(list(range(lo, 2)) + pool)


# ------------------------------------------------------------------ conditioning of an edge
def _edge_T(src, dst, pt):
    """(r_fwd, r_back, cond, class) of the linear map behind the two-way edge src<->dst."""
    if {src, dst} == {"physical", "real_modal"}:
        C = np.asarray(pt.normal_form_transform[0], dtype=float)
        Ci = np.linalg.inv(C)
        r1, r2 = float(np.abs(C).sum(axis=1).max()), float(np.abs(Ci).sum(axis=1).max())
        return (r1, r2, float(np.linalg.cond(C)), "modal") if src == "physical" else (r2, r1, float(np.linalg.cond(C)), "modal")
    s2 = math.sqrt(2.0)
    twins = {src.replace("complex", "real"), src.replace("real", "complex")}
    if dst in twins:
        return s2, s2, 1.0, "complexification"
    # an edge this module does not know: be as generous as the worse of the two known maps
    C = np.asarray(pt.normal_form_transform[0], dtype=float)
    Ci = np.linalg.inv(C)
    r = max(s2, float(np.abs(C).sum(axis=1).max()), float(np.abs(Ci).sum(axis=1).max()))
    return r, r, float(np.linalg.cond(C)), "unknown"


def _edge_tol(src, dst):
    dflt = registry()[(src, dst)][2]
    t = dflt.get("tol", 0.0) if isinstance(dflt, dict) else 0.0
    return max(float(t), 1e-14)


def _rt_bound(d, P_d, mid_d, tol_f, tol_b, r_f, r_b, cond):
    N = P_d.size
    Z = int(N - np.count_nonzero(mid_d))
    S = float(np.sum(np.abs(P_d)))
    return tol_b + tol_f * Z * r_b ** d + (8 * EPS * (d + 2) * N + 64 * EPS * d * cond) * (r_f * r_b) ** d * S


def _shape_ok(H, deg):
    psi = tables(deg)[0]
    poly = H.poly_H
    if len(poly) != deg + 1:
        return "len(poly_H)=%d, expected %d blocks" % (len(poly), deg + 1)
    for d in range(deg + 1):
        if np.asarray(poly[d]).shape != (int(psi[6, d]),):
            return "block %d has shape %r, expected (%d,)" % (d, np.asarray(poly[d]).shape, int(psi[6, d]))
    return None


# ------------------------------------------------------------------ (1)+(2) registry edges
@st.composite
def edge_case(draw, ctx, src, dst):
    deg = draw(_deg_strategy(ctx))
    kind = draw(st.sampled_from(["pipeline", "pipeline", "generic", "generic", "generic"]))
    case = {"check": "edge", "edge": [src, dst], "mu": draw(mu_strategy()), "idx": draw(st.integers(1, 2)), "deg": deg, "kind": kind, "poly": None}
    if kind == "generic":
        case["poly"] = draw(poly_spec(deg, mindeg=0, cplx=("complex" in src) or draw(st.integers(0, 3)) == 0))
    return case


def _needs_h2(src, dst):
    """Lie edges (registered with a 'tol_lie' default) solve homological equations whose divisors come from the point's
    linear modes: the input must carry the quadratic normal form lam q1 p1 + i om1 q2 p2 + i om2 q3 p3 and no lower-order terms."""
    dflt = registry()[(src, dst)][2]
    return isinstance(dflt, dict) and "tol_lie" in dflt


def eval_edge(case, ctx):
    L = lib()
    src, dst = case["edge"]
    mu, idx, deg = float(case["mu"]), int(case["idx"]), int(case["deg"])
    ename = "%s->%s" % (src, dst)
    if (src, dst) not in registry():
        raise HarnessError("edge %s is not in the registry (stale replay?)" % ename)
    try:
        pt = point(mu, idx)
        modes = tuple(float(v) for v in pt.linear_modes)
        pt.normal_form_transform
    except Exception as e:
        ctx.case(cls="edge:point-unavailable")
        ctx.fail("point-unavailable:L%d:%s" % (idx, type(e).__name__), case, "mu=%r L%d: %r" % (mu, idx, e))
        return
    # ---- source
    if case["kind"] == "pipeline":
        try:
            ham = pipeline(mu, idx, deg).get_hamiltonian(src)
        except Exception as e:
            ctx.case(cls="edge:pipeline-source-raised")
            ctx.fail("pipeline-raises:%s:%s" % (src, type(e).__name__), case, "get_hamiltonian(%r) mu=%r L%d degree %d: %r" % (src, mu, idx, deg, e))
            return
        if ham.name != src:
            ctx.case(cls="edge:pipeline-source-wrong-form")
            ctx.fail("pipeline-wrong-form:" + src, case, "get_hamiltonian(%r) (mu=%r L%d degree %d) returned a Hamiltonian named %r" % (src, mu, idx, deg, ham.name))
            return
    else:
        blocks = build_blocks(case["poly"], deg, h2=modes if _needs_h2(src, dst) else None)
        ham = L["Hamiltonian"](typed(blocks), deg, 3, name=src)
    P = snapshot(ham.poly_H)
    finite = all(np.all(np.isfinite(b)) for b in P)
    n_nz = nnz(P)
    dist = graph_dist()
    reverse = dist.get(dst, 99) < dist.get(src, 99)
    two_way = (dst, src) in registry()
    nt = None
    if deg >= 3 and (reverse or (case["kind"] == "generic" and n_nz >= 20)):
        nt = ("edge", ename, "%.5e" % mu, idx, deg, digest(P))
    cls = ["edge:" + ename, "edge-deg:%d" % deg, "edge-src:" + case["kind"], "edge-L%d" % idx,
           "edge-dir:" + ("reverse" if reverse else "forward"), "edge-mu:" + ("suite" if any(abs(mu - m) <= 1e-2 * m for m in (EM, SE, SJ)) else "other")]
    # ---- (1) runs
    try:
        res = ham.to_state(dst, point=pt)
    except Exception as e:
        ctx.case(nontrivial=nt, cls=cls + ["edge-outcome:raised"])
        ctx.fail("edge-raises:%s:%s" % (ename, type(e).__name__), case,
                 "%s Hamiltonian (degree %d, %d non-zero coefficients, mu=%r L%d).to_state(%r, point=) raised %s: %s" % (
                     case["kind"], deg, n_nz, mu, idx, dst, type(e).__name__, str(e)[:300]))
        return
    H = res
    if isinstance(res, tuple):
        if not (len(res) == 2 and isinstance(res[0], L["Hamiltonian"]) and isinstance(res[1], L["LGF"])):
            ctx.case(nontrivial=nt, cls=cls + ["edge-outcome:bad-type"])
            ctx.fail("edge-result-type:" + ename, case, "returned tuple %r" % ([type(r).__name__ for r in res],))
            return
        H = res[0]
        cls.append("edge-returns:ham+generating-functions")
    elif not isinstance(res, L["Hamiltonian"]):
        ctx.case(nontrivial=nt, cls=cls + ["edge-outcome:bad-type"])
        ctx.fail("edge-result-type:" + ename, case, "returned %s" % type(res).__name__)
        return
    bad = False
    if H.name != dst:
        ctx.fail("edge-result-name:" + ename, case, "result is named %r (conversions are looked up by name; %r expected)" % (H.name, dst)); bad = True
    if H.degree != deg or H.ndof != 3:
        ctx.fail("edge-result-degree:" + ename, case, "result degree/ndof %r/%r, source %d/3" % (H.degree, H.ndof, deg)); bad = True
    why = _shape_ok(H, deg)
    if why:
        ctx.fail("edge-result-shape:" + ename, case, why); bad = True
    if bad or not two_way:
        ctx.case(nontrivial=nt, cls=cls + ["edge-roundtrip:" + ("n/a(one-way)" if not two_way else "skipped(result malformed)")],
                 sample={"edge": ename, "mu": mu, "L": idx, "deg": deg, "src": case["kind"], "nnz": n_nz, "source_digest": digest(P)} if nt and deg >= 5 else None)
        return
    # ---- (2) mutual inverse
    if not finite:
        ctx.case(nontrivial=None, cls=cls + ["edge-roundtrip:skipped(non-finite source)"])
        return
    Q = snapshot(H.poly_H)
    try:
        back = H.to_state(src, point=pt)
        back = back[0] if isinstance(back, tuple) else back
        Bk = snapshot(back.poly_H)
        why = _shape_ok(back, deg)
    except Exception as e:
        ctx.case(nontrivial=nt, cls=cls + ["edge-roundtrip:blocked(reverse raised)"])
        ctx.fail("edge-raises:%s->%s:%s" % (dst, src, type(e).__name__), dict(case, edge=[dst, src], via=[src, dst]),
                 "reverse of %s: result of %s (degree %d).to_state(%r) raised %s: %s" % (ename, ename, deg, src, type(e).__name__, str(e)[:300]))
        return
    if why:
        ctx.case(nontrivial=nt, cls=cls + ["edge-roundtrip:skipped(reverse result malformed)"])
        ctx.fail("edge-result-shape:%s->%s" % (dst, src), dict(case, edge=[dst, src], via=[src, dst]), why)
        return
    r_f, r_b, cond, tcls = _edge_T(src, dst, pt)
    tol_f, tol_b = _edge_tol(src, dst), _edge_tol(dst, src)
    worst = None
    for d in range(deg + 1):
        bound = _rt_bound(d, P[d], Q[d], tol_f, tol_b, r_f, r_b, cond)
        diff = np.abs(Bk[d] - P[d])
        i = int(np.argmax(diff)) if diff.size else 0
        err = float(diff[i]) if diff.size else 0.0
        if not err <= bound:
            k = tuple(int(v) for v in tables(deg)[2][d][i])
            if worst is None or err / bound > worst[0]:
                worst = (err / bound, d, k, P[d][i], Bk[d][i], err, bound)
    ctx.case(nontrivial=nt, cls=cls + ["edge-roundtrip:checked", "edge-map:" + tcls],
             sample={"edge": ename, "mu": mu, "L": idx, "deg": deg, "src": case["kind"], "nnz": n_nz, "source_digest": digest(P)} if nt and deg >= 5 else None)
    if worst:
        _, d, k, a, b, err, bound = worst
        ctx.fail("not-inverse:%s->%s" % (src, dst) + "->" + src, case,
                 "%s then %s->%s does not give back P: coefficient of x^%r is %r, was %r (|diff|=%.3g, bound %.3g; degree %d, mu=%r L%d, %s source)" % (
                     ename, dst, src, k, complex(b), complex(a), err, bound, deg, mu, idx, case["kind"]))


# ------------------------------------------------------------------ (3) polynomial vs coordinates
POLYFN = ("_substitute_complex", "_substitute_real", "_polylocal2realmodal", "_polyrealmodal2local")


def _vec(draw, n, cplx, big=False):
    s = draw(st.sampled_from([1.0, 1.0, 0.5, 1e-2] + ([1e3, 1e-8] if big else [])))
    out = []

    def part():
        # exactly 0 is generated separately; other parts are pushed to >= 1e-4 of the scale (construction, not rejection) so that the
        # documented 1e-30 clean-up threshold of the coordinate functions stays far below the rounding tolerance
        v = draw(st.floats(-1.0, 1.0))
        return math.copysign(max(abs(v), 1e-4), v) * s
    for _ in range(n):
        z = draw(st.integers(0, 7)) == 0
        re = 0.0 if z else part()
        im = (0.0 if (z or draw(st.integers(0, 5)) == 0) else part()) if cplx else 0.0
        out.append([float(re), float(im)])
    return out


@st.composite
def polycoord_case(draw, ctx):
    fn = draw(st.sampled_from(POLYFN))
    deg = draw(_deg_strategy(ctx, lo=1))
    case = {"check": "polycoord", "fn": fn, "deg": deg, "poly": draw(poly_spec(deg, 0, cplx=draw(st.booleans()))),
            "xs": [_vec(draw, 6, draw(st.booleans())) for _ in range(3)]}
    if fn.startswith("_substitute"):
        case["mix"] = sorted(draw(st.sampled_from([[1, 2], [1, 2], [0, 1, 2], [0, 1, 2], [0], [1], [2], [0, 1], [0, 2], []])))
    else:
        case["mu"] = draw(mu_strategy()); case["idx"] = draw(st.integers(1, 2))
    return case


def _measure(f):
    """6x6 matrix of the (linear) coordinate function f, column by column from the basis vectors."""
    return np.array([np.asarray(f(np.eye(6)[j].copy()), dtype=np.complex128) for j in range(6)]).T


def eval_polycoord(case, ctx):
    T = lib()["T"]
    fn, deg = case["fn"], int(case["deg"])
    psi, clmo, E = tables(deg)
    blocks = build_blocks(case["poly"], deg)
    P = snapshot(blocks)
    import inspect
    tol_default = max(float(inspect.signature(getattr(T, fn)).parameters["tol"].default), 1e-14)
    try:
        if fn.startswith("_substitute"):
            mix = tuple(int(v) for v in case["mix"])
            same, rev = (T._solve_complex, T._solve_real) if fn == "_substitute_complex" else (T._solve_real, T._solve_complex)
            f_same = lambda x: same(x, mix_pairs=mix)
            f_rev = lambda x: rev(x, mix_pairs=mix)
            new = getattr(T, fn)(typed(blocks), deg, psi, clmo, mix_pairs=mix)
            cond = 1.0
            where = "mix_pairs=%r" % (mix,)
        else:
            pt = point(case["mu"], case["idx"])
            same, rev = (T._coordlocal2realmodal, T._coordrealmodal2local) if fn == "_polylocal2realmodal" else (T._coordrealmodal2local, T._coordlocal2realmodal)
            f_same = lambda x: same(pt, x)
            f_rev = lambda x: rev(pt, x)
            new = getattr(T, fn)(pt, typed(blocks), deg, psi, clmo)
            cond = float(np.linalg.cond(np.asarray(pt.normal_form_transform[0], dtype=float)))
            where = "mu=%r L%d" % (case["mu"], case["idx"])
        Q = snapshot(new)
        Tsame, Trev = _measure(f_same), _measure(f_rev)
    except Exception as e:
        ctx.case(cls="polycoord:raised")
        ctx.fail("polycoord-raises:%s:%s" % (fn, type(e).__name__), case, repr(e)[:400])
        return
    n_nz = nnz(P)
    ctx.case(nontrivial=("polycoord", fn, deg, digest(P), case.get("mix"), case.get("mu")) if (n_nz >= 20 and deg >= 3) else None,
             cls=["polycoord:" + fn, "polycoord-deg:%d" % deg])
    if len(Q) != deg + 1 or any(Q[d].shape != P[d].shape for d in range(deg + 1)):
        ctx.fail("polycoord-shape:" + fn, case, "result blocks %r" % ([q.shape for q in Q],)); return
    r_s = max(1.0, float(np.abs(Tsame).sum(axis=1).max()))
    r_r = max(1.0, float(np.abs(Trev).sum(axis=1).max()))
    for xv in case["xs"]:
        x = np.array([_cx(v) for v in xv], dtype=np.complex128)
        for form, xo, xn in (("A", x, np.asarray(f_same(x), dtype=np.complex128)), ("B", np.asarray(f_rev(x), dtype=np.complex128), x)):
            # P_new(xn) must equal P_old(xo)
            v_new, m_new = peval(Q, E, xn)
            v_old, m_old = peval(P, E, xo)
            m = max(1.0, float(np.max(np.abs(xn))), float(np.max(np.abs(xo))))
            tol = 64 * EPS * (m_new + m_old) + 1e-28
            for d in range(deg + 1):
                N = P[d].size
                Z = N - int(np.count_nonzero(Q[d]))
                S = float(np.sum(np.abs(P[d])))
                tol += m ** d * (tol_default * Z + (8 * EPS * (d + 2) * N + 64 * EPS * (d + 1) * cond) * (r_s * r_r) ** d * S)
            if not abs(v_new - v_old) <= tol:
                ctx.fail("poly-vs-coords:%s:%s" % (fn, "same-direction-map" if form == "A" else "reverse-map"), case,
                         "%s (%s, degree %d): P_new(%s) = %r but P_old(%s) = %r (|diff| %.3g, tolerance %.3g)" % (
                             fn, where, deg, "f(x)" if form == "A" else "y", v_new, "x" if form == "A" else "g(y)", v_old, abs(v_new - v_old), tol))
                return


# ------------------------------------------------------------------ (4) point maps
@st.composite
def pointmap_case(draw):
    fam = draw(st.sampled_from(["complex", "complex", "modal", "synodic", "synodic"]))
    case = {"check": "pointmap", "family": fam}
    if fam == "complex":
        case["mix"] = sorted(draw(st.sampled_from([[1, 2], [0, 1, 2], [0], [1], [2], [0, 1], [0, 2], []])))
        case["x"] = _vec(draw, 6, True, big=True)
    elif fam == "modal":
        case["mu"] = draw(mu_strategy()); case["idx"] = draw(st.integers(1, 5))
        if case["idx"] >= 4:   # no elliptic normal form above Routh's ratio (C04 documents the RuntimeError)
            case["mu"] = min(case["mu"], gen.ROUTH * 0.98)
        case["x"] = _vec(draw, 6, draw(st.booleans()), big=True)
    else:
        case["mu"] = draw(mu_strategy()); case["idx"] = draw(st.integers(1, 5))
        case["x"] = _vec(draw, 6, False, big=True)
    return case


def _affine(f):
    b = np.asarray(f(np.zeros(6)), dtype=float)
    A = np.array([np.asarray(f(np.eye(6)[j].copy()), dtype=float) - b for j in range(6)]).T
    return A, b


def eval_pointmap(case, ctx):
    T = lib()["T"]
    fam = case["family"]
    x = np.array([_cx(v) for v in case["x"]], dtype=np.complex128)
    nx = float(np.linalg.norm(x))
    nt = ("pointmap", fam, case.get("mix"), case.get("mu"), case.get("idx"), tuple(map(tuple, case["x"]))) if np.all(x != 0) else None
    try:
        if fam == "complex":
            mix = tuple(case["mix"])
            pairs = [("_solve_complex(_solve_real(x))", lambda v: T._solve_complex(T._solve_real(v, mix_pairs=mix), mix_pairs=mix)),
                     ("_solve_real(_solve_complex(x))", lambda v: T._solve_real(T._solve_complex(v, mix_pairs=mix), mix_pairs=mix))]
            tol = 64 * EPS * nx + 4e-30
            ctx.case(nontrivial=nt, cls=["pointmap:complex", "pointmap-mix:%r" % (mix,)])
            for name, h in pairs:
                y = np.asarray(h(x.copy()))
                if y.shape != (6,) or not np.max(np.abs(y - x)) <= tol:
                    ctx.fail("pointmap-not-identity:" + name, case, "mix_pairs=%r x=%r -> %r (tolerance %.3g)" % (mix, x.tolist(), y.tolist(), tol))
        elif fam == "modal":
            pt = point(case["mu"], case["idx"])
            C = np.asarray(pt.normal_form_transform[0], dtype=float)
            cond = float(np.linalg.cond(C))
            tol = 64 * EPS * cond * nx + 4e-30 * cond
            ctx.case(nontrivial=nt, cls=["pointmap:modal", "pointmap-L%d" % case["idx"]])
            for name, h in (("_coordlocal2realmodal(_coordrealmodal2local(x))", lambda v: T._coordlocal2realmodal(pt, T._coordrealmodal2local(pt, v))),
                            ("_coordrealmodal2local(_coordlocal2realmodal(x))", lambda v: T._coordrealmodal2local(pt, T._coordlocal2realmodal(pt, v)))):
                y = np.asarray(h(x.copy()))
                if y.shape != (6,) or not np.max(np.abs(y - x)) <= tol:
                    ctx.fail("pointmap-not-identity:%s:%s" % (name, "collinear" if case["idx"] <= 3 else "triangular"), case,
                             "mu=%r L%d cond(C)=%.3g x=%r -> %r (tolerance %.3g)" % (case["mu"], case["idx"], cond, x.tolist(), y.tolist(), tol))
        else:
            pt = point(case["mu"], case["idx"])
            col = case["idx"] <= 3
            l2s = (lambda v: T._local2synodic_collinear(pt, v)) if col else (lambda v: T._local2synodic_triangular(pt, v))
            s2l = (lambda v: T._synodic2local_collinear(pt, v)) if col else (lambda v: T._synodic2local_triangular(pt, v))
            kindn = "collinear" if col else "triangular"
            xr = x.real.copy()
            A, b = _affine(l2s)
            sv = np.linalg.svd(A, compute_uv=False)
            nA, nAi = float(sv[0]), float(1.0 / sv[-1])
            # offsets: the maps add/subtract the documented geometric constants one by one (mu, a | mu, 1/2, sqrt(3)/2), so the
            # rounding scale is the sum of their magnitudes, not the (possibly cancelling) net shift b
            beta = (abs(float(pt.mu)) + abs(float(pt.dynamics.a))) if col else (abs(float(pt.mu)) + 0.5 + math.sqrt(3.0) / 2.0)
            nb = max(float(np.linalg.norm(b)), beta)
            ctx.case(nontrivial=nt, cls=["pointmap:synodic", "pointmap-L%d" % case["idx"]])
            # local -> synodic -> local :  A^-1 ((A x + b) - b)
            y = np.asarray(s2l(l2s(xr.copy())), dtype=float)
            tol = 64 * EPS * nAi * (nA * nx + nb)
            if y.shape != (6,) or not np.max(np.abs(y - xr)) <= tol:
                ctx.fail("pointmap-not-identity:_synodic2local_%s(_local2synodic_%s(x))" % (kindn, kindn), case,
                         "mu=%r L%d x=%r -> %r (tolerance %.3g)" % (case["mu"], case["idx"], xr.tolist(), y.tolist(), tol))
            # synodic -> local -> synodic
            y = np.asarray(l2s(s2l(xr.copy())), dtype=float)
            tol = 64 * EPS * (nA * nAi * (nx + nb) + nb)
            if y.shape != (6,) or not np.max(np.abs(y - xr)) <= tol:
                ctx.fail("pointmap-not-identity:_local2synodic_%s(_synodic2local_%s(x))" % (kindn, kindn), case,
                         "mu=%r L%d s=%r -> %r (tolerance %.3g)" % (case["mu"], case["idx"], xr.tolist(), y.tolist(), tol))
    except Exception as e:
        ctx.case(cls="pointmap:raised")
        ctx.fail("pointmap-raises:%s:%s" % (fam, type(e).__name__), case, repr(e)[:400])


def eval_matrices(ctx):
    T = lib()["T"]
    for n in range(4):
        for mix in itertools.combinations(range(3), n):
            M = np.asarray(T._M(mix)); Mi = np.asarray(T._M_inv(mix))
            case = {"check": "matrix", "mix": list(mix)}
            ctx.case(nontrivial=("matrix", mix) if n >= 1 else None, cls="matrix:%d-pairs" % n)
            for name, D in (("M@M_inv", M @ Mi - np.eye(6)), ("M_inv@M", Mi @ M - np.eye(6))):
                if M.shape != (6, 6) or not np.max(np.abs(D)) <= 16 * EPS:
                    ctx.fail("matrix-not-inverse:" + name, case, "mix_pairs=%r max|%s - I| = %.3g" % (mix, name, float(np.max(np.abs(D)))))
            D = M.T @ J6 @ M - J6
            if not np.max(np.abs(D)) <= 16 * EPS:
                ctx.fail("matrix-not-symplectic:_M", case, "mix_pairs=%r max|M^T J M - J| = %.3g (docstring: preserves the canonical structure)" % (mix, float(np.max(np.abs(D)))))


# ------------------------------------------------------------------ (5) request order
@st.composite
def order_case(draw, ctx):
    F = forms()
    ops = list(draw(st.permutations(F)))
    ops = ops[:draw(st.integers(2, len(F)))]
    for _ in range(draw(st.integers(0, 2))):          # repeated requests
        ops.insert(draw(st.integers(0, len(ops))), draw(st.sampled_from(F)))
    for _ in range(draw(st.integers(0, 2))):          # cache_clear() in between
        ops.insert(draw(st.integers(1, len(ops))), "<clear>")
    return {"check": "order", "mu": draw(st.sampled_from([EM, SE, EM, SE, draw(gen.mu())])), "idx": draw(st.integers(1, 2)),
            "deg": draw(st.sampled_from(ctx.scale([2, 3, 4, 4, 5, 6], [2, 3, 4, 5, 6, 7, 8]))), "ops": ops}


def eval_order(case, ctx):
    L = lib()
    mu, idx, deg = float(case["mu"]), int(case["idx"]), int(case["deg"])
    dist = graph_dist()
    canon = sorted(forms(), key=lambda f: (dist.get(f, 99), f))
    try:
        pt = point(mu, idx)
        ref_pl = L["Pipeline"](pt, deg)
        ref = {f: snapshot(ref_pl.get_hamiltonian(f).poly_H) for f in canon}
    except Exception as e:
        ctx.case(cls="order:reference-raised")
        ctx.fail("pipeline-raises:canonical-order:%s" % type(e).__name__, case, repr(e)[:400])
        return
    gets = [o for o in case["ops"] if o != "<clear>"]
    ctx.case(nontrivial=("order", "%.5e" % mu, idx, deg, tuple(case["ops"])) if gets != canon[:len(gets)] else None,
             cls=["order-deg:%d" % deg, "order:with-clear" if "<clear>" in case["ops"] else "order:no-clear", "order-first:" + (gets[0] if gets else "-")])
    pl = L["Pipeline"](pt, deg)
    for n, op in enumerate(case["ops"]):
        if op == "<clear>":
            pl.cache_clear()
            continue
        try:
            H = pl.get_hamiltonian(op)
            got = snapshot(H.poly_H)
        except Exception as e:
            ctx.fail("pipeline-raises:request-order:%s:%s" % (op, type(e).__name__), case, "request #%d %r after %r: %r" % (n, op, case["ops"][:n], e))
            return
        if H.name != op:
            ctx.fail("pipeline-wrong-form:" + op, case, "get_hamiltonian(%r) returned a Hamiltonian named %r" % (op, H.name)); return
        scale = 1.0 + max(float(np.max(np.abs(b))) if b.size else 0.0 for b in ref[op])
        tol = math.sqrt(EPS) * scale
        if not math.isfinite(scale):
            continue
        for d in range(deg + 1):
            if got[d].shape != ref[op][d].shape or not np.max(np.abs(got[d] - ref[op][d])) <= tol:
                ctx.fail("pipeline-order-dependent:" + op, case,
                         "form %r requested as #%d of %r differs from the canonical-order result at degree %d (max diff %.3g, tolerance %.3g)" % (
                             op, n, case["ops"], d, float(np.max(np.abs(got[d] - ref[op][d]))) if got[d].shape == ref[op][d].shape else float("nan"), tol))
                return


# ------------------------------------------------------------------ self tests / run / replay
def _selftest():
    """The harness' own pieces: evaluator and block builder against the exact dictionary polynomials."""
    deg = 4
    psi, clmo, E = tables(deg)
    spec = {"terms": [[1, 0, 2, 0, 1, 0, 0.5, -0.25], [0, 0, 0, 0, 0, 0, 2.0, 0.0], [0, 3, 0, 0, 0, 0, -1.0, 1.0]], "dense": {"dd": 2, "base": [[1.0, 0.0], [0.0, 2.0]]}}
    blocks = build_blocks(spec, deg)
    p = R.to_dict(blocks, clmo)
    x = [R.CF(1, 2), R.CF(-1, 0), R.CF(0, 1), R.CF(2, -1), R.CF(1, 1), R.CF(-2, 0)]
    want = complex(R.evaluate(p, x))
    got, maj = peval(blocks, E, np.array([complex(v) for v in x]))
    if abs(got - want) > 1e-12 * maj or nnz(blocks) != 3 + int(psi[6, 2]):
        raise HarnessError("own evaluator/builder disagrees with the exact dictionary polynomial: %r vs %r" % (got, want))
    # oracle for a substitution: P(Tx) by exact arithmetic equals evaluating P at T x
    Tm = [[(1 if i == j else 0) + (2 if (i + j) % 5 == 0 else 0) for j in range(6)] for i in range(6)]
    q = R.subst(p, Tm)
    xe = [R.CF(1, 0), R.CF(0, 1), R.CF(1, 1), R.CF(2, 0), R.CF(0, -1), R.CF(-1, 1)]
    Tx = [sum((xe[j] * Tm[i][j] for j in range(6)), R.CF(0, 0)) for i in range(6)]
    if not R.evaluate(q, xe) == R.evaluate(p, Tx):
        raise HarnessError("polyref.subst self-test failed")
    if len(edges()) < 1 or "physical" not in forms():
        raise HarnessError("conversion registry is empty / has no 'physical' form")


def run(ctx):
    _selftest()
    E = edges()
    ctx.extra["registry_edges"] = len(E) if ctx.shard == 0 else 0
    ctx.extra["edge_names"] = ["%s->%s" % e for e in E] if ctx.shard == 0 else []
    if ctx.shard == 0:
        eval_matrices(ctx)
        _probes(ctx)
    if ctx.shard == 1 % ctx.nshards:
        _replay_regressions(ctx)
    n_edge = ctx.scale(140, 1500)
    for (src, dst) in E:            # every edge, in every run
        explore(ctx, "edge:%s->%s" % (src, dst), edge_case(ctx, src, dst), eval_edge, max(1, ctx.share(n_edge)), shrink_calls=ctx.scale(25, 120))
    explore(ctx, "polycoord", polycoord_case(ctx), eval_polycoord, ctx.share(ctx.scale(800, 20000)), shrink_calls=ctx.scale(40, 300))
    explore(ctx, "pointmap", pointmap_case(), eval_pointmap, ctx.share(ctx.scale(4000, 200000)), shrink_calls=ctx.scale(200, 2000))
    explore(ctx, "order", order_case(ctx), eval_order, ctx.share(ctx.scale(48, 500)), shrink_calls=ctx.scale(6, 40))
    ctx.exhaustive = None


def _replay_regressions(ctx):
    from ..runner import ROOT
    rdir = os.path.join(ROOT, "replays", PROPERTY)
    n = 0
    if os.path.isdir(rdir):
        for fn in sorted(os.listdir(rdir)):
            if fn.startswith("reg-") and fn.endswith(".json"):
                with open(os.path.join(rdir, fn)) as f:
                    replay(ctx, json.load(f)["payload"])
                n += 1
    ctx.extra["regression_replays"] = n


def _probes(ctx):
    """Deterministic members of the domain that every run must contain: each edge once with the Earth-Moon L1 pipeline
    Hamiltonian of degree 4 and once with a fixed generated-style polynomial."""
    spec = {"terms": [[2, 0, 0, 1, 0, 0, 0.75, 0.0], [0, 1, 1, 0, 1, 0, -0.5, 0.25], [0, 0, 0, 0, 0, 3, 1.0, 0.0], [1, 1, 1, 1, 0, 0, 0.125, -1.0]],
            "dense": {"dd": 3, "base": [[0.5, 0.0], [-0.25, 0.5], [1.0, -1.0]]}}
    for (src, dst) in edges():
        eval_edge({"check": "edge", "edge": [src, dst], "mu": EM, "idx": 1, "deg": 4, "kind": "pipeline", "poly": None}, ctx)
        eval_edge({"check": "edge", "edge": [src, dst], "mu": SE, "idx": 2, "deg": 4, "kind": "generic", "poly": spec}, ctx)


def replay(ctx, payload):
    chk = payload.get("check")
    if chk == "edge":
        if "via" in payload:      # stored by the round-trip clause: evaluate the forward edge, the reverse is reached through it
            payload = dict(payload, edge=payload["via"])
            payload.pop("via")
        eval_edge(payload, ctx)
    elif chk == "polycoord":
        eval_polycoord(payload, ctx)
    elif chk == "pointmap":
        eval_pointmap(payload, ctx)
    elif chk == "order":
        eval_order(payload, ctx)
    elif chk == "matrix":
        eval_matrices(ctx)
    else:
        raise HarnessError("unknown replay payload %r" % (chk,))
