"""C09 — centre-manifold points map to synodic states consistently in position and energy.

Generated: (system: every catalogue pair through System.from_bodies / generated mu in [1e-6, 0.2] through
System.from_mu) x (L1 | L2) x degree N; a batch of directions u on S^3 (all four components >= 0.14 in modulus)
and a ladder of radii r_k = r0 * step^-k that is walked down until the residuals reach their rounding floor;
one section conversion per section coordinate and manifold (two for N=10) at generated section points.

Oracles (nothing below uses the library's energy or polynomial evaluation):
 (a) round trip   F_rt(r) = rms_u | to_cm(to_synodic(r u)) - r u |
 (b) energy       F_en(r) = rms_u | [E(to_synodic(r u)) - E(L_i)] / gamma^2 - H_cm,N(r u) |
     E = 40-digit Jacobi energy (own formula, same as vf.oracle.cr3bp.energy), H_cm,N = coefficients of
     cm.hamiltonian(N) unpacked with vf.oracle.polyref and evaluated by this module at (0,q2,q3,0,p2,p3).
     Law: the best of the (up to three) finest log-ratios of F above the rounding floor is >= N+1-0.5.
 (c) section      s = to_synodic(pt2, E, c) with E := H_cm,N(p4), p4 a constructed CM point on the section
     (p4[c] = 0, conjugate coordinate > 0, which is the branch the library documents): s must be the image of
     p4 under the 4-D path up to the root-solver tolerance, to_cm(s) must lie on the section, reproduce pt2
     and the energy level, and E(s) must agree with E up to the (b)-residual of that very point.
"""
from __future__ import annotations

import logging
import math
import os

import mpmath as mp
import numpy as np
from hypothesis import strategies as st

from .. import gen
from ..hyp import explore
from ..oracle import cr3bp as O
from ..oracle import polyref as P
from ..runner import HarnessError

PROPERTY = "C09"
LEVEL = "exploration"
SHARDS = {"quick": 12, "thorough": 16}
# one numba/OpenMP thread per shard: the Lie-series kernels synchronise at barriers and a busy machine turns every barrier of a
# 2-thread team into a scheduler quantum (measured: 1.5 s -> 50 s per case with 8 shards x 2 threads)
NUMBA_THREADS = {"quick": 1, "thorough": 1}
os.environ.setdefault("OMP_WAIT_POLICY", "PASSIVE")
RULE = ("ladder case = (system, L1|L2, degree N, batch of directions u on S^3 with every |u_i| >= 0.14, r0); residuals are the "
        "RMS over the batch at radii r0*step^-k (step 2 for N<=6, sqrt2 above) walked down to the rounding floor; non-trivial = "
        "both the round-trip and the energy residual have >= 2 consecutive log-ratios above 16x their rounding floor (>= 3 radii); "
        "section case = (manifold, section coordinate, constructed CM point on the section); non-trivial = this module's own "
        "evaluator finds exactly one root of H_cm = E in the library's bracket [0, 1e-3*2^k]; distinct by full input")
ASSUMPTIONS = [
    "law: best of the (<=3) finest consecutive log-ratios of the batch-RMS residual >= N+1-0.5; only radii whose residual is >= 16x the rounding floor are used; fewer than 2 ratios => counted trivial, never failed; a round trip below the floor at every radius is accepted (exact inverse)",
    "rounding floor round trip: 2 eps |X_L| ||C^-1||_2 / gamma + 8 eps r (the synodic abscissa is stored with absolute error eps|X|, the local frame divides by gamma)",
    "rounding floor energy: [2 eps |X_L| max(1,||Hess Omega||_2) + 2 |grad E(to_synodic(0))|] ||C||_2 r / gamma + 8 eps sum|terms of H_cm| (the second term is the library's residual in locating the equilibrium, measured with the oracle in 40 digits; accuracy of the equilibrium itself is property C04)",
    "E(L_i) is evaluated at (point.position, 0); gamma = point.dynamics.gamma; C, C^-1 = point.normal_form_transform enter the tolerances only",
    "section points are constructed with the conjugate coordinate > 0 (the library solves for the non-negative branch only) and energy := own evaluation of H_cm,N at the constructed point, so the root exists by construction; root tolerance |dm| <= 1e-12 + 4 eps b + 32 eps sum|terms| / |dH/dm| (Brent xtol=1e-12 in solve_missing_coord)",
    "section tolerances on to_cm(s): 2x the measured 4-D round-trip error of the constructed point (its law is oracle (a)) + the root tolerance mapped through ||C^-1||/gamma",
    "not asserted (outside the statement): that the synodic state is the dynamical push-forward of the CM point (the library's local->synodic map mirrors y and vx, cf. design note N-1), and the accuracy of the hyperbolic (q1,p1) offset of the state, which enters neither law below order N+1",
]
logging.disable(logging.CRITICAL)
EPS = 2.220446049250313e-16
USABLE = 16.0
IDX4 = {"q2": 0, "p2": 1, "q3": 2, "p3": 3}
CONJ = {"q2": "p2", "p2": "q2", "q3": "p3", "p3": "q3"}
# documented in _CM_SECTION_TABLE / README: the plane of a q3|p3 section is (q2,p2), of a q2|p2 section (q3,p3)
PLANE = {"q3": ("q2", "p2"), "p3": ("q2", "p2"), "q2": ("q3", "p3"), "p2": ("q3", "p3")}
EMBED = (1, 4, 2, 5)          # [q2,p2,q3,p3] -> slots of (q1,q2,q3,p1,p2,p3)


# ------------------------------------------------------------------ oracle pieces
def _mpf(v):
    return mp.mpf(float(v))


def energy_mp(s, mu):
    """Jacobi energy v^2/2 - Omega in 40 digits (inputs are doubles, taken exactly)."""
    with mp.workdps(40):
        x, y, z, vx, vy, vz = [_mpf(v) for v in s]
        m = _mpf(mu)
        r1 = mp.sqrt((x + m) ** 2 + y * y + z * z)
        r2 = mp.sqrt((x - 1 + m) ** 2 + y * y + z * z)
        return (vx * vx + vy * vy + vz * vz) / 2 - ((x * x + y * y) / 2 + (1 - m) / r1 + m / r2)


def grad_energy_mp(s, mu):
    """|grad E| at s in 40 digits (grad_x E = -grad Omega, grad_v E = v)."""
    with mp.workdps(40):
        x, y, z, vx, vy, vz = [_mpf(v) for v in s]
        m = _mpf(mu)
        r1 = mp.sqrt((x + m) ** 2 + y * y + z * z)
        r2 = mp.sqrt((x - 1 + m) ** 2 + y * y + z * z)
        gx = x - (1 - m) * (x + m) / r1 ** 3 - m * (x - 1 + m) / r2 ** 3
        gy = y - (1 - m) * y / r1 ** 3 - m * y / r2 ** 3
        gz = -(1 - m) * z / r1 ** 3 - m * z / r2 ** 3
        return float(mp.sqrt(gx * gx + gy * gy + gz * gz + vx * vx + vy * vy + vz * vz))


class Poly:
    """Own evaluator of a 6-variable polynomial given as {exponents: coefficient}."""

    def __init__(self, d):
        keys = sorted(d.keys())
        self.K = np.array(keys, dtype=np.int64).reshape(len(keys), 6)
        c = np.array([complex(P.tofloat(d[k], True)) for k in keys], dtype=complex)
        self.cmax = float(np.max(np.abs(c))) if len(c) else 0.0
        self.imag = float(np.max(np.abs(c.imag))) if len(c) else 0.0
        self.c = c.real.copy()
        self.hyper = int(np.sum((self.K[:, 0] > 0) | (self.K[:, 3] > 0))) if len(c) else 0

    @staticmethod
    def _x6(p4):
        x = np.zeros(6)
        for j, slot in enumerate(EMBED):
            x[slot] = float(p4[j])
        return x

    def _mono(self, x, K):
        with np.errstate(all="ignore"):
            return np.prod(np.where(K > 0, np.power(x[None, :], K), 1.0), axis=1)

    def value(self, p4):
        return float(np.sum(self.c * self._mono(self._x6(p4), self.K)))

    def abssum(self, p4):
        return float(np.sum(np.abs(self.c) * self._mono(np.abs(self._x6(p4)), self.K)))

    def univariate(self, p4, j):
        """Coefficients (ascending) of t -> value(p4 with component j replaced by t)."""
        slot = EMBED[j]
        x = self._x6(p4)
        x[slot] = 1.0
        K = self.K.copy()
        e = K[:, slot].copy()
        K[:, slot] = 0
        t = self.c * self._mono(x, K)
        out = np.zeros(int(e.max()) + 1 if len(e) else 1)
        np.add.at(out, e, t)
        while len(out) > 1 and out[-1] == 0.0:
            out = out[:-1]
        return out

    def grad4(self, p4):
        x = self._x6(p4)
        g = np.zeros(4)
        for j, slot in enumerate(EMBED):
            m = self.K[:, slot] > 0
            if not np.any(m):
                continue
            K = self.K[m].copy()
            k = K[:, slot].astype(float)
            K[:, slot] -= 1
            g[j] = float(np.sum(self.c[m] * k * self._mono(x, K)))
        return g


def _selftest():
    # evaluator against a hand-expanded polynomial: 2 q2^2 + 3 q2 p3 - p2 q3^3 + 5
    d = {(0, 2, 0, 0, 0, 0): 2, (0, 1, 0, 0, 0, 1): 3, (0, 0, 3, 0, 1, 0): -1, (0,) * 6: 5, (1, 0, 0, 1, 0, 0): 7}
    pl = Poly(d)
    p4 = [0.5, -2.0, 3.0, 0.25]     # q2,p2,q3,p3
    want = 2 * 0.25 + 3 * 0.5 * 0.25 - (-2.0) * 27.0 + 5
    assert abs(pl.value(p4) - want) < 1e-13, (pl.value(p4), want)
    g = pl.grad4(p4)
    wantg = [4 * 0.5 + 3 * 0.25, -27.0, -3 * (-2.0) * 9.0, 3 * 0.5]
    assert np.max(np.abs(g - np.array(wantg))) < 1e-12, (g, wantg)
    assert pl.hyper == 1
    co = pl.univariate(p4, 2)       # in q3: 2*.25 + 3*.5*.25 + 5 + 2 t^3
    assert np.max(np.abs(co - np.array([0.5 + 0.375 + 5, 0.0, 0.0, 2.0]))) < 1e-13, co
    # 40-digit energy against the double-precision oracle
    s = [0.83, 0.02, -0.01, 0.03, -0.04, 0.05]
    assert abs(float(energy_mp(s, 0.0121)) - O.energy(s, 0.0121)) < 1e-14
    h = 1e-6
    ge = np.array([(O.energy(np.array(s) + h * np.eye(6)[k], 0.0121) - O.energy(np.array(s) - h * np.eye(6)[k], 0.0121)) / (2 * h) for k in range(6)])
    assert abs(grad_energy_mp(s, 0.0121) - np.linalg.norm(ge)) < 1e-7


# ------------------------------------------------------------------ manifolds (one per (system, point, N) and process)
_MAN = {}


class Man:
    pass


def _sys_key(case):
    sy = case["sys"]
    return ("bodies", sy["primary"], sy["secondary"]) if sy["via"] == "bodies" else ("mu", repr(float(sy["mu"])))


def manifold(case):
    from hiten import System
    key = (_sys_key(case), int(case["point"]), int(case["N"]), case.get("via_degree"))
    m = _MAN.get(key)
    if m is not None:
        return m
    if len(_MAN) >= 6:
        _MAN.pop(next(iter(_MAN)))
    sy = case["sys"]
    sysm = System.from_bodies(sy["primary"], sy["secondary"]) if sy["via"] == "bodies" else System.from_mu(float(sy["mu"]))
    L = sysm.get_libration_point(int(case["point"]))
    N = int(case["N"])
    n0 = case.get("via_degree")
    if n0 is not None and int(n0) != N:
        # same object, used at degree n0 first (conversion forces its pipeline), then switched to N through the public setter
        cm = L.get_center_manifold(degree=int(n0))
        cm.compute()
        cm.to_cm(cm.to_synodic(np.array([0.01, 0.0, 0.01, 0.0])))
        cm.degree = N
    else:
        cm = L.get_center_manifold(degree=N)
    cm.compute()
    ham = cm.hamiltonian(N)
    m = Man()
    m.key = key; m.N = N; m.cm = cm; m.mu = float(sysm.mu); m.gamma = float(L.dynamics.gamma)
    m.pos = np.asarray(L.position, dtype=float)
    m.poly = Poly(P.to_dict(ham.poly_H, ham.dynamics.clmo))
    C, Cinv = L.normal_form_transform
    m.nC = float(np.linalg.norm(np.asarray(C, float), 2)); m.nCi = float(np.linalg.norm(np.asarray(Cinv, float), 2))
    m.hess = max(1.0, float(np.linalg.norm(O.hess_omega(m.pos[0], m.pos[1], m.pos[2], m.mu), 2)))
    m.EL = energy_mp(np.concatenate([m.pos, np.zeros(3)]), m.mu)
    m.s0 = np.asarray(cm.to_synodic(np.zeros(4)), dtype=float)
    m.g0 = grad_energy_mp(m.s0, m.mu)
    m.X = max(abs(float(m.pos[0])), 1e-3)
    _MAN[key] = m
    return m


def erel(m, s):
    with mp.workdps(40):
        return float((energy_mp(s, m.mu) - m.EL) / _mpf(m.gamma) ** 2)


def floor_rt(m, r):
    return 2 * EPS * m.X * m.nCi / m.gamma + 8 * EPS * r


def floor_en(m, r, habs):
    return (2 * EPS * m.X * m.hess + 2 * m.g0) * m.nC * r / m.gamma + 8 * EPS * habs


# ------------------------------------------------------------------ generators
_mag = st.floats(0.25, 1.0)
_sgn = st.sampled_from([-1.0, 1.0])
_NDIRS = {4: 6, 6: 5, 8: 4, 10: 3}
_NSEC = {4: 4, 6: 4, 8: 4, 10: 2}
_LADDER = {4: (2.0, 8, 0.4), 6: (2.0, 6, 0.4), 8: (math.sqrt(2.0), 7, 0.5), 10: (math.sqrt(2.0), 6, 0.56)}   # step, max rows, nominal r0


@st.composite
def _direction(draw, n):
    return [draw(_mag) * draw(_sgn) for _ in range(n)]


@st.composite
def _system(draw):
    kind = draw(st.sampled_from(["bodies", "bodies", "mu", "mu", "mu"]))
    if kind == "bodies":
        cat = gen.catalogue_pairs()
        k = draw(st.integers(0, len(cat) + 3))
        # Earth-Moon and Sun-Earth (the systems every example uses) get extra weight
        p, s = (("earth", "moon"), ("sun", "earth"))[k % 2] if k >= len(cat) else cat[k][:2]
        return {"via": "bodies", "primary": p, "secondary": s}
    lo, hi = math.log(1e-6), math.log(0.2)
    return {"via": "mu", "mu": float(math.exp(draw(st.floats(lo, hi))))}


@st.composite
def cm_case(draw, N):
    secs = []
    coords = ["q2", "p2", "q3", "p3"]
    if _NSEC[N] < 4:
        first = draw(st.sampled_from(["q2", "p2"]))
        coords = [first, draw(st.sampled_from(["q3", "p3"]))]
    for c in coords:
        secs.append({"coord": c, "r": float(math.exp(draw(st.floats(math.log(0.02), math.log(0.3))))),
                     "conj": draw(_mag), "plane": draw(_direction(2))})
    return {"sys": draw(_system()), "point": draw(st.integers(1, 2)), "N": N,
            # history variant: the manifold object was first built and used at another degree, then `degree` was set to N
            "via_degree": draw(st.sampled_from([None, None, 3, 5])),
            "r0": _LADDER[N][2] * draw(st.floats(0.8, 1.25)),
            "dirs": [draw(_direction(4)) for _ in range(_NDIRS[N])], "sections": secs}


# ------------------------------------------------------------------ evaluation
def _band(mu):
    return "mu<1e-7" if mu < 1e-7 else "mu<1e-5" if mu < 1e-5 else "mu<1e-3" if mu < 1e-3 else "mu<0.04" if mu < 0.04 else "mu>=0.04"


def _ladder_only(case):
    """Payload for a ladder verdict: the same case without its section conversions."""
    return dict(case, sections=[])


def _convert(ctx, case, m, p4, tag):
    """(s, q) through the public API; records a verdict and returns None on an exception / non-finite output."""
    try:
        s = np.asarray(m.cm.to_synodic(np.asarray(p4, dtype=float)), dtype=float)
    except Exception as e:
        ctx.fail("to_synodic-4d:raises:%s" % type(e).__name__, case, "%s to_synodic(%r): %s" % (tag, list(map(float, p4)), str(e)[:300]))
        return None
    if s.shape != (6,) or not np.all(np.isfinite(s)):
        ctx.fail("to_synodic-4d:not-a-finite-6-vector", case, "%s to_synodic(%r) = %r" % (tag, list(map(float, p4)), s))
        return None
    try:
        q = np.asarray(m.cm.to_cm(s), dtype=float)
    except Exception as e:
        ctx.fail("to_cm:raises:%s" % type(e).__name__, case, "%s to_cm(%r): %s" % (tag, s.tolist(), str(e)[:300]))
        return None
    if q.shape != (4,) or not np.all(np.isfinite(q)):
        ctx.fail("to_cm:not-a-finite-4-vector", case, "%s to_cm(%r) = %r" % (tag, s.tolist(), q))
        return None
    return s, q


def _law(rows, which, N, step):
    """rows: list of (r, F, floor).  Returns (ratios_used, best) from the finest consecutive usable pairs."""
    ok = [F >= USABLE * fl and F > 0 for (_, F, fl) in rows]
    ratios = []
    for k in range(len(rows) - 1):
        if ok[k] and ok[k + 1]:
            ratios.append(math.log(rows[k][1] / rows[k + 1][1]) / math.log(step))
    used = ratios[-3:]
    return used, (max(used) if used else None), sum(ok)


def eval_case(case, ctx):
    N = int(case["N"])
    try:
        m = manifold(case)
    except Exception as e:
        ctx.case(cls=["N=%d" % N, "compute-raised"])
        ctx.fail("compute:raises:%s" % type(e).__name__, case, "building the degree-%d centre manifold raised %s: %s" % (N, type(e).__name__, str(e)[:300]))
        return
    pl = m.poly
    if pl.imag > 1e-9 * max(pl.cmax, 1e-300):
        ctx.fail("cm-hamiltonian:complex-coefficients", case, "max |Im coefficient| = %.3g (max |coefficient| %.3g)" % (pl.imag, pl.cmax))
    step, kmax, _ = _LADDER[N]
    dirs = []
    for d in case["dirs"]:
        u = np.array(d, dtype=float)
        dirs.append(u / np.linalg.norm(u))
    r0 = float(case["r0"])
    rt_rows, en_rows, table = [], [], []
    broken = False
    if case.get("ladder") is False:      # replay of a section verdict
        kmax = 0
    for k in range(kmax):
        r = r0 * step ** (-k)
        e_rt, e_en, habs = [], [], 0.0
        for u in dirs:
            p = r * u
            out = _convert(ctx, _ladder_only(case), m, p, "ladder r=%.4g" % r)
            if out is None:
                broken = True
                break
            s, q = out
            e_rt.append(float(np.linalg.norm(q - p)))
            e_en.append(erel(m, s) - pl.value(p))
            habs = max(habs, pl.abssum(p))
        if broken:
            break
        F_rt = float(np.sqrt(np.mean(np.square(e_rt)))); F_en = float(np.sqrt(np.mean(np.square(e_en))))
        f_rt = floor_rt(m, r); f_en = floor_en(m, r, habs)
        rt_rows.append((r, F_rt, f_rt)); en_rows.append((r, F_en, f_en))
        table.append("r=%.4g rt=%.2e(floor %.1e) en=%.2e(floor %.1e)" % (r, F_rt, f_rt, F_en, f_en))
        if k >= 2 and F_rt < USABLE * f_rt and F_en < USABLE * f_en:
            break
    sysk = _sys_key(case)
    cls = ["N=%d" % N, "L%d" % int(case["point"]), "sys:" + case["sys"]["via"], _band(m.mu)]
    if broken:
        ctx.case(cls=cls + ["ladder:conversion-failed"])
    elif kmax > 0:
        rt_used, rt_best, rt_ok = _law(rt_rows, "rt", N, step)
        en_used, en_best, en_ok = _law(en_rows, "en", N, step)
        exact_rt = rt_ok == 0
        nt = None
        if len(en_used) >= 2 and (len(rt_used) >= 2 or exact_rt):
            nt = ("ladder", sysk, int(case["point"]), N, repr(case["dirs"]), repr(r0))
        cls += ["rt:ratios=%d" % len(rt_used), "en:ratios=%d" % len(en_used)]
        if exact_rt:
            cls.append("rt:below-floor-everywhere")
        if m.g0 * 2 > 2 * EPS * m.X * m.hess:
            cls.append("en-floor:equilibrium-residual-dominates")
        ctx.case(nontrivial=nt, cls=cls,
                 sample={"sys": case["sys"], "point": case["point"], "N": N, "gamma": m.gamma, "ladder": table,
                         "rt_ratios": rt_used, "en_ratios": en_used} if nt and ctx.evaluations % 7 == 0 else None)
        want = N + 1 - 0.5
        for name, used, best in (("roundtrip", rt_used, rt_best), ("energy", en_used, en_best)):
            if len(used) >= 2:
                ex = ctx.extra.setdefault("min_slope_minus_order_per_shard:" + name, [99.0])
                ex[0] = min(ex[0], best - (N + 1))
                if best < want:
                    kind = "gross" if best < 2.5 else "order-deficit"
                    ctx.fail("%s-law:N%d:%s" % (name, N, kind), _ladder_only(case),
                             "%s residual (RMS over %d directions) decays with log-ratio %.2f < N+1-0.5 = %.1f (finest ratios %s); %s at L%d mu=%.6g gamma=%.4g; %s"
                             % (name, len(dirs), best, want, ["%.2f" % v for v in used], "degree %d" % N, int(case["point"]), m.mu, m.gamma, "; ".join(table)))
    # ---- (c) section conversions
    for sec in case["sections"]:
        # payload of a section verdict: the manifold, one direction (unused by the section oracle) and that one section
        eval_section(dict(case, dirs=case["dirs"][:1], sections=[sec], ladder=False), sec, m, ctx)


def eval_section(case, sec, m, ctx):
    pl = m.poly; N = m.N
    c = sec["coord"]; cj = CONJ[c]; pa, pb = PLANE[c]
    v = np.zeros(4)
    v[IDX4[cj]] = float(sec["conj"]); v[IDX4[pa]] = float(sec["plane"][0]); v[IDX4[pb]] = float(sec["plane"][1])
    p4 = float(sec["r"]) * v / np.linalg.norm(v)
    p4[IDX4[c]] = 0.0
    mtrue = float(p4[IDX4[cj]])
    E = pl.value(p4)
    habs = pl.abssum(p4)
    g = pl.grad4(p4)
    dHdm = abs(float(g[IDX4[cj]]))
    # root existence according to the own evaluator: residual(0) <= 0 and the library's doubling bracket 1e-3*2^k
    # (documented defaults of solve_missing_coord) reaches a point >= m with positive residual
    p_lo = p4.copy(); p_lo[IDX4[cj]] = 0.0
    r_lo = pl.value(p_lo) - E
    b = 1e-3
    while b < mtrue:
        b *= 2.0
    p_hi = p4.copy(); p_hi[IDX4[cj]] = b
    r_hi = pl.value(p_hi) - E
    # exactly one real root of t -> H(.., conj=t, ..) - E in [0, b] => the bracketed root is the constructed one
    co = pl.univariate(p4, IDX4[cj])
    co[0] -= E
    rts = np.roots(co[::-1]) if len(co) > 1 else np.array([])
    sc = max(b, 1e-300)
    inside = [z for z in rts if abs(z.imag) <= 1e-6 * sc and -1e-6 * sc <= z.real <= b * (1 + 1e-6)]
    near = [z for z in rts if abs(z.imag) <= 1e-2 * sc and -1e-2 * sc <= z.real <= b * 1.01]
    mono = len(inside) == 1 and len(near) == 1 and abs(inside[0].real - mtrue) <= 1e-6 * sc
    margin = 64 * EPS * habs
    bracketed = (r_lo < -margin) and (r_hi > margin) and mono and dHdm > 0
    cls = ["section:" + c, "section:" + ("vertical" if c in ("q3", "p3") else "planar"), "section:N=%d" % N]
    nt = ("section", m.key, c, repr(p4.tolist())) if bracketed else None
    ctx.case(nontrivial=nt, cls=cls + ([] if bracketed else ["section:root-not-bracketed-by-construction"]))
    if not bracketed:
        return
    pt2 = [float(p4[IDX4[pa]]), float(p4[IDX4[pb]])]
    tag = "L%d mu=%.6g degree %d section %s=0, plane (%s,%s)=%r, energy=%.17g (constructed point %r)" % (
        int(case["point"]), m.mu, N, c, pa, pb, pt2, E, p4.tolist())
    try:
        s = np.asarray(m.cm.to_synodic(pt2, energy=E, section_coord=c), dtype=float)
    except Exception as e:
        ctx.fail("section:%s:raises:%s" % (c, type(e).__name__), case, "%s: %s" % (tag, str(e)[:300]))
        return
    if s.shape != (6,) or not np.all(np.isfinite(s)):
        ctx.fail("section:%s:not-a-finite-6-vector" % c, case, "%s -> %r" % (tag, s))
        return
    out = _convert(ctx, case, m, p4, "section reference")
    if out is None:
        return
    sd, qd = out
    r = float(np.linalg.norm(p4))
    e_rt = float(np.linalg.norm(qd - p4))
    dm = 1e-12 + 4 * EPS * b + 32 * EPS * habs / dHdm
    tol_s = 3.0 * m.gamma * m.nC * dm + 8 * EPS * (1.0 + m.X)
    d_s = float(np.max(np.abs(s - sd)))
    if not d_s <= tol_s:
        ctx.fail("section:%s:state-differs-from-4d-image" % c, case,
                 "%s: max|to_synodic(pt2,E,c) - to_synodic(p4)| = %.3g > %.3g; section path %r, 4-D path %r" % (tag, d_s, tol_s, s.tolist(), sd.tolist()))
    try:
        q = np.asarray(m.cm.to_cm(s), dtype=float)
    except Exception as e:
        ctx.fail("to_cm:raises:%s" % type(e).__name__, case, "%s to_cm(%r): %s" % (tag, s.tolist(), str(e)[:300]))
        return
    tol_q = 2.0 * e_rt + 2.0 * m.nCi / m.gamma * tol_s + floor_rt(m, r)
    if not abs(q[IDX4[c]]) <= tol_q:
        ctx.fail("section:%s:off-section" % c, case, "%s: to_cm(state)[%s] = %.3g, tolerance %.3g (4-D round-trip error of the point %.3g)" % (tag, c, q[IDX4[c]], tol_q, e_rt))
    dpl = max(abs(q[IDX4[pa]] - pt2[0]), abs(q[IDX4[pb]] - pt2[1]))
    if not dpl <= tol_q:
        ctx.fail("section:%s:plane-coordinates-not-reproduced" % c, case, "%s: to_cm(state) = %r, plane mismatch %.3g > %.3g" % (tag, q.tolist(), dpl, tol_q))
    # |H(p4 + d) - H(p4)| <= |grad H| |d| + (second derivatives ~ 4 sum|terms| / r^2) |d|^2 with |d| <= 2 tol_q
    gn = float(np.linalg.norm(g))
    dq = 2.0 * tol_q
    tol_h = gn * dq + 4.0 * habs / (r * r) * dq * dq + dHdm * dm + 16 * EPS * habs
    dh = abs(pl.value(q) - E)
    if not dh <= tol_h:
        ctx.fail("section:%s:energy-level" % c, case, "%s: |H_cm(to_cm(state)) - energy| = %.3g > %.3g" % (tag, dh, tol_h))
    de_ref = abs(erel(m, sd) - E)
    de = abs(erel(m, s) - E)
    # gradient of the rescaled synodic energy w.r.t. the state, bounded by Hess * |s - s0| / gamma^2
    tol_e = 2.0 * de_ref + 2.0 * m.hess * m.nC * r / m.gamma * 2.5 * tol_s + floor_en(m, r, habs)
    if not de <= tol_e:
        ctx.fail("section:%s:synodic-energy" % c, case,
                 "%s: |[E(state)-E(L)]/gamma^2 - energy| = %.3g > %.3g (same quantity through the 4-D path: %.3g)" % (tag, de, tol_e, de_ref))


def run(ctx):
    try:
        O.selftest()
        _selftest()
    except AssertionError as e:
        raise HarnessError("oracle self-test failed: %r" % (e,))
    ctx.extra["section_root_tolerance"] = "1e-12 + 4 eps b + 32 eps sum|terms|/|dH/dm|"
    if ctx.tier == "quick":
        plan = [(4, 120), (6, 24)]
    else:
        plan = [(4, 1200), (6, 320), (8, 48), (10, 16)]
    for N, total in plan:
        # no Hypothesis shrink pass: one evaluation costs 1.5 s (N=4) .. 200 s (N=10) and the verdict payloads are already
        # reduced to the failing part (ladder without sections / one section without ladder)
        explore(ctx, "N%d" % N, cm_case(N), eval_case, ctx.share(total), shrink=False)
        _MAN.clear()


def replay(ctx, payload):
    eval_case(payload, ctx)
