"""C20 — cached and reloaded objects always reflect their current logical state.

Model-based / stateful testing where THE MODEL IS A FRESH TWIN.  A harness per
domain object (System, LibrationPoint, PeriodicOrbit, CenterManifold, plus a
cross-object harness with several systems/orbits of different mu alive in one
process) keeps
  * the long-lived object under test (SUT) with its whole operation history,
  * the LOGICAL state: constructor arguments + values set through public
    setters + results the statement defines as state (corrected initial state
    and period, last requested propagation).
After every operation a NEW object is built from the logical state only and is
asked the same question; the SUT's answer must equal the twin's.  The logical
state itself is advanced through the twin (never through the SUT), so the model
is a chain of fresh objects and no expected value is hard-coded.  Operation
histories are produced by Hypothesis RuleBasedStateMachines (random walks) and
by itertools.product over reduced alphabets (all sequences up to a length).
A history is a list of [op, args] and is the replay payload.
"""
from __future__ import annotations

import copy
import gc
import itertools
import json
import logging
import os
import pickle
import tempfile

import numpy as np
from hypothesis import strategies as st
from hypothesis.stateful import RuleBasedStateMachine, initialize, rule

from ..hyp import run_machine
from ..runner import Ctx, HarnessError, ROOT, load_known, match_known

PROPERTY = "C20"
LEVEL = "exploration"
NUMBA_THREADS = {"quick": 1, "thorough": 1}
REPLAY_IN_RUN = True   # replays need the JIT-compiled stack of their object kind: done inside the shard that owns that kind

RULE = ("case = one comparison (SUT answer vs fresh-twin answer, or value read before save vs after load, or end state vs the independent "
        "reference flow) made after one operation of a generated history; histories are [op,args] lists from Hypothesis state machines over "
        "small argument pools (random walks) plus EVERY sequence up to length 2-4 over reduced alphabets (itertools.product; System, "
        "LibrationPoint, CenterManifold, PeriodicOrbit from the analytic guess / from a corrected state / period alphabet); non-trivial = the "
        "same query was asked earlier in the history AND at least one mutation of an input of that query happened in between (period set, "
        "correct, degree set, hamiltonian of another degree, stability with other options, propagation with other arguments, objects of "
        "another mu created/dropped, load), or the comparison is before-save vs after-load; distinct by (object kind, query+arguments, "
        "the mutations in between / the load mechanism and state class)")
ASSUMPTIONS = [
    "logical state = constructor arguments + values set through public setters + corrected initial state and period + last requested propagation; "
    "reads (hamiltonian(d), compute, properties) are not part of it",
    "twin answers are pure functions of (logical state, query): for System/LibrationPoint/CenterManifold they are memoised per process; each memoised "
    "answer was computed by a twin object that had never been asked that query (System twins: one object per mu, an identity guard proves the "
    "answer was computed and not served from a cache entry of another query)",
    "SUT and twin run the same deterministic code on identical inputs (single numba thread), expected difference 0; the comparison slack 1e-9*|value|_inf "
    "only absorbs separately compiled instances and is >= 2 orders below the effect of any pool variation (self-tested per pool)",
    "orbit twins are built on the shard's LibrationPoint (orbit-level caches are per orbit; system-level compiled fields are pure functions of mu); "
    "CenterManifold twins use a fresh System and LibrationPoint because the Hamiltonian pipeline registry is process-wide per point",
    "Manifold objects are not in the alphabets (one compute is 5-12 s); their caches are reached only through the shared key builder",
    "after a violation the SUT is replaced by a fresh object built from the logical state, so one root cause cannot produce secondary buckets",
]

RTOL = 1e-9
EM = 0.0121505856
MU = [EM, 0.04]

# ----------------------------------------------------------------------------------------------- library access
_lib = None


def hl():
    global _lib
    if _lib is None:
        logging.disable(logging.CRITICAL)
        from hiten.system import System
        from hiten.system.center import CenterManifold
        from hiten.system.orbits.halo import HaloOrbit
        from hiten.system.orbits.lyapunov import LyapunovOrbit
        from hiten.system.libration.base import LibrationPoint
        from hiten.algorithms.corrector.options import OrbitCorrectionOptions
        from hiten.algorithms.linalg.options import EigenDecompositionOptions
        from hiten.algorithms.types.options import (ConvergenceOptions, CorrectionOptions, IntegrationOptions,
                                                    NumericalOptions)
        logging.disable(logging.CRITICAL)

        class _L:
            pass
        _lib = _L()
        _lib.System = System
        _lib.CenterManifold = CenterManifold
        _lib.LibrationPoint = LibrationPoint
        _lib.orbit_cls = {"halo": HaloOrbit, "lyapunov": LyapunovOrbit}
        _lib.EigOpt = EigenDecompositionOptions

        def corr(tol, max_attempts):
            return OrbitCorrectionOptions(
                base=CorrectionOptions(
                    convergence=ConvergenceOptions(max_attempts=max_attempts, tol=tol, max_delta=1e-2),
                    integration=IntegrationOptions(dt=1e-2, order=8, max_steps=2000, c_omega_heuristic=20.0, steps=500),
                    numerical=NumericalOptions(fd_step=1e-8, line_search_alpha_reduction=0.5, line_search_min_alpha=1e-4,
                                               line_search_armijo_c=0.1)),
                forward=1)
        _lib.corr = corr
    return _lib


_TMP = None


def tmpdir():
    global _TMP
    if _TMP is None:
        base = os.environ.get("VF_SCRATCH") or tempfile.gettempdir()
        _TMP = tempfile.mkdtemp(prefix="c20-%d-" % os.getpid(), dir=base)
    return _TMP


_fileno = [0]


def tmpfile(tag):
    _fileno[0] += 1
    return os.path.join(tmpdir(), "%s-%d.pkl" % (tag, _fileno[0]))


# ----------------------------------------------------------------------------------------------- comparison
class Raised:
    def __init__(self, exc):
        self.name = type(exc).__name__
        self.msg = str(exc).splitlines()[0][:160] if str(exc) else ""

    def __repr__(self):
        return "Raised(%s: %s)" % (self.name, self.msg)


def attempt(f):
    try:
        return f()
    except Exception as e:   # the library's answer to a question may be an exception; both sides must agree
        return Raised(e)


_TWIN_MAY_RAISE = ("ValueError", "RuntimeError", "EngineError", "BackendError", "ConvergenceError", "NotImplementedError")


def twin_guard(v, what):
    """A fresh object may legitimately refuse a question (period not set, Newton not converged) but an
    AttributeError/TypeError/... from the twin means the harness asks a question that does not exist."""
    if isinstance(v, Raised) and v.name not in _TWIN_MAY_RAISE:
        raise HarnessError("twin raised %s for %s: %s" % (v.name, what, v.msg))
    return v


class _Canon:
    """Wrapper marking an already canonical (memoised twin) answer."""

    def __init__(self, c):
        self.c = c


def canon(v):
    if isinstance(v, _Canon):
        return v.c
    if isinstance(v, Raised):
        return ("raised", v.name)
    if v is None or isinstance(v, str):
        return v
    if isinstance(v, (bool, np.bool_)):
        return bool(v)
    if isinstance(v, (int, float, np.integer, np.floating)):
        return ("num", float(v))
    if isinstance(v, (complex, np.complexfloating)):
        return ("num", complex(v))
    if isinstance(v, np.ndarray):
        return ("arr", np.array(v))
    if hasattr(v, "times") and hasattr(v, "states"):
        return {"times": canon(np.asarray(v.times)), "states": canon(np.asarray(v.states))}
    if hasattr(v, "poly_H"):
        return {"degree": int(v.degree), "poly_H": [canon(np.asarray(b)) for b in v.poly_H]}
    if hasattr(v, "x_corrected") and hasattr(v, "half_period"):
        return {"x": canon(np.asarray(v.x_corrected, dtype=float)), "T": canon(2.0 * float(v.half_period))}
    if hasattr(v, "is_stable") and hasattr(v, "eigenvalues"):
        return {"is_stable": bool(v.is_stable), "eigenvalues": canon(v.eigenvalues)}
    if isinstance(v, (tuple, list)):
        return [canon(e) for e in v]
    if isinstance(v, dict):
        return {str(k): canon(e) for k, e in v.items()}
    raise HarnessError("cannot canonicalise a %s" % type(v).__name__)


def diff(a, b, path="value"):
    """None if equal to RTOL, else a short description of the first difference (a = SUT, b = twin)."""
    if isinstance(a, tuple) and isinstance(b, tuple) and a and b and a[0] == b[0] == "raised":
        return None if a[1] == b[1] else "%s: SUT raised %s, twin raised %s" % (path, a[1], b[1])
    if (isinstance(a, tuple) and a and a[0] == "raised") or (isinstance(b, tuple) and b and b[0] == "raised"):
        return "%s: SUT %s, twin %s" % (path, _brief(a), _brief(b))
    if type(a) is not type(b):
        return "%s: SUT %s, twin %s" % (path, _brief(a), _brief(b))
    if isinstance(a, tuple) and a and a[0] == "num":
        if b[0] != "num":
            return "%s: SUT %s, twin %s" % (path, _brief(a), _brief(b))
        x, y = a[1], b[1]
        if x != x and y != y:
            return None
        if abs(x - y) <= RTOL * max(abs(x), abs(y)):
            return None
        return "%s: SUT %r, twin %r" % (path, x, y)
    if isinstance(a, tuple) and a and a[0] == "arr":
        if b[0] != "arr":
            return "%s: SUT %s, twin %s" % (path, _brief(a), _brief(b))
        A, B = a[1], b[1]
        if A.shape != B.shape:
            return "%s: SUT shape %s, twin shape %s" % (path, A.shape, B.shape)
        if A.size == 0:
            return None
        na, nb = np.isnan(A), np.isnan(B)
        if (na != nb).any():
            return "%s: NaN pattern differs" % path
        A0 = np.where(na, 0, A)
        B0 = np.where(nb, 0, B)
        err = float(np.max(np.abs(A0 - B0)))
        scale = float(max(np.max(np.abs(A0)), np.max(np.abs(B0))))
        if err <= RTOL * scale:
            return None
        return "%s: max|SUT-twin| = %.3g (|value| = %.3g)" % (path, err, scale)
    if isinstance(a, list):
        if len(a) != len(b):
            return "%s: SUT length %d, twin length %d" % (path, len(a), len(b))
        for i, (x, y) in enumerate(zip(a, b)):
            d = diff(x, y, "%s[%d]" % (path, i))
            if d:
                return d
        return None
    if isinstance(a, dict):
        if sorted(a) != sorted(b):
            return "%s: keys differ" % path
        for k in sorted(a):
            d = diff(a[k], b[k], "%s.%s" % (path, k))
            if d:
                return d
        return None
    return None if a == b else "%s: SUT %r, twin %r" % (path, a, b)


def _brief(c):
    if isinstance(c, tuple) and c:
        if c[0] == "raised":
            return "raised %s" % c[1]
        if c[0] == "arr":
            return "array%s" % (c[1].shape,)
        if c[0] == "num":
            return repr(c[1])
    if isinstance(c, dict):
        return "{%s}" % ",".join(sorted(c))
    if isinstance(c, list):
        return "list[%d]" % len(c)
    return repr(c)


def _is_container(o):
    return not (o is None or isinstance(o, (Raised, bool, int, float, complex, str, np.number, np.bool_)))


def _hist_str(h):
    return " -> ".join("%s%s" % (op, "" if op == "init" else tuple(a)) for op, a in h[-6:])


# ----------------------------------------------------------------------------------------------- harness base
FAILED = object()   # returned by a checked read whose comparison failed (the SUT has been re-synced)


class Harness:
    kind = "?"

    def __init__(self, ctx, init):
        self.ctx = ctx
        self.history = [["init", init]]
        self.qlog = {}
        self.objs = {}
        self.loaded = False      # the SUT is an object that came out of a load
        self.setup(init)

    # -- to be provided by subclasses
    def setup(self, init):
        raise NotImplementedError

    def snapshot(self):
        raise NotImplementedError

    # -- history
    def step(self, op, args):
        self.history.append([op, list(args)])
        getattr(self, "op_" + op)(*args)

    def note_mut(self, name, only=None, exclude=None):
        for q, log in self.qlog.items():
            if only is not None and q[0] not in only:
                continue
            if exclude is not None and q == exclude:
                continue
            log.append(name)

    def observe(self, qkey, got, want, what, context, nt="auto"):
        """Compare one SUT answer with the twin's; returns False (after re-syncing the SUT) on a violation."""
        if nt == "auto":
            log = self.qlog.get(qkey)
            nt = (self.kind, qkey, tuple(log[-4:])) if log else None
            self.qlog[qkey] = []
        cls = ["%s:%s" % (self.kind, qkey[0]), "context:%s:%s:%s" % (self.kind, qkey[0], context)]
        if isinstance(want, Raised):
            cls.append("twin-refuses:%s" % want.name)
        if nt is not None:
            cls.append("nontrivial:%s" % self.kind)
        self.ctx.case(nontrivial=nt, cls=cls,
                      sample=({"kind": self.kind, "query": list(map(str, qkey)), "history_tail": _hist_str(self.history)}
                              if nt is not None else None))
        d = diff(canon(got), canon(want))
        if d is None:
            return True
        self.fail("%s:%s:%s:%s" % (self.kind, qkey[0], what, context), d)
        return False

    def alias(self, quantity, obj, op, context=None):
        """Distinct quantities read from one service cache must not be the same object."""
        if not _is_container(obj):
            return True
        for q, o in self.objs.items():
            if o is obj and q != quantity:
                self.fail("%s:%s:alias:%s" % (self.kind, op, context or q[0]),
                          "the object returned for %s is the object returned earlier for %s" % (quantity, q))
                return False
        self.objs[quantity] = obj
        return True

    def fail(self, bucket, msg):
        self.ctx.fail(bucket, {"kind": self.kind, "history": json.loads(json.dumps(self.history))},
                      "%s | history: %s" % (msg, _hist_str(self.history)))
        self.resync()

    def roundtrip(self, mech, reads, checked, plain, cloner, sclass=()):
        """value before save == value after load, for every read.  The 'before' values go through the normal
        SUT-vs-twin check first, so a stale SUT answer is reported under its own bucket and not as a load defect."""
        before = {}
        for r in reads:
            v = checked(r)
            if v is FAILED:
                return None
            before[r] = v
        clone = attempt(cloner)
        if isinstance(clone, Raised):
            self.ctx.case(cls="%s:roundtrip" % self.kind)
            self.fail("%s:roundtrip:raises:%s" % (self.kind, clone.name), "%s round trip raised %r" % (mech, clone))
            return None
        for r in reads:
            name = r if isinstance(r, str) else str(r[0])
            after = attempt(lambda: plain(clone, r))
            # root-cause context: plain load or load_inplace; object saved for the first time or itself a loaded object
            ctxt = "%s:%s" % ("inplace" if mech == "inplace" else "load", "reloaded" if self.loaded else "first-save")
            if not self.observe(("roundtrip", mech, name), after, before[r], name, ctxt,
                                nt=(self.kind, "roundtrip", mech, name, self.loaded) + tuple(sclass)):
                return None
        return clone

    def resync(self):
        init = self.snapshot()
        self.history = [["init", init]]
        self.qlog = {}
        self.objs = {}
        self.loaded = False
        self.setup(init)


_BUDGET = {}


def take(name):
    """Per-process budget of operations that force a re-compilation of the integrator kernels."""
    if _BUDGET.get(name, 0) > 0:
        _BUDGET[name] -= 1
        return True
    return False


# ----------------------------------------------------------------------------------------------- shared objects / twin memo
_SHARED = {}


def shared_L(mu_i, idx):
    k = (mu_i, idx)
    if k not in _SHARED:
        if ("sys", mu_i) not in _SHARED:
            _SHARED[("sys", mu_i)] = hl().System.from_mu(MU[mu_i])
        _SHARED[k] = _SHARED[("sys", mu_i)].get_libration_point(idx)
    return _SHARED[k]


_MEMO = {}
_TWSYS = {}
_TWOBJ = []   # (object, key) of everything System twins returned: identity guard + keeps ids alive


def memo(key, compute):
    if key not in _MEMO:
        _MEMO[key] = compute()
    return _MEMO[key]


# ----------------------------------------------------------------------------------------------- System
# near-circular motion at r = 0.5 about the primary: >= 0.4 away from both masses for every mu of the pool and both directions
STATES = [[0.5, 0.0, 0.02, 0.0, 0.9, 0.0], [0.4, 0.3, 0.0, -0.5, 0.7, 0.05]]
TFS = [1.0, 1.5]
STEPS = [20, 25]
METHODS = {"fixed": [["fixed", 4], ["fixed", 8]], "adaptive": [["adaptive", 8], ["fixed", 8]]}
ARGN = ["state", "tf", "steps", "method/order", "forward"]


def _sys_prop(S, a):
    si, ti, ni, meth, order, fwd = a
    return S.propagate(np.array(STATES[si], dtype=float), tf=TFS[ti], steps=STEPS[ni], method=meth, order=order, forward=fwd)


def sys_twin_prop(ctx, mu_i, a):
    """Answer of a System that has never been asked this propagation.  One twin object per mu (a new System
    re-specialises every integrator kernel, 2-5 s); the identity guard shows the answer was computed."""
    key = ("sys", mu_i, "propagate") + tuple(a)
    if key in _MEMO:
        return _MEMO[key]
    if mu_i not in _TWSYS:
        _TWSYS[mu_i] = hl().System.from_mu(MU[mu_i])
    r = twin_guard(attempt(lambda: _sys_prop(_TWSYS[mu_i], a)), "System.propagate%s" % (tuple(a),))
    if _is_container(r):
        for o, k in _TWOBJ:
            if o is r:      # the twin itself served another request's cache entry: report it, answer with a brand-new System
                hist = [["init", {"mu_i": mu_i, "kind": "fixed"}], ["propagate_raw", list(k[3:])], ["propagate_raw", list(a)]]
                ctx.fail("system:propagate:alias:propagate", {"kind": "system", "history": hist},
                         "two different propagation requests returned the same cached object: %s and %s" % (k[3:], tuple(a)))
                _TWSYS[mu_i] = hl().System.from_mu(MU[mu_i])
                r = twin_guard(attempt(lambda: _sys_prop(_TWSYS[mu_i], a)), "System.propagate%s" % (tuple(a),))
                break
        _TWOBJ.append((r, key))
    _MEMO[key] = r if isinstance(r, Raised) else _Canon(canon(r))
    return _MEMO[key]


def fresh_L(mu_i, idx):
    return hl().System.from_mu(MU[mu_i]).get_libration_point(idx)


class SystemHarness(Harness):
    kind = "system"

    def setup(self, init):
        self.mu_i = int(init["mu_i"])
        self.mkind = init.get("kind", "fixed")
        self.sut = hl().System.from_mu(MU[self.mu_i])
        self.asked = []
        self.tag = "init"

    def snapshot(self):
        return {"mu_i": self.mu_i, "kind": self.mkind}

    def _context(self, a):
        if not self.asked:
            return "first"
        if a in self.asked:
            return "repeat"
        for b in reversed(self.asked):
            dif = [j for j, (x, y) in enumerate(zip(self._split(a), self._split(b))) if x != y]
            if len(dif) == 1:
                return "near-repeat-%s" % ARGN[dif[0]]
        return "other"

    @staticmethod
    def _split(a):
        return [a[0], a[1], a[2], (a[3], a[4]), a[5]]

    def op_propagate(self, si, ti, ni, mi, fwd):
        meth, order = METHODS[self.mkind][mi]
        self.op_propagate_raw(si, ti, ni, meth, order, fwd)

    def op_propagate_raw(self, si, ti, ni, meth, order, fwd):
        a = [si, ti, ni, meth, order, fwd]
        ctxt = self._context(a)
        want = sys_twin_prop(self.ctx, self.mu_i, a)
        got = attempt(lambda: _sys_prop(self.sut, a))
        q = ("propagate",) + tuple(a)
        if ctxt.startswith("near-repeat") or ctxt == "other":
            self.note_mut(ctxt, only=("propagate",), exclude=q)
        self.asked.append(a)
        if not self.observe(q, got, want, "value", ctxt + ":" + self.tag):
            return
        self.alias(q, got, "propagate")

    def op_libpoint(self, idx):
        want = memo(("lib", self.mu_i, idx, "position"), lambda: twin_guard(attempt(lambda: fresh_L(self.mu_i, idx).position), "position"))
        got = attempt(lambda: self.sut.get_libration_point(idx).position)
        return got if self.observe(("libpoint", idx), got, want, "value", self.tag) else FAILED

    def op_scalar(self, name):
        want = memo(("sys", self.mu_i, name), lambda: twin_guard(attempt(lambda: getattr(hl().System.from_mu(MU[self.mu_i]), name)), name))
        got = attempt(lambda: getattr(self.sut, name))
        return got if self.observe((name,), got, want, "value", self.tag) else FAILED

    @staticmethod
    def _plain(S, r):
        return getattr(S, r) if isinstance(r, str) else S.get_libration_point(r[1]).position

    def op_roundtrip(self, mech, cont):
        reads = ["mu", "distance", ("L", 1), ("L", 2), ("L", 4)]
        clone = self.roundtrip(mech, reads, lambda r: self.op_scalar(r) if isinstance(r, str) else self.op_libpoint(r[1]),
                               self._plain, lambda: _clone_system(self.sut, mech, self.mu_i))
        if clone is not None and cont:
            self.sut = clone
            self.loaded = True
            self.asked = []
            self.objs = {}
            self.tag = "load"
            self.note_mut("load:" + mech)


def _clone_system(S, mech, mu_i):
    lib = hl()
    if mech == "pickle":
        return pickle.loads(pickle.dumps(S))
    if mech == "deepcopy":
        return copy.deepcopy(S)
    path = tmpfile("system")
    S.save(path)
    if mech == "file":
        return lib.System.load(path)
    if mech == "inplace":       # target: a used System of the OTHER mu; after load_inplace it must be the saved one
        tgt = lib.System.from_mu(MU[1 - mu_i])
        tgt.mu, tgt.get_libration_point(1).position
        tgt.load_inplace(path)
        return tgt
    raise HarnessError("unknown mechanism %r" % mech)


# ----------------------------------------------------------------------------------------------- LibrationPoint
LIB_READS = ["position", "energy", "jacobi", "linear_modes", "normal_form_transform", "linear_data", "gamma", "cn2", "cn3",
             "eigenvalues", "is_stable"]
STAB = ("eigenvalues", "is_stable", "compute_stability")


def _eig_opts(j):
    E = hl().EigOpt
    return [E(), E(delta=0.5, tol=1e-8)][j]


def _lib_read(L, q):
    if q == "gamma":
        return L.dynamics.gamma
    if q == "cn2":
        return L.dynamics.cn(2)
    if q == "cn3":
        return L.dynamics.cn(3)
    if q == "eigenvalues":
        return L.eigenvalues
    return getattr(L, q)


class LibrationHarness(Harness):
    kind = "libration"

    def setup(self, init):
        self.mu_i = int(init["mu_i"])
        self.idx = int(init["idx"])
        self.system = hl().System.from_mu(MU[self.mu_i])
        self.sut = self.system.get_libration_point(self.idx)
        self.tag = "plain"
        self.stab_requests = set()

    def snapshot(self):
        return {"mu_i": self.mu_i, "idx": self.idx}

    def _twin(self, q, f):
        return memo(("lib", self.mu_i, self.idx) + q, lambda: twin_guard(attempt(lambda: _Canon(canon(f(fresh_L(self.mu_i, self.idx))))), str(q)))

    def _stab_request(self, who, qkey):
        """Stability requests (facade reads use the service's default options, cs(j) explicit ones) share one
        service; a request is 'after-other-options' when a different request was served since the SUT was built."""
        other = bool(self.stab_requests - {who})
        if who not in self.stab_requests:
            self.stab_requests.add(who)
            self.note_mut("stability-other-options", only=STAB, exclude=qkey)
        return "after-other-options" if other else ("load" if self.tag == "load" else "plain")

    def op_read(self, q):
        want = self._twin((q,), lambda L: _lib_read(L, q))
        got = attempt(lambda: _lib_read(self.sut, q))
        if q in STAB:
            ctxt = self._stab_request("default", (q,))
        else:
            ctxt = "load" if self.tag == "load" else "plain"
        if not self.observe((q,), got, want, "value", ctxt):
            return FAILED
        return got if self.alias((q,), got, q) else FAILED

    def op_cs(self, j):
        want = self._twin(("compute_stability", j), lambda L: L.dynamics.compute_stability(_eig_opts(j)))
        got = attempt(lambda: self.sut.dynamics.compute_stability(_eig_opts(j)))
        ctxt = self._stab_request(j, ("compute_stability", j))
        if not self.observe(("compute_stability", j), got, want, "value", ctxt):
            return
        for q, o in list(self.objs.items()):     # the alias of two option values is the same root cause: same context
            if o is got and q != ("compute_stability", j) and _is_container(got):
                return self.fail("libration:compute_stability:alias:after-other-options",
                                 "compute_stability(%r) returned the object returned for %s" % (_eig_opts(j), q))
        self.objs[("compute_stability", j)] = got

    def op_roundtrip(self, mech, cont):
        reads = ["position", "energy", "jacobi", "linear_modes", "eigenvalues", "system.mu"]

        def plain(L, q):
            return L.system.mu if q == "system.mu" else _lib_read(L, q)

        def checked(q):
            if q == "system.mu":
                got = attempt(lambda: self.sut.system.mu)
                return got if self.observe((q,), got, MU[self.mu_i], "value", "plain") else FAILED
            return self.op_read(q)
        clone = self.roundtrip(mech, reads, checked, plain, lambda: _clone_lib(self.sut, mech, self.mu_i, self.idx), (self.tag,))
        if clone is not None and cont:
            self.sut = clone
            self.loaded = True
            self.system = clone.system
            self.objs = {}
            self.stab_requests = set()
            self.tag = "load"
            self.note_mut("load:" + mech)


def _clone_lib(L, mech, mu_i, idx):
    if mech == "pickle":
        return pickle.loads(pickle.dumps(L))
    if mech == "deepcopy":
        return copy.deepcopy(L)
    path = tmpfile("libration")
    L.save(path)
    if mech == "file":
        return type(L).load(path)
    if mech == "inplace":
        tgt = fresh_L(1 - mu_i, idx)    # a used point of the same index in the OTHER system
        tgt.position, tgt.energy
        tgt.load_inplace(path)
        return tgt
    raise HarnessError("unknown mechanism %r" % mech)


# ----------------------------------------------------------------------------------------------- CenterManifold
CM_DEG = [4, 5, 6]
CM_PTS = [[0.2, 0.1, 0.25, -0.15], [0.0, 0.2, -0.15, 0.0]]
CM_OFF = [[0.01, 0.005, 0.01, 0.002, -0.01, 0.003], [-0.008, 0.0, 0.012, 0.0, 0.006, 0.0]]
CM_SEC = [[[0.05, 0.02], 0.2, "q3"]]


def _cm_q(cm, q, arg, xL):
    if q == "compute":
        return cm.compute()
    if q == "hamiltonian":
        return cm.hamiltonian(arg)
    if q == "degree":
        return cm.degree
    if q == "to_synodic":
        return cm.to_synodic(np.array(CM_PTS[arg], dtype=float))
    if q == "to_synodic_section":
        # 2-D section point at a prescribed energy: goes through the compiled Hamiltonian system of the current degree
        return cm.to_synodic(np.array(CM_SEC[arg][0], dtype=float), energy=CM_SEC[arg][1], section_coord=CM_SEC[arg][2])
    if q == "to_cm":
        s = np.array(CM_OFF[arg], dtype=float)
        s[0] += xL
        return cm.to_cm(s)
    if q == "coefficients":
        return cm.coefficients(degree=arg)
    raise HarnessError("unknown CM query %r" % q)


class CMHarness(Harness):
    kind = "cm"

    def setup(self, init):
        self.mu_i = int(init.get("mu_i", 0))
        self.idx = int(init["idx"])
        self.deg = int(init["deg"])           # logical degree
        L = fresh_L(self.mu_i, self.idx)
        self.xL = float(memo(("xL", self.mu_i, self.idx), lambda: float(L.position[0])))
        self.sut = hl().CenterManifold(L, self.deg)
        self.tag = "init"

    def snapshot(self):
        return {"mu_i": self.mu_i, "idx": self.idx, "deg": self.deg}

    def _twin(self, q, arg):
        def compute():
            cm = hl().CenterManifold(fresh_L(self.mu_i, self.idx), self.deg)
            return twin_guard(attempt(lambda: _Canon(canon(_cm_q(cm, q, arg, self.xL)))), "cm.%s(%r)" % (q, arg))
        return memo(("cm", self.mu_i, self.idx, self.deg, q, arg), compute)

    def _quantity(self, q, arg):
        # compute() and hamiltonian(d) name the same quantity (the centre-manifold Hamiltonian of a degree)
        return ("H", self.deg if q == "compute" else arg)

    def op_set_degree(self, d):
        r = attempt(lambda: setattr(self.sut, "degree", d))
        if isinstance(r, Raised):
            self.ctx.case(cls="cm:set_degree")
            return self.fail("cm:set_degree:raises:%s" % r.name, "degree setter raised %r" % r)
        if d != self.deg:
            self.deg = d
            self.note_mut("set_degree")
            self.tag = "set_degree"
        self.op_q("degree", None)

    def op_q(self, q, arg):
        want = self._twin(q, arg)
        got = attempt(lambda: _cm_q(self.sut, q, arg, self.xL))
        if not self.observe((q, arg), got, want, "value", self.tag):
            return FAILED
        if q in ("compute", "hamiltonian") and not self.alias(self._quantity(q, arg), got, q):
            return FAILED
        if q == "hamiltonian" and arg != self.deg:
            # a read of another degree must leave the object's own degree and coordinate maps alone
            self.tag = "after-hamiltonian-other-degree"
            self.note_mut("hamiltonian-other-degree", exclude=(q, arg))
        return got

    def op_roundtrip(self, mech):
        reads = [("degree", None), ("to_synodic", 0), ("to_cm", 0), ("compute", None)]
        clone = self.roundtrip(mech, reads, lambda r: self.op_q(r[0], r[1]), lambda cm, r: _cm_q(cm, r[0], r[1], self.xL),
                               lambda: _clone_cm(self.sut, mech), (self.tag, self.deg))
        if clone is None:
            return
        self.sut = clone
        self.loaded = True
        self.objs = {}
        if self.tag != "after-hamiltonian-other-degree":
            self.tag = "load"
        self.note_mut("load:" + mech)


def _clone_cm(cm, mech):
    if mech == "pickle":
        return pickle.loads(pickle.dumps(cm))
    if mech == "deepcopy":
        return copy.deepcopy(cm)
    path = tmpfile("cm")
    cm.save(path)
    if mech == "file":
        return hl().CenterManifold.load(path)
    raise HarnessError("unknown mechanism %r" % mech)


# ----------------------------------------------------------------------------------------------- PeriodicOrbit
ORBIT_CTOR = {"halo": {"amplitude_z": 0.02, "zenith": "northern"}, "lyapunov": {"amplitude_x": 0.01}}
PROP_POOL = [[30, "adaptive", 8], [40, "adaptive", 8], [30, "fixed", 8]]
PERIOD_POOL = ["same", 2.0, 2.6, None, "nudge"]     # "nudge": the current period changed by 3 ppm (a near-repeat)
ORBIT_READS = ["monodromy", "stability_indices", "eigenvalues", "energy", "jacobi", "period", "initial_state"]
N_CORR = 4


def corr_options(i):
    """Pool of correction options; 1..3 differ from the defaults (0) only in NESTED fields (base.convergence.*)."""
    lib = hl()
    return [None, lib.corr(1e-3, 50), lib.corr(1e-8, 25), lib.corr(1e-12, 1)][i]


def _orbit_read(o, q):
    if q == "trajectory":
        return o.trajectory
    return getattr(o, q)


def _same_state(x1, T1, x2, T2):
    if (x1 is None) != (x2 is None) or (T1 is None) != (T2 is None):
        return False
    if x1 is not None and not np.array_equal(np.asarray(x1), np.asarray(x2)):
        return False
    return T1 is None or T1 == T2


class OrbitHarness(Harness):
    kind = "orbit"

    def setup(self, init):
        self.family = init["family"]
        self.mu_i = int(init.get("mu_i", 0))
        self.idx = int(init.get("idx", 1))
        self.L = shared_L(self.mu_i, self.idx)
        x = init.get("x")
        self.model = {"x": None if x is None else np.array(x, dtype=float), "T": init.get("T"),
                      "last_prop": init.get("last_prop")}
        self.sut = self.build()
        self.corrects = []          # (options index, state version) of corrections served by this SUT's correction service
        self.version = 0
        self.props_done = set()
        self.last_computed = tuple(self.model["last_prop"]) if self.model["last_prop"] else None
        if self.last_computed:
            self.props_done.add(self.last_computed)
        self.last_hit = False
        self.tag = "init"

    def snapshot(self):
        m = self.model
        return {"family": self.family, "mu_i": self.mu_i, "idx": self.idx,
                "x": None if m["x"] is None else [float(v) for v in m["x"]], "T": m["T"], "last_prop": m["last_prop"]}

    def build(self, with_prop=True):
        """Fresh object from the logical state only."""
        m = self.model
        try:
            if m["x"] is None:
                o = self.L.create_orbit(self.family, **ORBIT_CTOR[self.family])
            else:
                o = hl().orbit_cls[self.family](self.L, initial_state=np.array(m["x"], dtype=float))
            if m["T"] is not None:
                o.period = m["T"]
            if with_prop and m["last_prop"] is not None:
                s, meth, order = m["last_prop"]
                o.propagate(steps=s, method=meth, order=order)
        except Exception as e:
            raise HarnessError("cannot build an orbit twin from %r: %s: %s" % (self.snapshot(), type(e).__name__, e))
        return o

    def _state_changed(self, name):
        self.version += 1
        self.model["last_prop"] = None
        self.props_done = set()
        self.last_computed = None
        self.last_hit = False
        self.objs = {}
        self.note_mut(name)
        self.tag = name

    # -- operations
    def op_correct(self, i):
        opts = corr_options(i)
        if not self.corrects:
            ctxt = "first"
        elif i not in [c[0] for c in self.corrects]:
            ctxt = "nested-options-differ"
        elif max(v for c, v in self.corrects if c == i) != self.version:
            ctxt = "same-options-after-state-change"
        else:
            ctxt = "same-options-repeat"
        tw = self.build()
        x_old, T_old = np.array(tw.initial_state, dtype=float), tw.period
        rt = twin_guard(attempt(lambda: tw.correct(opts)), "orbit.correct")
        rs = attempt(lambda: self.sut.correct(opts))
        x_new, T_new = np.array(tw.initial_state, dtype=float), tw.period
        if not _same_state(x_old, T_old, x_new, T_new):      # the logical state advances through the twin only
            self.model["x"], self.model["T"] = x_new, T_new
            self._state_changed("correct")
        self.corrects.append((i, self.version))
        if not self.observe(("correct", i, "result"), rs, rt, "result", ctxt):
            return
        if not self.observe(("correct", i, "state"), attempt(lambda: self.sut.initial_state), x_new, "state", ctxt):
            return
        self.observe(("correct", i, "period"), attempt(lambda: self.sut.period), T_new, "period", ctxt)

    def op_set_period(self, j):
        v = self.model["T"] if PERIOD_POOL[j] == "same" else PERIOD_POOL[j]
        if v == "nudge":
            v = float(self.model["T"]) * (1.0 + 3e-6) if self.model["T"] is not None else 2.0
        r = attempt(lambda: setattr(self.sut, "period", v))
        if isinstance(r, Raised):
            self.ctx.case(cls="orbit:set_period")
            return self.fail("orbit:set_period:raises:%s" % r.name, "period setter raised %r for %r" % (r, v))
        if v != self.model["T"]:
            self.model["T"] = v
            self._state_changed("set_period")
        self.observe(("period",), attempt(lambda: self.sut.period), self.model["T"], "value", "after-set_period")

    def op_propagate(self, k):
        a = tuple(PROP_POOL[k])
        ctxt = "first" if not self.props_done else ("repeat" if a in self.props_done else "other-args")
        tw = self.build(with_prop=False)
        rt = twin_guard(attempt(lambda: tw.propagate(steps=a[0], method=a[1], order=a[2])), "orbit.propagate")
        rs = attempt(lambda: self.sut.propagate(steps=a[0], method=a[1], order=a[2]))
        if not isinstance(rt, Raised):
            hit = a in self.props_done
            self.last_hit = hit and self.last_computed != a
            if not hit:
                self.props_done.add(a)
                self.last_computed = a
            if self.model["last_prop"] != list(a):
                self.note_mut("propagate-other-args", only=("trajectory",))
            self.model["last_prop"] = list(a)
        if not self.observe(("propagate", k), rs, rt, "value", ctxt + ":" + self.tag):
            return
        self.alias(("propagate", a), rs, "propagate")

    def op_trajectory(self):
        tw = self.build()
        rt = twin_guard(attempt(lambda: tw.trajectory), "orbit.trajectory")
        rs = attempt(lambda: self.sut.trajectory)
        if self.model["last_prop"] is None:
            ctxt = "no-propagation:" + self.tag
        elif self.last_hit:
            ctxt = "after-cached-propagate"
        else:
            ctxt = "after-computed-propagate:" + self.tag
        if not self.observe(("trajectory",), rs, rt, "value", ctxt):
            return FAILED
        if self.model["last_prop"] is not None and not self.alias(("propagate", tuple(self.model["last_prop"])), rs, "trajectory", ctxt):
            return FAILED
        return rs

    def op_read(self, q):
        tw = self.build(with_prop=False)
        rt = twin_guard(attempt(lambda: _orbit_read(tw, q)), "orbit." + q)
        rs = attempt(lambda: _orbit_read(self.sut, q))
        if not self.observe((q,), rs, rt, "value", "after-" + self.tag):
            return FAILED
        return rs if self.alias((q,), rs, q) else FAILED

    def op_roundtrip(self, mech, cont):
        reads = ["period", "initial_state", "energy", "jacobi", "stability_indices", "eigenvalues", "trajectory"]
        if cont:
            reads.append("monodromy")
        sclass = ("%s/%s/%s" % ("corrected" if self.model["x"] is not None else "guess",
                                "T" if self.model["T"] is not None else "noT", "traj" if self.model["last_prop"] else "notraj"), self.family)
        clone = self.roundtrip(mech, reads, lambda q: self.op_trajectory() if q == "trajectory" else self.op_read(q),
                               _orbit_read, lambda: _clone_orbit(self, mech), sclass)
        if clone is not None and cont:
            self.sut = clone
            self.loaded = True
            self.objs = {}
            self.corrects = []
            self.props_done = set()
            self.last_computed = tuple(self.model["last_prop"]) if self.model["last_prop"] else None
            self.last_hit = False
            self.tag = "load"
            self.note_mut("load:" + mech)


def _clone_orbit(h, mech):
    o = h.sut
    if mech == "pickle":
        return pickle.loads(pickle.dumps(o))
    if mech == "deepcopy":
        return copy.deepcopy(o)
    path = tmpfile("orbit")
    o.save(path)
    if mech == "file":
        return type(o).load(path)
    if mech == "inplace":     # target: a fresh, uncorrected orbit of the same family; afterwards it must be the saved one
        tgt = h.L.create_orbit(h.family, **ORBIT_CTOR[h.family])
        tgt.load_inplace(path)
        return tgt
    raise HarnessError("unknown mechanism %r" % mech)


# ----------------------------------------------------------------------------------------------- cross-object
X_TF = [1.0, 0.6]
X_STEPS = 51


def _oracle():
    from ..oracle import cr3bp
    return cr3bp


def _flow_ref(mu, tf, fwd):
    """Independent reference end state and tolerance.  Fixed-step RK8 on h = tf/(steps-1): local error ~ C*h^9
    (C <= 1e3 covers the error constant times the 9th derivative of near-circular motion at r = 0.5), summed over
    the steps and amplified by the reference flow's own state-transition norm; the oracle integrates to 1e-13."""
    o = _oracle()
    ref, Phi = o.flow_stm(np.array(STATES[0], dtype=float), fwd * tf, mu)
    h = tf / (X_STEPS - 1)
    return ref, float(np.max(np.abs(Phi))) * ((X_STEPS - 1) * 1e3 * h ** 9 + 1e-12)


class CrossHarness(Harness):
    kind = "cross"

    def setup(self, init):
        self.slots = {"A": None, "B": None}
        for name, mu_i in (init.get("slots") or {}).items():
            if mu_i is not None:
                self._create(name, mu_i)

    def snapshot(self):
        return {"slots": {n: (None if s is None else s["mu_i"]) for n, s in self.slots.items()}}

    def _create(self, slot, mu_i):
        self.slots[slot] = {"mu_i": mu_i, "sys": hl().System.from_mu(MU[mu_i]), "orb": None}

    def op_create(self, slot, mu_i):
        self.slots[slot] = None
        gc.collect()
        self._create(slot, mu_i)
        self.note_mut("create-%s" % ("other-mu" if any(s and s["mu_i"] != mu_i for s in self.slots.values()) else "same-mu"))

    def op_drop(self, slot):
        self.slots[slot] = None
        gc.collect()
        self.note_mut("drop")

    def _check_prop(self, S, mu_i, ti, fwd, q, ctxt):
        a = [0, ti, 0, "fixed", 8, fwd]
        tf = X_TF[ti]
        got = attempt(lambda: S.propagate(np.array(STATES[0], dtype=float), tf=tf, steps=X_STEPS, method="fixed", order=8, forward=fwd))
        key = ("cross-twin", mu_i, ti, fwd)

        def twin():
            if mu_i not in _TWSYS:
                _TWSYS[mu_i] = hl().System.from_mu(MU[mu_i])
            return twin_guard(attempt(lambda: _Canon(canon(_TWSYS[mu_i].propagate(
                np.array(STATES[0], dtype=float), tf=tf, steps=X_STEPS, method="fixed", order=8, forward=fwd)))), "cross propagate %s" % a)
        want = memo(key, twin)
        if not self.observe(q, got, want, "twin", ctxt):
            return False
        if isinstance(got, Raised):
            return True
        ref, tol = memo(("flow-ref", mu_i, ti, fwd), lambda: _flow_ref(MU[mu_i], tf, fwd))
        err = float(np.max(np.abs(np.asarray(got.states)[-1] - ref)))
        self.ctx.case(cls="cross:oracle-flow")
        worst = self.ctx.extra.setdefault("cross_oracle_err_over_tol_max_per_shard", [0.0])
        worst[0] = max(worst[0], err / tol)
        if not err <= tol:
            self.fail("cross:%s:oracle:%s" % (q[0], ctxt), "final state differs from the independent reference flow of mu=%g by %.3g (tol %.3g)"
                      % (MU[mu_i], err, tol))
            return False
        return True

    def op_sysprop(self, slot, ti, fwd):
        s = self.slots[slot]
        if s is None:
            return
        others = sorted(set(o["mu_i"] for o in self.slots.values() if o is not None and o is not s))
        ctxt = "fwd%+d:%s" % (fwd, "other-mu-alive" if others and others != [s["mu_i"]] else "alone")
        self._check_prop(s["sys"], s["mu_i"], ti, fwd, ("sysprop", s["mu_i"], ti, fwd), ctxt)
        self.note_mut("propagate-mu%d" % s["mu_i"], exclude=("sysprop", s["mu_i"], ti, fwd))

    def op_churn(self, mu_i, ti, fwd):
        """Create a System, propagate, delete it and collect: the next object may reuse its addresses."""
        S = hl().System.from_mu(MU[mu_i])
        ok = self._check_prop(S, mu_i, ti, fwd, ("churn", mu_i, ti, fwd), "fwd%+d" % fwd)
        del S
        gc.collect()
        if ok:
            self.note_mut("churn-mu%d" % mu_i)

    def op_orbit(self, slot, what):
        s = self.slots[slot]
        if s is None:
            return
        o = _oracle()
        mu = MU[s["mu_i"]]
        if s["orb"] is None:
            if not take("cross_orbit"):
                return
            orb = s["sys"].get_libration_point(1).create_orbit("lyapunov", amplitude_x=0.01)
            r = attempt(lambda: orb.correct())
            s["orb"] = orb
            self.ctx.case(cls="cross:orbit-correct")
            if isinstance(r, Raised):
                return self.fail("cross:orbit:correct-raises:%s" % r.name, "correct() raised %r with systems %s alive" % (r, self.snapshot()))
        orb = s["orb"]
        x, T = np.array(orb.initial_state, dtype=float), float(orb.period)
        xT, M = o.flow_stm(x, T, mu)
        nM = float(np.max(np.abs(M)))
        others = sorted(set(t["mu_i"] for t in self.slots.values() if t is not None and t is not s))
        ctxt = "other-mu-alive" if others and others != [s["mu_i"]] else "alone"
        if what == "closure":
            err = float(np.max(np.abs(xT - x)))
            tol = 100.0 * (1e-12 + 1e-13) * nM      # Newton tol + oracle rtol, amplified by the monodromy norm
            self.ctx.case(nontrivial=("cross", "closure", s["mu_i"], ctxt), cls="cross:orbit-closure")
            worst = self.ctx.extra.setdefault("cross_closure_err_over_tol_max_per_shard", [0.0])
            worst[0] = max(worst[0], err / tol)
            if not err <= tol:
                self.fail("cross:orbit:closure:" + ctxt, "corrected orbit of mu=%g does not close under the reference flow: %.3g (tol %.3g)" % (mu, err, tol))
        else:
            got = attempt(lambda: np.asarray(orb.monodromy))
            self.ctx.case(nontrivial=("cross", "monodromy", s["mu_i"], ctxt), cls="cross:orbit-monodromy")
            if isinstance(got, Raised):
                return self.fail("cross:orbit:monodromy-raises:%s" % got.name, repr(got))
            err = float(np.max(np.abs(got - M)))
            tol = 100.0 * (1e-12 + 1e-13) * nM * nM  # both integrators at rtol ~1e-12, error growth ~ |M| on a value of size |M|
            worst = self.ctx.extra.setdefault("cross_monodromy_err_over_tol_max_per_shard", [0.0])
            worst[0] = max(worst[0], err / tol)
            if not err <= tol:
                self.fail("cross:orbit:monodromy:" + ctxt, "monodromy of the mu=%g orbit differs from the reference STM by %.3g (tol %.3g, |M|=%.3g)"
                          % (mu, err, tol, nM))


HARNESS = {"system": SystemHarness, "libration": LibrationHarness, "cm": CMHarness, "orbit": OrbitHarness, "cross": CrossHarness}


def execute(kind, history, ctx, stop_bucket=None):
    """Re-execute a history deterministically (replay / shrinking / enumeration)."""
    if not history or history[0][0] != "init":
        raise HarnessError("history must start with init: %r" % (history[:1],))
    h = HARNESS[kind](ctx, history[0][1])
    for op, args in history[1:]:
        h.step(op, args)
        if stop_bucket is not None and stop_bucket in ctx.verdicts:
            break
    return h


# ----------------------------------------------------------------------------------------------- state machines
MECH4 = ["file", "pickle", "deepcopy", "inplace"]


def make_machine(ctx, kind, init_strategy, cont_budget=None):
    class Base(RuleBasedStateMachine):
        def __init__(self):
            super().__init__()
            self.h = None

        @initialize(init=init_strategy)
        def start(self, init):
            self.h = HARNESS[kind](ctx, init)

        def do(self, op, *args):
            if self.h is not None:
                self.h.step(op, list(args))

    if kind == "system":
        class M(Base):
            @rule(si=st.sampled_from([0, 1]), ti=st.sampled_from([0, 1]), ni=st.sampled_from([0, 1]), mi=st.sampled_from([0, 1]),
                  fwd=st.sampled_from([1, 1, 1, -1]))
            def propagate(self, si, ti, ni, mi, fwd):
                self.do("propagate", si, ti, ni, mi, fwd)

            @rule(idx=st.sampled_from([1, 2, 4]))
            def libpoint(self, idx):
                self.do("libpoint", idx)

            @rule(mech=st.sampled_from(MECH4), cont=st.booleans())
            def roundtrip(self, mech, cont):
                self.do("roundtrip", mech, bool(cont and take("system_cont")))
    elif kind == "libration":
        class M(Base):
            @rule(q=st.sampled_from(LIB_READS))
            def read(self, q):
                self.do("read", q)

            @rule(j=st.sampled_from([0, 1]))
            def cs(self, j):
                self.do("cs", j)

            @rule(mech=st.sampled_from(MECH4), cont=st.booleans())
            def roundtrip(self, mech, cont):
                self.do("roundtrip", mech, cont)
    elif kind == "cm":
        class M(Base):
            @rule(d=st.sampled_from(CM_DEG))
            def set_degree(self, d):
                self.do("set_degree", d)

            @rule(q=st.sampled_from([["compute", None], ["degree", None], ["to_synodic", 0], ["to_synodic", 1], ["to_cm", 0], ["to_cm", 1],
                                     ["coefficients", 2], ["hamiltonian", 4], ["hamiltonian", 5], ["hamiltonian", 6]]))
            def q(self, q):
                self.do("q", q[0], q[1])

            @rule(mech=st.sampled_from(["file", "pickle", "deepcopy"]))
            def roundtrip(self, mech):
                self.do("roundtrip", mech)
    elif kind == "orbit":
        class M(Base):
            @rule(i=st.sampled_from(list(range(N_CORR))))
            def correct(self, i):
                self.do("correct", i)

            @rule(j=st.sampled_from(list(range(len(PERIOD_POOL)))))
            def set_period(self, j):
                self.do("set_period", j)

            @rule(k=st.sampled_from(list(range(len(PROP_POOL)))))
            def propagate(self, k):
                self.do("propagate", k)

            @rule()
            def trajectory(self):
                self.do("trajectory")

            @rule(q=st.sampled_from(ORBIT_READS))
            def read(self, q):
                self.do("read", q)

            @rule(mech=st.sampled_from(MECH4), cont=st.booleans())
            def roundtrip(self, mech, cont):
                self.do("roundtrip", mech, bool(cont and take("orbit_cont")))
    elif kind == "cross":
        class M(Base):
            @rule(slot=st.sampled_from(["A", "B"]), mu_i=st.sampled_from([0, 1]))
            def create(self, slot, mu_i):
                if take("cross_create"):
                    self.do("create", slot, mu_i)

            @rule(slot=st.sampled_from(["A", "B"]))
            def drop(self, slot):
                self.do("drop", slot)

            @rule(slot=st.sampled_from(["A", "B"]), ti=st.sampled_from([0, 1]), fwd=st.sampled_from([1, -1, -1]))
            def sysprop(self, slot, ti, fwd):
                self.do("sysprop", slot, ti, fwd)

            @rule(mu_i=st.sampled_from([0, 1]), ti=st.sampled_from([0, 1]), fwd=st.sampled_from([-1, -1, 1]))
            def churn(self, mu_i, ti, fwd):
                if take("cross_create"):
                    self.do("churn", mu_i, ti, fwd)

            @rule(slot=st.sampled_from(["A", "B"]), what=st.sampled_from(["closure", "monodromy"]))
            def orbit(self, slot, what):
                self.do("orbit", slot, what)
    else:
        raise HarnessError("no machine for %r" % kind)
    M.__name__ = "C20_%s_machine" % kind
    M.__qualname__ = M.__name__
    return M


SHRINK_CALLS = {"system": (3, 8), "cross": (2, 6), "orbit": (12, 40), "cm": (12, 40), "libration": (20, 60)}


def shrink_new(ctx, before):
    """Greedy deletion of operations from the stored histories of new buckets (the machines do not shrink)."""
    known = load_known()
    for b in [b for b in ctx.verdicts if b not in before]:
        if match_known(known, ctx.prop, b):
            continue
        v = ctx.verdicts[b]
        kind, hist = v["payload"]["kind"], v["payload"]["history"]
        left = ctx.scale(*SHRINK_CALLS[kind])
        i = len(hist) - 2
        while i >= 1 and left > 0:
            cand = hist[:i] + hist[i + 1:]
            sub = Ctx(ctx.prop, ctx.tier, ctx.seed, ctx.shard, ctx.nshards, collecting=False)
            left -= 1
            try:
                execute(kind, cand, sub, stop_bucket=b)
            except HarnessError:
                sub.verdicts = {}
            if b in sub.verdicts:
                hist = sub.verdicts[b]["payload"]["history"]
                v["payload"]["history"] = hist
                v["msg"] = sub.verdicts[b]["msg"]
                v["shrunk"] = True
                i = min(i, len(hist) - 1)
            i -= 1


def walk(ctx, kind, label, init_strategy, n, steps):
    before = set(ctx.verdicts)
    e0 = ctx.evaluations
    run_machine(ctx, label, make_machine(ctx, kind, init_strategy), n, steps)
    ctx.extra["walk_comparisons_" + kind] = ctx.extra.get("walk_comparisons_" + kind, 0) + ctx.evaluations - e0
    ctx.extra["walk_examples_" + kind] = ctx.extra.get("walk_examples_" + kind, 0) + int(n)
    shrink_new(ctx, before)


# ----------------------------------------------------------------------------------------------- bounded-exhaustive part
def corrected_state(fam):
    """(x, T) of the shard's pool orbit after one default correction: a logical state to start histories from."""
    def compute():
        o = shared_L(0, 1).create_orbit(fam, **ORBIT_CTOR[fam])
        o.correct()
        return [float(v) for v in o.initial_state], float(o.period)
    return memo(("corrected", fam), compute)


def alphabet(name, tier, fam=None):
    """(harness kind, initial states, letters, maximal length) of the bounded-exhaustive part."""
    q = tier == "quick"
    if name == "libration":
        return ("libration", [{"mu_i": 0, "idx": 3}, {"mu_i": 1, "idx": 1}],
                [["read", ["position"]], ["read", ["linear_modes"]], ["read", ["eigenvalues"]], ["cs", [0]], ["cs", [1]],
                 ["roundtrip", ["pickle", True]], ["roundtrip", ["inplace", True]]] + ([] if q else [["read", ["is_stable"]], ["read", ["energy"]]]), 3)
    if name == "cm":
        # low degrees keep one sequence (fresh System + point + manifold, twin answers memoised) at ~0.05 s
        # starts at the HIGHER degree so that "query (compiles the system at 4) -> lower the degree -> same query" fits in length 3
        return ("cm", [{"mu_i": 0, "idx": 1, "deg": 4}],
                [["set_degree", [3]], ["set_degree", [4]], ["q", ["compute", None]], ["q", ["hamiltonian", 3]], ["q", ["to_synodic_section", 0]],
                 ["q", ["to_synodic", 0]]] + ([] if q else [["q", ["degree", None]], ["roundtrip", ["pickle"]], ["set_degree", [5]]]), 3 if q else 4)
    if name == "system":
        letters = [["propagate", [0, 0, 0, 0, 1]], ["propagate", [0, 0, 0, 1, 1]], ["propagate", [0, 0, 0, 0, -1]]]     # base, other order, backward
        if not q:
            letters += [["propagate", [0, 0, 1, 0, 1]], ["roundtrip", ["pickle", True]]]      # other steps, save/load and continue on the loaded object
        return ("system", [{"mu_i": 0, "kind": "fixed"}], letters, 2 if q else 3)
    if name == "orbit-guess":
        return ("orbit", [{"family": fam, "mu_i": 0, "idx": 1, "x": None, "T": None, "last_prop": None}],
                [["correct", [0]], ["correct", [1]], ["set_period", [1]], ["read", ["period"]], ["read", ["monodromy"]], ["propagate", [0]],
                 ["trajectory", []], ["roundtrip", ["pickle", False]]], 3)
    if name == "orbit-corrected":
        x, T = corrected_state(fam)
        return ("orbit", [{"family": fam, "mu_i": 0, "idx": 1, "x": x, "T": T, "last_prop": None}],
                [["propagate", [0]], ["propagate", [1]], ["propagate", [2]], ["trajectory", []], ["read", ["monodromy"]]]
                + ([] if q else [["set_period", [1]], ["correct", [0]]]), 4)
    if name == "orbit-period":
        x, T = corrected_state(fam)
        return ("orbit", [{"family": fam, "mu_i": 0, "idx": 1, "x": x, "T": T, "last_prop": None}],
                [["set_period", [1]], ["set_period", [4]], ["read", ["monodromy"]], ["read", ["stability_indices"]], ["propagate", [0]],
                 ["trajectory", []]] + ([] if q else [["set_period", [2]], ["set_period", [3]], ["roundtrip", ["deepcopy", False]]]), 3)
    raise HarnessError(name)


def enumerate_sequences(ctx, name, part, nparts, fam=None):
    """All operation sequences of length 1..maxlen over the reduced alphabet; sequence k is run by part k % nparts."""
    kind, inits, letters, maxlen = alphabet(name, ctx.tier, fam)
    before = set(ctx.verdicts)
    k = done = 0
    for init in inits:
        for n in range(1, maxlen + 1):
            for seq in itertools.product(letters, repeat=n):
                k += 1
                if k % nparts != part:
                    continue
                execute(kind, [["init", json.loads(json.dumps(init))]] + [[op, list(a)] for op, a in seq], ctx)
                done += 1
    label = name if fam is None else "%s:%s" % (name, fam)
    ctx.extra.setdefault("exhaustive_sequences", {})
    ctx.extra["exhaustive_sequences"][label] = ctx.extra["exhaustive_sequences"].get(label, 0) + done
    if part == 0:
        ctx.extra.setdefault("exhaustive_space", {})[label] = {"alphabet": len(letters), "maxlen": maxlen, "inits": len(inits), "sequences": k}
    shrink_new(ctx, before)


# ----------------------------------------------------------------------------------------------- self-test
def selftest():
    a = np.array([1.0, 2.0, 3.0])
    if diff(canon(a), canon(a.copy())) is not None:
        raise HarnessError("diff reports a difference between equal arrays")
    if diff(canon(a), canon(a * (1 + 1e-6))) is None or diff(canon(a), canon(a[:2])) is None:
        raise HarnessError("diff is blind")
    if diff(canon(Raised(ValueError("x"))), canon(1.0)) is None or diff(canon(Raised(ValueError("x"))), canon(Raised(ValueError("y")))) is not None:
        raise HarnessError("diff mishandles exceptions")
    if diff(canon((1.0, None, a)), canon((1.0, None, a))) is not None or diff(canon([1.0]), canon([1.0 + 1e-6])) is None:
        raise HarnessError("diff mishandles nesting")


def _discrimination(ctx, kind):
    """Every pool variation must change the twin's answer by far more than the comparison slack, otherwise a stale
    answer would be invisible."""
    if kind == "cm":
        vals = []
        for d in CM_DEG:
            cm = hl().CenterManifold(fresh_L(0, 1), d)
            vals.append(np.asarray(cm.to_synodic(np.array(CM_PTS[0]))))
        m = min(float(np.max(np.abs(vals[i] - vals[j])) / np.max(np.abs(vals[i]))) for i in range(3) for j in range(i))
        ctx.extra["discrimination_cm_degree"] = m
        if not m > 1e2 * RTOL:
            raise HarnessError("centre-manifold degrees %s are indistinguishable at the pool point (%.3g)" % (CM_DEG, m))
    if kind == "orbit":
        for fam in ("halo", "lyapunov"):
            xs = []
            for i in (0, 1):
                o = shared_L(0, 1).create_orbit(fam, **ORBIT_CTOR[fam])
                o.correct(corr_options(i))
                xs.append(np.array(o.initial_state))
            m = float(np.max(np.abs(xs[0] - xs[1])) / np.max(np.abs(xs[0])))
            ctx.extra["discrimination_correct_tol_" + fam] = m
            if not m > 1e2 * RTOL:
                raise HarnessError("correction options 0/1 give indistinguishable %s orbits (%.3g)" % (fam, m))


# ----------------------------------------------------------------------------------------------- run / replay
ROLES = {
    "quick": ["orbit-halo", "orbit-lyapunov", "cm", "cm-x", "system", "system", "libration", "cross-sys", "cross-orbit", "system-x"],
    "thorough": ["orbit-halo", "orbit-lyapunov", "orbit-halo", "orbit-lyapunov", "cm", "cm", "cm-x", "cm-x", "system", "system", "system-x",
                 "system-x", "libration", "cross-sys", "cross-orbit", "cross-sys"],
}
ROLE_KINDS = {"orbit-halo": "orbit", "orbit-lyapunov": "orbit", "cm": "cm", "cm-x": "cm", "system": "system", "system-x": "system",
              "libration": "libration", "cross-sys": "cross", "cross-orbit": "cross"}
SHARDS = {t: len(r) for t, r in ROLES.items()}


def _role(ctx):
    roles = ROLES[ctx.tier]
    return roles[ctx.shard % len(roles)]


def _replay_regressions(ctx, role):
    """Stored regression histories are replayed by the shards whose role compiles that kind of object."""
    rdir = os.path.join(ROOT, "replays", PROPERTY)
    n = 0
    seen = {}
    if os.path.isdir(rdir):
        roles = [ROLES[ctx.tier][s % len(ROLES[ctx.tier])] for s in range(ctx.nshards)]
        for fn in sorted(os.listdir(rdir)):
            if not (fn.startswith("reg-") and fn.endswith(".json")):
                continue
            with open(os.path.join(rdir, fn)) as f:
                p = json.load(f)["payload"]
            kind = p.get("kind")
            owners = [s for s, r in enumerate(roles) if ROLE_KINDS[r] == kind] or [0]
            seen[kind] = seen.get(kind, 0) + 1
            if owners[seen[kind] % len(owners)] == ctx.shard:      # round-robin over the shards that compile this kind anyway
                replay(ctx, p)
                n += 1
    ctx.extra["regression_replays_in_shards"] = n


def _mark(ctx, label, t=[None]):
    """Diagnostics only (C20_TIMING=1): CPU time per phase into the notes; never used by a verdict."""
    if os.environ.get("C20_TIMING"):
        import time
        now = (time.process_time(), time.time())
        if t[0] is not None:
            ctx.note("shard %d %s: cpu %.1fs wall %.1fs (evaluations so far %d)" % (ctx.shard, label, now[0] - t[0][0], now[1] - t[0][1], ctx.evaluations))
        t[0] = now


CROSS_ORBIT_SCRIPT = [
    [["init", {"slots": {"A": 0, "B": 1}}], ["orbit", ["A", "closure"]], ["orbit", ["B", "closure"]], ["orbit", ["A", "monodromy"]],
     ["orbit", ["B", "monodromy"]], ["sysprop", ["B", 0, -1]], ["sysprop", ["A", 0, -1]], ["orbit", ["A", "monodromy"]], ["drop", ["A"]],
     ["orbit", ["B", "monodromy"]], ["orbit", ["B", "closure"]]],
    [["init", {"slots": {"A": 1, "B": 0}}], ["sysprop", ["A", 1, -1]], ["orbit", ["B", "monodromy"]], ["orbit", ["A", "monodromy"]],
     ["orbit", ["B", "closure"]], ["orbit", ["A", "closure"]]],
]


def run(ctx):
    _mark(ctx, "start")
    selftest()
    role = _role(ctx)
    q = ctx.tier == "quick"
    _BUDGET.update({"orbit_cont": (1 if role == "orbit-halo" else 0) if q else 4, "system_cont": 1 if q else 6,
                    "cross_create": 6 if q else 36, "cross_orbit": 0})
    _replay_regressions(ctx, role)
    _mark(ctx, "import+replays")
    roles = [ROLES[ctx.tier][s % len(ROLES[ctx.tier])] for s in range(ctx.nshards)]
    nroles = {r: roles.count(r) for r in set(roles)}
    rank = roles[:ctx.shard].count(role)
    lib_init = st.fixed_dictionaries({"mu_i": st.sampled_from([0, 1]), "idx": st.sampled_from([1, 2, 3])})

    if role.startswith("orbit-"):
        fam = role.split("-")[1]
        if rank == 0 and fam == "halo":
            _discrimination(ctx, "orbit")
        enumerate_sequences(ctx, "orbit-guess", rank, nroles[role], fam)
        _mark(ctx, "orbit-guess enumeration")
        enumerate_sequences(ctx, "orbit-corrected", rank, nroles[role], fam)
        _mark(ctx, "orbit-corrected enumeration")
        enumerate_sequences(ctx, "orbit-period", rank, nroles[role], fam)
        _mark(ctx, "orbit-period enumeration")
        walk(ctx, "orbit", "orbit-" + fam, st.just({"family": fam, "mu_i": 0, "idx": 1, "x": None, "T": None, "last_prop": None}),
             ctx.scale(10, 120), ctx.scale(10, 25))
    elif role == "cm":
        if rank == 0:
            _discrimination(ctx, "cm")
        walk(ctx, "cm", "cm", st.fixed_dictionaries({"mu_i": st.sampled_from([0, 0, 1]), "idx": st.sampled_from([1, 2]), "deg": st.sampled_from(CM_DEG)}),
             ctx.scale(16, 200), ctx.scale(10, 25))
        _mark(ctx, "cm walk")
        enumerate_sequences(ctx, "cm", rank, nroles["cm"] + nroles.get("cm-x", 0))
    elif role == "cm-x":
        enumerate_sequences(ctx, "cm", nroles["cm"] + rank, nroles["cm"] + nroles["cm-x"])
        _mark(ctx, "cm enumeration")
        walk(ctx, "libration", "libration-x", lib_init, ctx.scale(20, 300), ctx.scale(10, 25))
    elif role == "system":
        kinds = ["fixed", "fixed", "fixed", "adaptive"] if q else ["fixed", "adaptive"]
        walk(ctx, "system", "system", st.fixed_dictionaries({"mu_i": st.sampled_from([0, 1]), "kind": st.sampled_from(kinds)}),
             ctx.scale(5, 36), ctx.scale(8, 20))
    elif role == "system-x":
        # every sequence needs a fresh System, i.e. one re-specialisation of the fixed-step kernel (~2 s)
        enumerate_sequences(ctx, "system", rank, nroles["system-x"])
    elif role == "libration":
        enumerate_sequences(ctx, "libration", rank, nroles["libration"])
        _mark(ctx, "libration enumeration")
        walk(ctx, "libration", "libration", lib_init, ctx.scale(40, 600), ctx.scale(10, 25))
    elif role == "cross-sys":
        walk(ctx, "cross", "cross", st.just({"slots": {"A": 0, "B": 1}}), ctx.scale(5, 24), ctx.scale(8, 16))
    elif role == "cross-orbit":
        before = set(ctx.verdicts)
        for h in CROSS_ORBIT_SCRIPT[:ctx.scale(1, 2)]:
            _BUDGET["cross_orbit"] = 2
            execute("cross", json.loads(json.dumps(h)), ctx)
        ctx.extra["cross_orbit_scripts"] = ctx.scale(1, 2)
        shrink_new(ctx, before)
    _mark(ctx, "role " + role)
    ctx.extra["roles"] = [role]
    ctx.exhaustive = None     # random walks are part of every run: the run as a whole is not an enumeration
    if _TMP is not None:
        import shutil
        shutil.rmtree(_TMP, ignore_errors=True)


def replay(ctx, payload):
    _BUDGET.setdefault("cross_orbit", 4)
    execute(payload["kind"], payload["history"], ctx)
