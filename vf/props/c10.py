"""C10 — backward propagation and time grids mean what they say.

Generated (system, method, order, span, grid size, direction) through
_propagate_dynsys / System.propagate and descending / ascending / non-uniform grids
through the low-level Integrator.integrate.  Oracle: reference flow of the UNWRAPPED
field at signed times (SciPy DOP853 1e-13 on independently written NumPy fields),
sign convention of the returned time stamps, forward-backward round trip,
reject-or-correct on descending grids, exact first sample / exact requested times.
"""
from __future__ import annotations

import logging
import math

import numpy as np
from hypothesis import strategies as st

from .. import hamtools
from ..hyp import explore
from ..oracle import cr3bp as O
from .c02 import DIM3, tmpl_np, tmpl_rhs

PROPERTY = "C10"
LEVEL = "exploration"
REPLAY_IN_RUN = True
SHARDS = {"quick": 7, "thorough": 14}
RULE = ("cases = (system in {CR3BP, 42-D variational with selective flip, polynomial Hamiltonian, user rhs autonomous / time-dependent}, method fixed 4/6/8 | adaptive 5/8 | "
        "symplectic 2/4/6/8, span, steps, direction +-1) through _propagate_dynsys / System.propagate, and (integrator, ascending | strictly descending | non-uniform | "
        "two-node grid) through Integrator.integrate; non-trivial = backward or descending case in which the reference state moves by more than 1e-3 from the initial "
        "state (so 'did not move' is distinguishable from 'moved correctly'); distinct by full case")
ASSUMPTIONS = [
    "accuracy budget of a fixed-step/symplectic run = 4 x its own self-convergence estimate |X_N - X_2N| + 1e-7*scale; adaptive runs (library default rtol=atol=1e-12, benign arcs) 1e-7*scale: the property is about direction and grids, integration accuracy itself is C02/C16",
    "selective flipping (variational system, flip_indices=slice(36,42)): the flipped, autonomous state block must follow the flow at -t; the unflipped matrix block is compared with the field _DirectedSystem documents (only listed components negated), no physical meaning is claimed for it",
    "a low-level integrator that raises on a descending grid has rejected it (any exception type)",
]
logging.disable(logging.CRITICAL)
MU_EM = 0.01215058560962404

_sys = {}


def sysreg():
    if not _sys:
        from hiten.algorithms.dynamics.rhs import create_rhs_system
        from hiten.algorithms.dynamics.rtbp import rtbp_dynsys, variational_dynsys
        _sys["tmpl"] = create_rhs_system(tmpl_rhs, DIM3, name="quad-template")
        _sys["rtbp"] = rtbp_dynsys(MU_EM)
        _sys["var"] = variational_dynsys(MU_EM)
    return _sys


_hams = {}


def hamsys(H):
    k = repr(H["terms"])
    if k not in _hams:
        if len(_hams) > 3:
            _hams.clear()
        _hams[k] = (hamtools.make_hamsys(H["terms"], H["maxdeg"]), hamtools.compile_terms(H["terms"]))
    return _hams[k]


# ------------------------------------------------------------------ instances
@st.composite
def tmpl_instance(draw, timedep):
    a, b, c = [draw(st.floats(-2.0, 2.0)) for _ in range(3)]
    d = [draw(st.floats(0.0, 0.3)) for _ in range(3)]
    A = [-d[0], a, b, -a, -d[1], c, -b, -c, -d[2]]
    Q = [draw(st.floats(-0.3, 0.3)) for _ in range(18)]
    F = [0.0] * 3; G = [0.0] * 3
    if timedep:
        F = [draw(st.floats(-1.0, 1.0)) for _ in range(3)]
        G = [draw(st.floats(-1.0, 1.0)) for _ in range(3)]
    w = draw(st.floats(0.5, 3.0))
    x0 = [draw(st.floats(-0.5, 0.5)) for _ in range(3)]
    return {"par": A + Q + F + G + [w], "x0": x0, "timedep": timedep}


def _cr3bp_state(draw):
    # benign region around L4-ish / between primaries, moderate velocities
    x = draw(st.floats(-0.6, 0.7)); y = draw(st.floats(0.35, 0.9)) * draw(st.sampled_from([-1, 1])); z = draw(st.floats(-0.3, 0.3))
    v = [draw(st.floats(-0.4, 0.4)) for _ in range(3)]
    return [x, y, z] + v


@st.composite
def prop_case(draw, H, kinds):
    kind = draw(st.sampled_from(kinds))
    c = {"kind": kind}
    if kind in ("rtbp", "rtbp-system", "var", "var-full"):
        c["x0"] = _cr3bp_state(draw)
    elif kind == "ham":
        c["H"] = H
        c["x0"] = [draw(st.floats(-0.4, 0.4)) for _ in range(6)]
    else:
        c["inst"] = draw(tmpl_instance(kind == "user-timedep"))
    meths = [("fixed", 4), ("fixed", 6), ("fixed", 8), ("adaptive", 5), ("adaptive", 8)]
    if kind == "ham":
        meths = meths + [("symplectic", 2), ("symplectic", 4), ("symplectic", 6), ("symplectic", 8)]
    m = draw(st.sampled_from(meths))
    c["method"], c["order"] = m
    c["tf"] = draw(st.floats(0.3, 2.0))
    c["steps"] = draw(st.sampled_from([2, 3, 17, 64, 200, 300]))
    c["forward"] = draw(st.sampled_from([-1, -1, 1]))
    return c


def _reference(c, t_signed):
    """Reference state of the unwrapped field at signed times (array incl. 0 first)."""
    from scipy.integrate import solve_ivp
    kind = c["kind"]
    t_signed = np.asarray(t_signed, float)
    if kind in ("rtbp", "rtbp-system", "var", "var-full"):
        y0 = np.array(c["x0"], float)
        f = lambda t, y: O.field(y, MU_EM)
    elif kind == "ham":
        KC = hamtools.compile_terms(c["H"]["terms"])
        y0 = np.array(c["x0"], float)
        f = lambda t, y: hamtools.ham_field(KC, y)
    else:
        par = np.array(c["inst"]["par"], float)
        y0 = np.array(c["inst"]["x0"], float)
        f = lambda t, y: tmpl_np(t, y, par)
    if t_signed[-1] == t_signed[0]:
        return np.repeat(y0[None, :], len(t_signed), axis=0)
    sol = solve_ivp(f, (float(t_signed[0]), float(t_signed[-1])), y0, method="DOP853", rtol=1e-13, atol=1e-13, t_eval=t_signed)
    if not sol.success:
        return None
    return sol.y.T


def _lib_system_and_y0(c):
    S = sysreg()
    kind = c["kind"]
    if kind == "rtbp":
        return S["rtbp"], np.array(c["x0"], float), None, slice(0, 6)
    if kind == "var":
        y0 = np.concatenate([np.eye(6).ravel(), np.array(c["x0"], float)])
        return S["var"], y0, slice(36, 42), slice(36, 42)
    if kind == "var-full":
        # the SAME system object with flip_indices=None (full time reversal of the 42-D autonomous system)
        y0 = np.concatenate([np.eye(6).ravel(), np.array(c["x0"], float)])
        return S["var"], y0, None, slice(36, 42)
    if kind == "ham":
        return hamsys(c["H"])[0], np.array(c["x0"], float), None, slice(0, 6)
    par = np.array(c["inst"]["par"], float)
    return S["tmpl"], np.concatenate([np.array(c["inst"]["x0"], float), par]), None, slice(0, 3)


def _run_lib(c, forward):
    from hiten.algorithms.dynamics.base import _propagate_dynsys
    if c["kind"] == "rtbp-system":
        from hiten import System
        if "S" not in _sys:
            sysreg()["S"] = System.from_mu(MU_EM)
        tr = _sys["S"].propagate(c["x0"], tf=c["tf"], steps=c["steps"], method=c["method"], order=c["order"], forward=forward)
        return np.asarray(tr.times, float), np.asarray(tr.states, float), slice(0, 6)
    sysm, y0, flip, obs = _lib_system_and_y0(c)
    sol = _propagate_dynsys(sysm, y0, 0.0, c["tf"], forward=forward, steps=c["steps"], method=c["method"], order=c["order"], flip_indices=flip)
    return np.asarray(sol.times, float), np.asarray(sol.states, float), obs


def eval_prop(c, ctx):
    fwd = c["forward"]
    tag = "%s:%s%d" % (c["kind"], c["method"], c["order"])
    grid = np.linspace(0.0, c["tf"], c["steps"])
    ref = _reference(c, fwd * grid)
    if ref is None or not np.all(np.isfinite(ref)) or np.max(np.abs(ref)) > 20:
        ctx.case(cls="prop:reference-unusable"); return
    if c["kind"] in ("rtbp", "rtbp-system", "var", "var-full"):
        dense = _reference(c, fwd * np.linspace(0.0, c["tf"], 200))
        if dense is None or min(min(O.distances(r, MU_EM)) for r in dense) < 0.15 or np.max(np.abs(dense)) > 5:
            ctx.case(cls="prop:near-primary-skipped"); return
    moved = float(np.max(np.abs(ref[-1] - ref[0])))
    nt = repr(c) if (fwd == -1 and moved > 1e-3) else None
    ctx.case(nontrivial=nt, cls=["prop:" + c["kind"], "prop:%s%d" % (c["method"], c["order"]), "prop:forward%+d" % fwd, "prop:steps=%d" % c["steps"]],
             sample={k: v for k, v in c.items() if k != "H"} if nt and ctx.evaluations % 40 == 0 else None)
    try:
        t, X, obs = _run_lib(c, fwd)
    except Exception as e:
        ctx.fail("propagate-raises:%s:forward%+d:%s" % (tag, fwd, type(e).__name__), c, "%s: %s" % (type(e).__name__, str(e)[:200].replace("\n", " ")))
        return
    # (1) sign convention and grid of the time stamps
    if len(t) != c["steps"] or X.shape[0] != c["steps"]:
        ctx.fail("sample-count:%s" % tag, c, "requested %d samples, got %d times / %d states" % (c["steps"], len(t), X.shape[0])); return
    if not np.array_equal(np.abs(t), grid):
        ctx.fail("time-stamps-not-on-requested-grid:%s" % tag, c, "|times| != linspace(0, tf, steps); max diff %.3g" % float(np.max(np.abs(np.abs(t) - grid)))); return
    if fwd == -1:
        if not (t[0] == 0.0 and np.all(t <= 0.0) and np.all(np.diff(t) < 0)):
            ctx.fail("backward-time-stamps-not-non-positive-decreasing:%s:%s" % (c["kind"] if c["kind"] == "ham" else "any", c["method"]), c,
                     "forward=-1 returned times %r ..." % (t[:4].tolist(),)); return
    else:
        if not (t[0] == 0.0 and np.all(np.diff(t) > 0)):
            ctx.fail("forward-time-stamps-not-increasing:%s" % tag, c, "times %r ..." % (t[:4].tolist(),)); return
    # (5) first sample is the initial state, bit for bit
    y0 = np.array(c["x0"], float) if "x0" in c else np.array(c["inst"]["x0"], float)
    if not np.array_equal(X[0, obs], y0):
        ctx.fail("first-sample-not-initial-state:%s" % tag, c, "states[0] != y0")
    # full time reversal of the variational system (flip_indices=None): the matrix block is the derivative of the
    # backward flow, Phi(-t) = D phi_{-t}(x0)
    if c["kind"] == "var-full" and c["method"] == "adaptive":
        try:
            _, Pref = O.flow_stm(np.array(c["x0"], float), fwd * c["tf"], MU_EM)
            Plib = X[-1, :36].reshape(6, 6)
            if not np.max(np.abs(Plib - Pref)) <= 1e-6 * max(1.0, float(np.max(np.abs(Pref)))):
                ctx.fail("variational-full-reversal:matrix-block-is-not-D-flow(%st)" % ("-" if fwd == -1 else ""), c,
                         "max |Phi_lib - D phi| = %.3g (|Phi| %.3g)" % (float(np.max(np.abs(Plib - Pref))), float(np.max(np.abs(Pref)))))
                return
        except Exception:
            pass
    # selective flipping (flip_indices=slice(36,42)): _DirectedSystem documents that only the derivatives of the listed
    # components are negated; the matrix block must therefore solve Phi' = +F(x(-s)) Phi along the reversed path
    # (reference: SciPy on that documented directed field built from the oracle's field and Jacobian)
    if c["kind"] == "var" and c["method"] == "adaptive" and fwd == -1:
        try:
            from scipy.integrate import solve_ivp

            def directed(s_, w):
                x = w[:6]; P = w[6:].reshape(6, 6)
                return np.concatenate([-O.field(x, MU_EM), (O.jacobian(x, MU_EM) @ P).ravel()])
            w0 = np.concatenate([np.array(c["x0"], float), np.eye(6).ravel()])
            so = solve_ivp(directed, (0.0, c["tf"]), w0, method="DOP853", rtol=1e-12, atol=1e-12)
            Pref = so.y[6:, -1].reshape(6, 6)
            Plib = X[-1, :36].reshape(6, 6)
            if so.success and not np.max(np.abs(Plib - Pref)) <= 1e-6 * max(1.0, float(np.max(np.abs(Pref)))):
                ctx.fail("selective-flip:unflipped-block-not-as-documented", c,
                         "max |Phi_lib - Phi(documented directed field)| = %.3g (|Phi| %.3g)" % (float(np.max(np.abs(Plib - Pref))), float(np.max(np.abs(Pref)))))
                return
        except Exception:
            pass
    # (2) meaning: the state at returned time -t is the flow at -t
    scale = max(1.0, float(np.max(np.abs(ref))))
    err = float(np.max(np.abs(X[:, obs] - ref)))
    # accuracy budget, independent of any other library run in the opposite direction: for fixed-step / symplectic
    # methods the self-convergence estimate |X_N - X_2N| of this very run (a wrong direction or a wrong time does
    # not converge to the reference); adaptive runs use the library default rtol=atol=1e-12 on benign arcs.
    selfc = 0.0
    if c["method"] != "adaptive":
        try:
            c2 = dict(c); c2["steps"] = 2 * c["steps"] - 1
            t2, X2, _ = _run_lib(c2, fwd)
            selfc = float(np.max(np.abs(X2[::2, obs] - X[:, obs])))
        except Exception:
            selfc = 0.0
    tol = 4 * selfc + 1e-7 * scale
    if selfc > 0.02 * max(moved, 1e-3):
        # the grid is too coarse for this method to be in its asymptotic regime: accuracy is not judged
        ctx.classes["prop:too-coarse-for-accuracy-judgement"] += 1
        tol = float("inf")
    if not err <= tol:
        sub = ":time-dependent-rhs" if c["kind"] == "user-timedep" else ""
        name = "backward-state-is-not-flow-at-minus-t" if fwd == -1 else "forward-state-is-not-flow-at-t"
        ctx.fail("%s:%s:%s%s" % (name, c["kind"], c["method"], sub), c,
                 "max |state(%st) - reference flow(%st)| = %.3g (self-convergence %.3g, tolerance %.3g)" % ("-" if fwd == -1 else "", "-" if fwd == -1 else "", err, selfc, tol))
        return
    if fwd == -1:
        try:
            tf_, Xf, _ = _run_lib(c, +1)
            reff = _reference(c, grid)
            err_f = float(np.max(np.abs(Xf[:, obs] - reff))) if reff is not None else 0.0
        except Exception:
            Xf = None
            err_f = 0.0
        # (3) forward then backward returns to the start (through the library only)
        c2 = dict(c)
        try:
            if Xf is not None and c["kind"] in ("user-auto", "rtbp", "rtbp-system", "ham") and c["steps"] >= 17:
                inst_end = Xf[-1, obs]
                cb = dict(c)
                if "x0" in c:
                    cb["x0"] = inst_end.tolist()
                else:
                    cb["inst"] = dict(c["inst"]); cb["inst"]["x0"] = inst_end.tolist()
                tb, Xb, _ = _run_lib(cb, -1)
                rt = float(np.max(np.abs(Xb[-1, obs] - y0)))
                growth = max(1.0, float(np.max(np.abs(Xf[:, obs]))) / max(1e-3, float(np.max(np.abs(y0)))))
                if not rt <= 50 * (err_f + err + selfc) * growth + 1e-7 * scale:
                    ctx.fail("round-trip:%s" % tag, c, "forward then backward ends %.3g from the start (forward err %.3g, backward err %.3g)" % (rt, err_f, err))
        except Exception as e:
            ctx.fail("round-trip-raises:%s:%s" % (tag, type(e).__name__), c, str(e)[:200])


# ------------------------------------------------------------------ low-level grids
@st.composite
def grid_case(draw, H, kinds):
    kind = draw(st.sampled_from(kinds))
    c = {"kind": kind}
    if kind == "ham":
        c["H"] = H
        c["x0"] = [draw(st.floats(-0.4, 0.4)) for _ in range(6)]
        meths = [("fixed", 4), ("fixed", 8), ("adaptive", 5), ("adaptive", 8), ("symplectic", 4)]
    else:
        c["inst"] = draw(tmpl_instance(kind == "user-timedep"))
        meths = [("fixed", 4), ("fixed", 6), ("fixed", 8), ("adaptive", 5), ("adaptive", 8)]
    c["method"], c["order"] = draw(st.sampled_from(meths))
    c["shape"] = draw(st.sampled_from(["descending", "descending", "descending-nonuniform", "ascending", "ascending-nonuniform", "two-node-descending", "zero-span"]))
    c["t0"] = draw(st.sampled_from([0.0, 0.0, 0.5, -0.3]))
    c["span"] = draw(st.floats(0.3, 2.0))
    c["n"] = draw(st.sampled_from([2, 3, 9, 40, 40, 150, 150]))
    c["gs"] = draw(st.integers(0, 2 ** 31))
    c["event"] = draw(st.sampled_from([False, False, False, True, "active", "active"]))
    return c


def inactive_event(t, y):
    return y[0] * 0.0 + 5.0


def active_event(t, y):
    return y[0] - 0.07


def _first_crossing(c, tv):
    """First zero of g = y0 - 0.07 along the reference flow in the direction of the grid, or None.
    Returns (t_star, gdot) only if the crossing is transversal and isolated (no other zero within 4 grid steps)."""
    from scipy.integrate import solve_ivp
    from scipy.optimize import brentq
    if c["kind"] == "ham":
        KC = hamtools.compile_terms(c["H"]["terms"]); y0 = np.array(c["x0"], float)
        f = lambda t, y: hamtools.ham_field(KC, y)
    else:
        par = np.array(c["inst"]["par"], float); y0 = np.array(c["inst"]["x0"], float)
        f = lambda t, y: tmpl_np(t, y, par)
    sol = solve_ivp(f, (float(tv[0]), float(tv[-1])), y0, method="DOP853", rtol=1e-13, atol=1e-13, dense_output=True)
    if not sol.success:
        return "unusable"
    ts = np.linspace(tv[0], tv[-1], 4001)
    g = sol.sol(ts)[0] - 0.07
    if abs(g[0]) < 1e-3:
        return "unusable"          # start on / next to the surface: not this property's subject (C11)
    idx = np.nonzero(g[:-1] * g[1:] < 0)[0]
    if len(idx) == 0:
        if np.min(np.abs(g)) < 1e-3:
            return "unusable"      # grazing
        return None
    k = int(idx[0])
    tstar = brentq(lambda t: sol.sol(t)[0] - 0.07, ts[k], ts[k + 1], xtol=1e-14)
    ystar = sol.sol(tstar)
    gdot = float(f(tstar, ystar)[0])
    hmax = float(np.max(np.abs(np.diff(tv))))
    if abs(gdot) < 0.05:
        return "unusable"
    if len(idx) > 1 and abs(ts[int(idx[1])] - tstar) < 4 * hmax:
        return "unusable"
    if abs(tstar - tv[-1]) < 4 * hmax or abs(tstar - tv[0]) < 4 * hmax:
        return "unusable"
    return (float(tstar), gdot, ystar)


def _grid_of(c):
    n = 2 if c["shape"].startswith("two-node") else c["n"]
    if c["shape"] == "zero-span":
        return np.full(n, c["t0"])
    if "nonuniform" in c["shape"]:
        rng = np.random.default_rng(c["gs"])
        u = np.concatenate([[0.0], np.cumsum(rng.uniform(0.2, 1.0, size=n - 1))])
        u = u / u[-1]
    else:
        u = np.linspace(0.0, 1.0, n)
    sgn = -1.0 if "descending" in c["shape"] else 1.0
    return c["t0"] + sgn * c["span"] * u


def _reference_grid(c, tv):
    from scipy.integrate import solve_ivp
    if c["kind"] == "ham":
        KC = hamtools.compile_terms(c["H"]["terms"]); y0 = np.array(c["x0"], float)
        f = lambda t, y: hamtools.ham_field(KC, y)
    else:
        par = np.array(c["inst"]["par"], float); y0 = np.array(c["inst"]["x0"], float)
        f = lambda t, y: tmpl_np(t, y, par)
    if tv[0] == tv[-1]:
        return np.repeat(y0[None, :], len(tv), axis=0)
    sol = solve_ivp(f, (float(tv[0]), float(tv[-1])), y0, method="DOP853", rtol=1e-13, atol=1e-13, t_eval=tv)
    return sol.y.T if sol.success else None


def eval_grid(c, ctx):
    from hiten.algorithms.integrators.rk import AdaptiveRK, RungeKutta
    from hiten.algorithms.integrators.symplectic import ExtendedSymplectic
    from hiten.algorithms.types.configs import EventConfig
    tv = _grid_of(c)
    ref = _reference_grid(c, tv)
    if ref is None or not np.all(np.isfinite(ref)) or np.max(np.abs(ref)) > 20:
        ctx.case(cls="grid:reference-unusable"); return
    if c["kind"] == "ham":
        sysm = hamsys(c["H"])[0]; y0 = np.array(c["x0"], float); obs = slice(0, 6)
    else:
        sysm = sysreg()["tmpl"]; y0 = np.concatenate([np.array(c["inst"]["x0"], float), np.array(c["inst"]["par"], float)]); obs = slice(0, 3)
    if c["method"] == "fixed":
        integ = RungeKutta(order=c["order"])
    elif c["method"] == "adaptive":
        integ = AdaptiveRK(order=c["order"], rtol=1e-10, atol=1e-10)
    else:
        integ = ExtendedSymplectic(order=c["order"])
    tag = "%s%d" % (c["method"], c["order"])
    desc = "descending" in c["shape"]
    moved = float(np.max(np.abs(ref[-1] - ref[0])))
    nt = repr(c) if (desc and moved > 1e-3) else None
    ctx.case(nontrivial=nt, cls=["grid:" + c["shape"], "grid:" + tag, "grid:" + c["kind"], "grid:event" if c["event"] else "grid:no-event"],
             sample={k: v for k, v in c.items() if k != "H"} if nt and ctx.evaluations % 40 == 0 else None)
    kw = {}
    if c["event"] == "active":
        # an ACTIVE event on ascending / descending grids: the first crossing in the direction of travel
        if c["shape"] == "zero-span" or len(tv) < 9 or (c["method"] == "adaptive" and desc):
            return
        fc = _first_crossing(c, tv)
        if fc == "unusable":
            ctx.classes["grid:active-event:instance-skipped"] += 1
            return
        try:
            sol = integ.integrate(sysm, y0.copy(), tv.copy(), event_fn=active_event, event_cfg=EventConfig(direction=0, terminal=True))
        except Exception as e:
            ctx.fail("active-event-raises:%s:%s:%s" % (tag, "descending" if desc else "ascending", type(e).__name__), c, str(e)[:200].replace("\n", " "))
            return
        t = np.asarray(sol.times, float); X = np.asarray(sol.states, float)
        # accuracy budget of this method on this grid (mirrored ascending run without event)
        try:
            tva = tv[0] + np.abs(tv - tv[0])
            sa = integ.integrate(sysm, y0.copy(), tva)
            ra = _reference_grid(c, tva)
            e_f = float(np.max(np.abs(np.asarray(sa.states, float)[:, obs] - ra))) if c["method"] != "adaptive" else 1e-8
        except Exception:
            e_f = float("inf")
        if not e_f <= 1e-3:
            ctx.classes["grid:too-coarse-for-accuracy-judgement"] += 1
            return
        ctx.classes["grid:active-event:%s:%s" % (tag, "descending" if desc else "ascending")] += 1
        if fc is None:
            if t[-1] != tv[-1]:
                ctx.fail("spurious-event:%s:%s" % (tag, "descending" if desc else "ascending"), c, "g never crosses zero on the span but times[-1]=%r" % t[-1])
            return
        tstar, gdot, ystar = fc
        tol_t = (50 * e_f + 1e-8) / abs(gdot) + 1e-8
        if not abs(t[-1] - tstar) <= tol_t:
            ctx.fail("event-time-wrong:%s:%s" % (tag, "descending" if desc else "ascending"), c,
                     "first crossing of g at t*=%.12g, reported %.12g (tolerance %.3g, grid step %.3g)" % (tstar, t[-1], tol_t, float(np.max(np.abs(np.diff(tv))))))
            return
        gh = float(X[-1, 0] - 0.07)
        if not abs(gh) <= abs(gdot) * tol_t + 50 * e_f + 1e-8:
            ctx.fail("event-state-off-surface:%s:%s" % (tag, "descending" if desc else "ascending"), c, "g(y_hit)=%.3g" % gh)
        return
    if c["event"]:
        kw = dict(event_fn=inactive_event, event_cfg=EventConfig(direction=0, terminal=True))
    try:
        sol = integ.integrate(sysm, y0.copy(), tv.copy(), **kw)
    except Exception as e:
        if desc or c["shape"] == "zero-span":
            ctx.classes["grid:rejected:%s:%s" % (tag, type(e).__name__)] += 1
            return
        ctx.fail("ascending-grid-raises:%s:%s" % (tag, type(e).__name__), c, str(e)[:200].replace("\n", " "))
        return
    t = np.asarray(sol.times, float); X = np.asarray(sol.states, float)
    scale = max(1.0, float(np.max(np.abs(ref))))
    # accuracy budget: the error of the SAME integrator on the mirrored ascending grid of the same instance
    # (direction/grid handling is the property, accuracy is C02); coarse grids on which the method itself is
    # inaccurate are classed and not judged on accuracy.
    hmax = float(np.max(np.abs(np.diff(tv)))) if len(tv) > 1 else 0.0
    if c["method"] == "adaptive":
        tol = 1e-6 * scale
    else:
        tva = tv[0] + np.abs(tv - tv[0])
        try:
            sa = integ.integrate(sysm, y0.copy(), tva)
            ra = _reference_grid(c, tva)
            e_f = float(np.max(np.abs(np.asarray(sa.states, float)[:, obs] - ra)))
        except Exception:
            e_f = float("inf")
        # the mirrored ascending run is itself a C10 subject ("samples are returned exactly at the requested times"):
        # judge it against an a-priori global error bound 10*(h*Lam)^p*exp(L*span)*(|y|+1) with Lipschitz / frequency
        # estimates of the instance, so that a defect shared by both runs cannot hide in the budget
        if c["kind"] == "ham":
            Lam = 4.0; mu_log = 1.0
        else:
            par = np.array(c["inst"]["par"], float)
            A_ = par[0:9].reshape(3, 3)
            nl = 2 * float(np.linalg.norm(par[9:27])) * scale + float(np.max(np.abs(par[30:33])))
            Lam = max(float(np.linalg.norm(A_, 2)) + nl, float(par[33]))
            # error growth is governed by the logarithmic norm (the linear part is a damped rotation), not by the Lipschitz constant
            mu_log = max(0.0, float(np.max(np.linalg.eigvalsh(0.5 * (A_ + A_.T))))) + nl
        apriori = 10.0 * (hmax * Lam) ** c["order"] * math.exp(min(mu_log * c["span"], 30.0)) * (scale + 1.0) + 1e-9 * scale
        if c["method"] == "fixed" and np.isfinite(e_f) and e_f > apriori and hmax * Lam <= 0.5:
            ctx.fail("samples-not-at-requested-times-or-inaccurate:%s:%s" % (tag, "nonuniform" if "nonuniform" in c["shape"] else "uniform"), c,
                     "ascending grid of the same spacing: samples differ from the reference flow at the requested times by %.3g; a-priori bound for order %d, h=%.3g: %.3g" % (e_f, c["order"], hmax, apriori))
            return
        if not e_f <= 0.02 * max(moved, 1e-3):
            ctx.classes["grid:too-coarse-for-accuracy-judgement"] += 1
            tol = float("inf")
        else:
            tol = 50 * e_f + 1e-8 * scale
    if c["event"]:
        # inactive event: the end of the span must be returned (either as [t0, t_end] or as the full grid)
        if not (len(t) >= 2 and t[0] == tv[0] and (len(t) == 2 or np.array_equal(t, tv))):
            ctx.fail("event-path-times:%s:%s" % (tag, c["shape"]), c, "times=%r" % t[:6].tolist()); return
        if t[-1] != tv[-1]:
            ctx.fail("event-path-end-time:%s:%s" % (tag, "descending" if desc else "ascending"), c, "no event fired but times[-1]=%r, requested end %r" % (t[-1], tv[-1])); return
        e = float(np.max(np.abs(X[-1, obs] - ref[-1])))
        if not e <= tol:
            ctx.fail("silently-wrong-trajectory:%s:%s:event-path" % (tag, "descending" if desc else c["shape"]), c,
                     "returned normally; state at requested end time differs from the reference flow by %.3g (tolerance %.3g; reference moved %.3g)" % (e, tol, moved))
        return
    if not np.array_equal(t, tv):
        ctx.fail("times-not-exactly-requested:%s:%s" % (tag, c["shape"]), c, "returned times differ from t_vals (max diff %.3g)" % float(np.max(np.abs(t - tv))) if t.shape == tv.shape else "shape %r vs %r" % (t.shape, tv.shape))
        return
    if not np.array_equal(X[0], y0):
        ctx.fail("first-sample-not-initial-state:%s:%s" % (tag, c["shape"]), c, "states[0] != y0")
    e = float(np.max(np.abs(X[:, obs] - ref)))
    if not e <= tol:
        ctx.fail("silently-wrong-trajectory:%s:%s" % (tag, "descending" if desc else c["shape"]), c,
                 "returned normally; samples differ from the reference flow at the requested times by %.3g (tolerance %.3g; reference moved %.3g)" % (e, tol, moved))
        return
    # (6) interpolation on the returned solution at interior times
    if len(tv) >= 3 and tv[0] != tv[-1] and c["method"] != "symplectic":
        tq = 0.5 * (tv[:-1] + tv[1:])
        try:
            Yq = np.asarray(sol.interpolate(tq), float)
            rq = _reference_grid(c, np.concatenate([[tv[0]], tq]))[1:]
            # Hermite (derivatives present) is O(h^4), linear O(h^2)
            cap = (20.0 * hmax ** 2 if sol.derivatives is None else 20.0 * hmax ** 4) * scale * 10 + tol
            ei = float(np.max(np.abs(Yq[:, obs] - rq)))
            if not ei <= cap:
                ctx.fail("interpolate:%s:%s" % (tag, "descending" if desc else "ascending"), c, "interpolated states differ from the reference by %.3g (cap %.3g)" % (ei, cap))
        except Exception as ex:
            ctx.fail("interpolate-raises:%s:%s" % ("descending" if desc else "ascending", type(ex).__name__), c, str(ex)[:200])


# each (system, direction) pair is a distinct numba function type and re-specialises every integrator
# kernel, so shards are split by system kind: a shard compiles only what it uses.
PLAN = [("prop", ["rtbp"]), ("prop", ["rtbp-system"]), ("prop", ["var", "var-full"]), ("prop", ["ham"]),
        ("prop", ["user-auto", "user-timedep"]), ("grid", ["user-auto", "user-timedep"]), ("grid", ["ham"])]


def run(ctx):
    from ..runner import shard_replays
    shard_replays(ctx, replay)
    Hs = []

    def grab(h, cx):
        Hs.append(h)
    explore(ctx, "H", hamtools.polyham(maxdeg=4, eps_max=0.3), grab, 1, shrink=False)
    H = Hs[0]
    total = ctx.scale(840, 16000)
    per_slot = max(1, total // max(len(PLAN), ctx.nshards))
    for slot in range(ctx.shard, max(len(PLAN), ctx.nshards), ctx.nshards):
        mode, kinds = PLAN[slot % len(PLAN)]
        if mode == "prop":
            explore(ctx, "prop-%d" % slot, prop_case(H, kinds), eval_prop, per_slot, shrink=False)
        else:
            explore(ctx, "grid-%d" % slot, grid_case(H, kinds), eval_grid, 2 * per_slot, shrink=False)


def replay(ctx, payload):
    if "shape" in payload:
        eval_grid(payload, ctx)
    else:
        eval_prop(payload, ctx)
