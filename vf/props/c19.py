"""C19 — reported connections are geometrically and kinematically what they claim.

Generated: pairs of planar point clouds (lattice / float / clustered /
collinear / duplicated) with attached 6-D states, radii and thresholds placed
on and around actual pair distances / velocity mismatches; segment pairs for
the closest-point routine (generic, parallel, anti-parallel, collinear,
zero-length, touching, crossing).
Oracle: brute-force O(NM) mutual-nearest test, recomputed velocity mismatch,
exact rational segment-segment distance (validity predicate, not a unique
answer).
"""
from __future__ import annotations

import math
from fractions import Fraction as F

import numpy as np
from hypothesis import strategies as st

from ..hyp import explore
from ..oracle import geom

PROPERTY = "C19"
LEVEL = "exploration"
SHARDS = {"quick": 8, "thorough": 16}
RULE = ("cases = generated (cloud_u, cloud_s, states, eps, dv_tol, bal_tol) requests through _ConnectionsBackend.run "
        "plus generated segment pairs through _closest_points_on_segments_2d; non-trivial = request with >=1 reported "
        "connection AND (a nearest-neighbour tie, or a refined pair whose local segments are parallel/collinear/zero-length, "
        "or a mismatch within 1e-9 of dv_tol/bal_tol), or a segment pair that is not in general position; "
        "distinct by full input")
ASSUMPTIONS = [
    "states carry the plane coordinates in components 0,1 (as real section hits do), so the closest points used by the refinement are observable from the reported states",
    "completeness (every mutual pair is reported) is not asserted; the statement is about reported connections",
    "kind == ballistic iff delta_v <= ballistic_tol as documented in ConnectionOptions (equality counts as ballistic)",
]

_be = None


def _backend():
    global _be
    if _be is None:
        from hiten.algorithms.connections import backends as B
        from hiten.algorithms.connections.types import ConnectionsBackendRequest
        _be = (B, ConnectionsBackendRequest, B._ConnectionsBackend())
    return _be


# ------------------------------------------------------------------ generators
def _detiny(x):
    """Coordinates are nondimensional CR3BP lengths; magnitudes whose squares
    underflow are outside the domain (mapped to exactly 0, not filtered)."""
    return 0.0 if abs(x) < 1e-9 else float(x)


_lat = st.integers(-4, 4)
_scale = st.sampled_from([1.0, 0.5, 0.25, 2.0, 1e-3, 0.1])


@st.composite
def seg_case(draw):
    kind = draw(st.sampled_from(["lattice", "lattice", "float", "parallel", "antiparallel", "collinear",
                                 "zero_a", "zero_b", "zero_both", "touch", "nearpar"]))
    sc = draw(_scale)
    if kind == "float":
        pts = [_detiny(draw(st.floats(-3, 3))) for _ in range(8)]
    else:
        a0 = (draw(_lat), draw(_lat)); u = (draw(_lat), draw(_lat))
        b0 = (draw(_lat), draw(_lat)); v = (draw(_lat), draw(_lat))
        if kind in ("parallel", "antiparallel", "collinear", "nearpar"):
            if u == (0, 0):
                u = (1, 2)
            k = draw(st.sampled_from([1, 2, 3, -1, -2])) if kind != "antiparallel" else draw(st.sampled_from([-1, -2, -3]))
            v = (k * u[0], k * u[1])
            if kind == "collinear":
                m = draw(st.integers(-3, 3))
                b0 = (a0[0] + m * u[0], a0[1] + m * u[1])
        if kind == "zero_a" or kind == "zero_both":
            u = (0, 0)
        if kind == "zero_b" or kind == "zero_both":
            v = (0, 0)
        if kind == "touch":
            b0 = (a0[0] + u[0], a0[1] + u[1])
        pts = [a0[0], a0[1], a0[0] + u[0], a0[1] + u[1], b0[0], b0[1], b0[0] + v[0], b0[1] + v[1]]
        pts = [p * sc for p in pts]
        if kind == "nearpar":
            pts[7] = pts[7] + draw(st.sampled_from([1e-13, -1e-12, 1e-9, 3e-16]))
    return {"kind": kind, "pts": [float(p) for p in pts]}


@st.composite
def cloud(draw, n, kind, sc):
    pts = []
    if kind == "lattice":
        for _ in range(n):
            pts.append((draw(_lat) * sc, draw(_lat) * sc))
    elif kind == "collinear":
        d = (draw(st.integers(-2, 2)), draw(st.integers(-2, 2)))
        if d == (0, 0):
            d = (1, 1)
        o = (draw(_lat), draw(_lat))
        for _ in range(n):
            k = draw(st.integers(-4, 4))
            pts.append(((o[0] + k * d[0]) * sc, (o[1] + k * d[1]) * sc))
    elif kind == "cluster":
        c = (draw(st.floats(-1, 1)), draw(st.floats(-1, 1)))
        for _ in range(n):
            pts.append((_detiny(c[0] + draw(st.floats(-1, 1)) * 0.05 * sc), _detiny(c[1] + draw(st.floats(-1, 1)) * 0.05 * sc)))
    else:
        for _ in range(n):
            pts.append((_detiny(draw(st.floats(-2, 2)) * sc), _detiny(draw(st.floats(-2, 2)) * sc)))
    return pts


@st.composite
def conn_case(draw, maxn):
    kind_u = draw(st.sampled_from(["lattice", "lattice", "float", "cluster", "collinear"]))
    kind_s = draw(st.sampled_from([kind_u, kind_u, "lattice", "float"]))
    sc = draw(_scale)
    n = draw(st.integers(0, maxn)); m = draw(st.integers(0, maxn))
    pu = draw(cloud(n, kind_u, sc)); ps = draw(cloud(m, kind_s, sc))
    if pu and ps and draw(st.booleans()):
        # share some points between the clouds (distance exactly 0)
        k = draw(st.integers(0, len(pu) - 1)); l = draw(st.integers(0, len(ps) - 1))
        ps[l] = pu[k]
    vel = st.integers(-3, 3)
    vsc = draw(st.sampled_from([1.0, 0.5, 1e-3, 2 ** -20]))
    Xu = [[p[0], p[1], float(draw(_lat)), draw(vel) * vsc, draw(vel) * vsc, draw(vel) * vsc] for p in pu]
    Xs = [[p[0], p[1], float(draw(_lat)), draw(vel) * vsc, draw(vel) * vsc, draw(vel) * vsc] for p in ps]
    # thresholds: placed on actual values when possible
    dists = sorted({math.hypot(a[0] - b[0], a[1] - b[1]) for a in pu for b in ps})
    if dists and draw(st.integers(0, 3)) > 0:
        eps = draw(st.sampled_from(dists[: max(1, len(dists) // 2 + 1)]))
        eps = eps * draw(st.sampled_from([1.0, 1.0, 1.0 + 2 ** -40, 1.5, 3.0]))
        if eps == 0.0:
            eps = draw(st.sampled_from([0.0, 1e-9, sc]))
    else:
        eps = draw(st.floats(0, 4)) * sc
    dvs = sorted({math.sqrt(sum((a[k] - b[k]) ** 2 for k in (3, 4, 5))) for a in Xu for b in Xs})
    mode = draw(st.integers(0, 3))
    if dvs and mode > 0:
        dv_tol = draw(st.sampled_from(dvs)) * draw(st.sampled_from([1.0, 1.0, 1 + 2 ** -50, 1 - 2 ** -50, 2.0, 10.0]))
        bal_tol = draw(st.sampled_from(dvs)) * draw(st.sampled_from([1.0, 1.0, 1 + 2 ** -50, 1 - 2 ** -50, 0.5]))
    else:
        dv_tol = draw(st.floats(0, 10)) * vsc
        bal_tol = draw(st.floats(0, 3)) * vsc
    # ConnectionOptions only requires both tolerances to be positive: ballistic_tol > delta_v_tol is legitimate
    if dvs and draw(st.integers(0, 3)) == 0:
        dv_tol = draw(st.sampled_from(dvs)) * draw(st.sampled_from([1.0, 0.5, 1 - 2 ** -50]))
        bal_tol = dv_tol * draw(st.sampled_from([2.0, 10.0, 1e3])) + draw(st.sampled_from([0.0, vsc]))
    with_idx = draw(st.booleans())
    ti_u = [draw(st.integers(0, 50)) for _ in pu] if with_idx else None
    ti_s = [draw(st.integers(0, 50)) for _ in ps] if with_idx else None
    return {"pu": [list(p) for p in pu], "ps": [list(p) for p in ps], "Xu": Xu, "Xs": Xs, "eps": float(eps),
            "dv_tol": float(dv_tol), "bal_tol": float(bal_tol), "ti_u": ti_u, "ti_s": ti_s}


# ------------------------------------------------------------------ oracles
def eval_seg(case, ctx):
    B = _backend()[0]
    p = case["pts"]
    a0, a1, b0, b1 = (p[0], p[1]), (p[2], p[3]), (p[4], p[5]), (p[6], p[7])
    cls = geom.classify(a0, a1, b0, b1)
    s, t, px, py, qx, qy = B._closest_points_on_segments_2d(*p)
    ctx.case(nontrivial=("seg", tuple(p)) if cls != "generic" else None, cls="seg:" + cls,
             sample={"segments": p, "class": cls, "returned": [s, t, px, py, qx, qy]} if cls != "generic" else None)
    scale = max(1e-300, max(abs(x) for x in p))
    tol = 1e-9 * scale
    bad = None
    if not (0.0 <= s <= 1.0 and 0.0 <= t <= 1.0):
        bad = "parameters outside [0,1]: s=%r t=%r" % (s, t)
    else:
        ex = (a0[0] + s * (a1[0] - a0[0]), a0[1] + s * (a1[1] - a0[1]))
        eq = (b0[0] + t * (b1[0] - b0[0]), b0[1] + t * (b1[1] - b0[1]))
        if max(abs(ex[0] - px), abs(ex[1] - py), abs(eq[0] - qx), abs(eq[1] - qy)) > 8e-16 * scale + tol * 1e-6:
            bad = "returned points are not the points at the returned parameters"
        else:
            d_true = math.sqrt(float(geom.seg_seg_dist2(a0, a1, b0, b1)))
            d_ret = math.hypot(px - qx, py - qy)
            if d_ret > d_true + geom.dist_tol(a0, a1, b0, b1, scale):
                bad = "returned pair at distance %.17g, true segment distance %.17g" % (d_ret, d_true)
    if bad:
        ctx.fail("segment-closest-points:" + cls, case, bad)


def _nn_sets(P):
    """For each point the indices at minimal distance; near-ties (relative
    1e-12, the library compares rounded float squares) are all admitted."""
    P = np.asarray(P, dtype=float).reshape(-1, 2)
    n = len(P)
    D2 = ((P[:, None, :] - P[None, :, :]) ** 2).sum(axis=2)
    out = []
    for i in range(n):
        row = D2[i].copy()
        row[i] = np.inf
        m = row.min()
        out.append([int(j) for j in np.nonzero(row <= m * (1 + 1e-12) + 1e-300)[0]])
    return out


def _close(a, b, tol):
    return abs(a - b) <= tol


def eval_conn(case, ctx):
    B, Req, be = _backend()
    pu = np.asarray(case["pu"], dtype=float).reshape(-1, 2)
    ps = np.asarray(case["ps"], dtype=float).reshape(-1, 2)
    Xu = np.asarray(case["Xu"], dtype=float).reshape(-1, 6)
    Xs = np.asarray(case["Xs"], dtype=float).reshape(-1, 6)
    ti_u = None if case["ti_u"] is None else np.asarray(case["ti_u"], dtype=int)
    ti_s = None if case["ti_s"] is None else np.asarray(case["ti_s"], dtype=int)
    eps, dv_tol, bal_tol = case["eps"], case["dv_tol"], case["bal_tol"]
    req = Req(points_u=pu.copy(), points_s=ps.copy(), states_u=Xu.copy(), states_s=Xs.copy(),
              traj_indices_u=ti_u, traj_indices_s=ti_s, eps=eps, dv_tol=dv_tol, bal_tol=bal_tol)
    # the radius-pair bookkeeping is observable on its own: _pair_counts documents "distance^2 <= r2" and sizes the
    # buffer that _radpair2d fills; a disagreement between the two passes overruns that buffer, so it is checked
    # BEFORE the backend is run (exact ties must be counted, pairs within 4 ulp of the radius may go either way)
    if len(pu) and len(ps):
        r2 = float(eps) * float(eps)
        cnt = np.asarray(B._pair_counts(np.ascontiguousarray(pu), np.ascontiguousarray(ps), r2))
        D2f = ((pu[:, None, :] - ps[None, :, :]) ** 2).sum(axis=2)
        lo = (D2f < r2 * (1 - 1e-15 * 4)).sum(axis=1)
        hi = (D2f <= r2 * (1 + 1e-15 * 4)).sum(axis=1)
        for i in range(len(pu)):
            ties = sum(1 for j in range(len(ps)) if D2f[i, j] == r2 and
                       (F(pu[i, 0]) - F(ps[j, 0])) ** 2 + (F(pu[i, 1]) - F(ps[j, 1])) ** 2 == F(eps) * F(eps))
            if not (lo[i] + ties <= cnt[i] <= hi[i]) and not (lo[i] <= cnt[i] <= hi[i] and ties == 0):
                ctx.case(cls="conn:pair-count-mismatch")
                ctx.fail("radius-pair-count-differs-from-documented", case,
                         "_pair_counts for u[%d] = %d, but %d points have d^2 < r2 and %d exact ties d^2 == r2 (documented: d^2 <= r2)" % (i, int(cnt[i]), int(lo[i]), ties))
                return
    try:
        res = be.run(req).results
    except Exception as e:  # a well-formed request must be handled
        ctx.case(cls="conn:raised")
        ctx.fail("backend-raises:" + type(e).__name__, case, repr(e))
        return
    N, M = len(pu), len(ps)
    scale = max([1e-300] + [abs(x) for x in pu.ravel()] + [abs(x) for x in ps.ravel()])
    tol = 1e-9 * scale
    vscale = max([1e-300] + [abs(x) for x in Xu[:, 3:].ravel()] + [abs(x) for x in Xs[:, 3:].ravel()])
    fails = []
    interesting = set()
    nnu = _nn_sets(case["pu"]) if res and N >= 2 else None
    nns = _nn_sets(case["ps"]) if res and M >= 2 else None
    seen_u, seen_s = set(), set()
    last_dv = -1.0
    if res:
        D2 = ((pu[:, None, :] - ps[None, :, :]) ** 2).sum(axis=2)
    for r in res:
        i, j = r.index_u, r.index_s
        if not (0 <= i < N and 0 <= j < M):
            fails.append(("index-out-of-range", "index_u=%r index_s=%r N=%d M=%d" % (i, j, N, M)))
            continue
        if i in seen_u or j in seen_s:
            fails.append(("point-used-twice", "index_u=%d or index_s=%d appears in two connections" % (i, j)))
        seen_u.add(i); seen_s.add(j)
        d2 = D2[i, j]
        if d2 > eps * eps * (1 + 1e-12) + 1e-300:
            fails.append(("pair-outside-radius", "d=%.17g eps=%.17g" % (math.sqrt(d2), eps)))
        if D2[i, :].min() < d2 * (1 - 1e-12) - 1e-300:
            fails.append(("not-nearest-for-u", "u[%d]: reported s[%d] at d2=%.17g but s[%d] at %.17g" % (i, j, d2, int(D2[i].argmin()), D2[i].min())))
        if D2[:, j].min() < d2 * (1 - 1e-12) - 1e-300:
            fails.append(("not-nearest-for-s", "s[%d]: reported u[%d] at d2=%.17g but u[%d] at %.17g" % (j, i, d2, int(D2[:, j].argmin()), D2[:, j].min())))
        if (np.sum(D2[i, :] == d2) > 1) or (np.sum(D2[:, j] == d2) > 1):
            interesting.add("nn-tie")
        su = np.asarray(r.state_u, dtype=float); ss = np.asarray(r.state_s, dtype=float)
        dv = float(np.linalg.norm(su[3:6] - ss[3:6]))
        if not _close(dv, r.delta_v, 8e-16 * vscale + 1e-300):
            fails.append(("delta_v-not-norm-of-reported-states", "delta_v=%.17g recomputed=%.17g" % (r.delta_v, dv)))
        if r.delta_v > dv_tol:
            fails.append(("delta_v-exceeds-limit", "delta_v=%.17g dv_tol=%.17g" % (r.delta_v, dv_tol)))
        want = "ballistic" if r.delta_v <= bal_tol else "impulsive"
        if r.kind != want:
            fails.append(("kind-label", "delta_v=%.17g bal_tol=%.17g kind=%s" % (r.delta_v, bal_tol, r.kind)))
        if r.delta_v < last_dv:
            fails.append(("not-sorted", "delta_v sequence decreases: %.17g after %.17g" % (r.delta_v, last_dv)))
        last_dv = r.delta_v
        if bal_tol > dv_tol:
            interesting.add("bal_tol>dv_tol")
        for thr in (dv_tol, bal_tol):
            if abs(r.delta_v - thr) <= 1e-9 * max(thr, 1e-300):
                interesting.add("dv-on-threshold")
        if ti_u is not None and (r.trajectory_index_u != int(ti_u[i]) or r.trajectory_index_s != int(ti_s[j])):
            fails.append(("trajectory-index", "reported (%r,%r) expected (%r,%r)" % (r.trajectory_index_u, r.trajectory_index_s, int(ti_u[i]), int(ti_s[j]))))
        # --- refined meeting point
        p = su[0:2]; q = ss[0:2]
        m = np.asarray(r.point2d, dtype=float)
        if N < 2 or M < 2:
            if not (np.array_equal(su, Xu[i]) and np.array_equal(ss, Xs[j]) and np.array_equal(m, pu[i])):
                fails.append(("no-neighbour-fallback", "without a neighbour the original pairing point/states must be reported"))
            continue
        ok = False
        why = ""
        for iu in nnu[i]:
            for js in nns[j]:
                a0, a1, b0, b1 = tuple(pu[i]), tuple(pu[iu]), tuple(ps[j]), tuple(ps[js])
                cls = geom.classify(a0, a1, b0, b1)
                if math.sqrt(float(geom.point_seg_dist2((F(p[0]), F(p[1])), (F(a0[0]), F(a0[1])), (F(a1[0]), F(a1[1]))))) > tol:
                    why = "reported u-state is not on the local u segment"; continue
                if math.sqrt(float(geom.point_seg_dist2((F(q[0]), F(q[1])), (F(b0[0]), F(b0[1])), (F(b1[0]), F(b1[1]))))) > tol:
                    why = "reported s-state is not on the local s segment"; continue
                d_true = math.sqrt(float(geom.seg_seg_dist2(a0, a1, b0, b1)))
                d_ret = math.hypot(p[0] - q[0], p[1] - q[1])
                if d_ret > d_true + geom.dist_tol(a0, a1, b0, b1, scale):
                    why = "closest points at distance %.17g but the local segments are %.17g apart (%s)" % (d_ret, d_true, cls); last_cls = cls; continue
                if max(abs(m[0] - 0.5 * (p[0] + q[0])), abs(m[1] - 0.5 * (p[1] + q[1]))) > tol:
                    why = "point2d is not the midpoint of the two closest points"; continue
                # full states must be the same convex combination
                good = True
                for (S, X, e0, e1, pt) in ((su, Xu, i, iu, p), (ss, Xs, j, js, q)):
                    u = pu[e1] - pu[e0] if X is Xu else ps[e1] - ps[e0]
                    base = pu[e0] if X is Xu else ps[e0]
                    L = float(u @ u)
                    if L > 0:
                        lam = float((pt - base) @ u) / L
                        expct = (1 - lam) * X[e0] + lam * X[e1]
                        if np.max(np.abs(expct - S)) > 1e-9 * max(1.0, float(np.max(np.abs(X)))):
                            good = False
                if not good:
                    why = "reported 6-D state is not the convex combination of the segment end states"; continue
                ok = True
                if cls != "generic":
                    interesting.add("refine-" + cls)
                break
            if ok:
                break
        if not ok:
            key = "refined-point"
            if "apart" in why:
                key = "refined-point-not-closest:" + why.rsplit("(", 1)[1].rstrip(")")
            fails.append((key, why))
    nt = None
    if res and interesting:
        nt = ("conn", repr(case))
    ctx.case(nontrivial=nt, cls=["conn:results>0" if res else "conn:no-result"] + sorted("conn:" + x for x in interesting),
             sample={"pu": case["pu"], "ps": case["ps"], "eps": eps, "dv_tol": dv_tol, "bal_tol": bal_tol,
                     "reported": [(r.index_u, r.index_s, r.kind, r.delta_v, list(r.point2d)) for r in res], "classes": sorted(interesting)} if nt and len(pu) <= 5 else None)
    for b, msg in fails:
        ctx.fail(b, case, msg)


def _known_probe(ctx):
    """Deterministic probes for the sub-domains carved out while a finding is open
    (none carved at present: the generated search covers the full domain)."""
    cases = [
        {"kind": "parallel", "pts": [0.0, 0.0, 1.0, 0.0, 0.5, 1.0, 3.0, 1.0]},
        {"kind": "zero_b", "pts": [0.0, 0.0, 2.0, 0.0, 1.0, 1.0, 1.0, 1.0]},
        {"kind": "zero_a", "pts": [1.0, 1.0, 1.0, 1.0, 0.0, 0.0, 2.0, 0.0]},
        {"kind": "collinear", "pts": [0.0, 0.0, 1.0, 0.0, 3.0, 0.0, 2.0, 0.0]},
        {"kind": "nearpar", "pts": [0.0, 0.0, 0.1, 0.3, 0.05, 0.0, 0.25, 0.6000000000000001]},
    ]
    for c in cases:
        eval_seg(c, ctx)


def run(ctx):
    if ctx.shard == 0:
        _known_probe(ctx)
    maxn = ctx.scale(9, 24)
    explore(ctx, "seg", seg_case(), eval_seg, ctx.share(ctx.scale(20000, 1500000)))
    explore(ctx, "conn", conn_case(maxn), eval_conn, ctx.share(ctx.scale(8000, 400000)))
    explore(ctx, "conn-small", conn_case(3), eval_conn, ctx.share(ctx.scale(8000, 400000)))


def replay(ctx, payload):
    if "pts" in payload:
        eval_seg(payload, ctx)
    else:
        eval_conn(payload, ctx)
