"""C08 — Lie-series normal form removes the right terms by a canonical transformation.

Two input classes.
(A) library pipeline: generated (mu, L1|L2, N) -> HamiltonianPipeline: complex_modal, complex_partial_normal,
    complex_full_normal, generating functions "partial"/"full", get_lie_expansions(inverse=False/True).
(B) synthetic Hamiltonians lambda*q1*p1 + i*om1*q2*p2 + i*om2*q3*p3 + generated complex terms of degree 3..N fed to
    center._lie._lie_transform / normal._lie._lie_transform / _lie_expansion directly.

Oracles (all on coefficients decoded with polyref's table reader; evaluation (long double), differentiation
(polyref.diff), brackets (polyref.poisson) and flows (SciPy) are this module's own code; the library's
`_evaluate_transform` is tied to the decoded series by a separate comparison):
 1. term structure: every coefficient of degree 3..N of the partial normal form with k0 != k3 (full: with a divisor
    (k3-k0)lam + i(k4-k1)om1 + i(k5-k2)om2 of modulus >= the documented resonance tolerance 1e-14) is zero up to the
    rounding of H_n + {H_2, G_n}: 64 eps S_k |g_k| + 2 |{H_2 - H_2(modes), G_n}|_k + cleaning tolerance.
 2. conjugacy: H_new(z) - H_old(Phi(z)) = O(r^(N+1)) on a radius ladder, Phi = forward series (the one documented as
    "from normalized to original coordinates"), and again with Phi = phi_G3 o ... o phi_GN, the time-one Hamiltonian flows
    of the returned generating functions integrated with SciPy (convention H' = exp(L_G) H = H + {H,G} + ..., lie.py);
    also |series - flows| = O(r^(N+1)).
 3. canonicity: DPhi^T J DPhi - J = O(r^N) (exact polynomial Jacobian), forward and inverse series.
 4. inverse: Phi^-1(Phi(z)) - z and Phi(Phi^-1(z)) - z = O(r^(N+1)).
Slope rule as in C02: only the finest usable rungs above the rounding floor count; fewer than 2 slopes => not evaluated.
"""
from __future__ import annotations

import hashlib
import logging
import math
import os

import numpy as np
from hypothesis import strategies as st

from .. import hamtools
from ..hyp import explore
from ..oracle import polyref as P
from ..runner import HarnessError

PROPERTY = "C08"
LEVEL = "exploration"
SHARDS = {"quick": 4, "thorough": 8}
NUMBA_THREADS = {"quick": 1, "thorough": 1}
RULE = ("cases = (A) generated (mu from {Earth-Moon, Sun-Earth, Sun-Jupiter} + log-uniform [1e-4,0.3], point L1|L2, degree N) through the "
        "library pipeline and (B) generated synthetic Hamiltonians (quadratic part from generated lambda, omega1, omega2; 8..60 generated "
        "complex monomials of degree 3..N) through the partial / full Lie routines, each with generated complex evaluation directions "
        "(all six components non-zero); non-trivial = N >= 4 AND >= 10 eliminated monomials (non-zero generating-function coefficients) "
        "AND the conjugacy slope was measurable (>= 2 slopes above the rounding floor) for the series and for the integrated flows; "
        "distinct by (mu to 6 digits, point, N) resp. the full synthetic input; in class A the pipeline accessor is used at tol=1e-30 and, when "
        "its default-tolerance (1e-16) series differs at all, that one is checked too (conjugacy, inverse) with the cleaning allowance")
ASSUMPTIONS = [
    "a monomial is 'resonant' for the full normal form iff |(k3-k0)lam + i(k4-k1)om1 + i(k5-k2)om2| < 1e-14, the documented resonance_tol default of normal/_lie.py and wrappers.py; divisors within 64 eps S_k of that threshold are not judged",
    "'no monomial' is read up to the rounding of the single operation that removes it: |coef_k| <= 64 eps S_k |g_k| + 2|{H2 - H2(linear_modes), G_n}|_k + tol_lie max(1,|divisor|), S_k = sum_m |eta_m|(k_m + k_{m+3}); this is >= 1e10 times smaller than an uneliminated coefficient |g_k * divisor_k| unless S_k/|divisor_k| > 1e4",
    "slopes: error (own long-double evaluation of the decoded polynomials) summed over the generated directions on rungs r0*2^(-j/2); a rung is usable when the error is >= 30x the floor = 64 eps_longdouble * majorants + eps_double * (largest coefficient of each degree of H_old, H_new and of the eliminated part g_k*divisor_k; resp. of the series) on every monomial (rounding of the library's coefficient arithmetic) + cleaning tolerance of the series + 1e-12 * displacement for the integrated flows (rtol 1e-13 on the displacement, verified on a closed-form flow); slopes are taken over two rungs (factor 2 in r); the observed order = max(two finest slopes, Richardson extrapolation 2 s(r/2) - s(r) of the finest one) must be >= order - 0.5 ; a failure needs the 6 finest consecutive slopes (three octaves of r) all below order - 0.5 (an error of the right order with a large next term can dip below on at most 3-4 rungs while recovering from a cancellation; an error of lower order stays low down to the floor); anything else is inconclusive and counted trivial; fewer than 2 slopes => counted trivial, never failed",
    "the ladder starts at the largest rung at which the non-linear part of the coordinate change (majorant) does not exceed the linear part, i.e. 'small z' is relative to the size of the returned series; only the finest rungs decide",
    "forward series = _lie_expansion(inverse=False) is the map new -> old coordinates (docstring: 'Forward Mode: From normalized to original coordinates')",
    "full normal form coordinate series: _lie_expansion(G_full, N, psi, clmo, restrict=False) with the function's default tolerances (the pipeline exposes only the partial series)",
]
logging.disable(logging.CRITICAL)
os.environ.setdefault("NUMBA_NUM_THREADS", "1")   # --replay / in-process runs: same single-threaded kernels as the shards

EPS = 2.220446049250313e-16
LD = np.clongdouble
EPSL = float(np.finfo(np.longdouble).eps)   # 1.08e-19 on x86-64; where long double == double the floors simply grow
RES_TOL = 1e-14        # normal/_lie.py _lie_transform(resonance_tol=1e-14), wrappers default_params, lie.py small-divisor skip
TOL_LIE = 1e-30        # wrappers default_params tol_lie / _lie_transform(tol=1e-30)
TOL_EXP_PIPE = 1e-16   # pipeline.get_lie_expansions(tol=1e-16)
TOL_EXP_DIRECT = 1e-30  # _lie_expansion(tol=1e-30)
ODE_RTOL = 1e-13      # on the displacement u = z(t) - z(0)
ODE_ERR = 1e-12       # assumed bound of the relative error of u (10 x rtol; verified on a closed-form flow in selftest)
J6 = np.block([[np.zeros((3, 3)), np.eye(3)], [-np.eye(3), np.zeros((3, 3))]])
SUITE_MUS = {"EM": 0.01215058560962404, "SE": 3.0034805945423304e-06, "SJ": 0.0009536838895767034}
NMONO = [math.comb(d + 5, 5) for d in range(16)]


# ===================================================================== own polynomial containers
class PolyStack:
    """Several sparse polynomials (K, c) evaluated together with one power table and one segmented sum.
    Own evaluator, independent of the library; evaluates in the precision of the argument (long double or double)."""

    def __init__(self, polys):
        Ks, cs, starts = [], [], []
        pos = 0
        for K, c in polys:
            if len(c) == 0:            # keep every segment non-empty (np.add.reduceat)
                K = np.zeros((1, 6), dtype=np.int64)
                c = np.zeros(1, dtype=np.complex128)
            Ks.append(np.asarray(K, dtype=np.int64).reshape(-1, 6))
            cs.append(np.asarray(c, dtype=np.complex128).reshape(-1))
            starts.append(pos)
            pos += len(cs[-1])
        self.n = len(polys)
        self.K = np.concatenate(Ks)
        self.c = np.concatenate(cs)
        self.cl = self.c.astype(LD)
        self.a = np.abs(self.c)
        self.adeg = self.a * self.K.sum(axis=1)
        self.starts = np.array(starts, dtype=np.int64)
        self.deg = int(self.K.sum(axis=1).max())

    def _mono(self, z):
        pw = np.ones((6, self.deg + 1), dtype=z.dtype)
        for e in range(1, self.deg + 1):
            pw[:, e] = pw[:, e - 1] * z
        m = pw[0, self.K[:, 0]]
        for i in range(1, 6):
            m = m * pw[i, self.K[:, i]]
        return m

    def ev(self, z):
        z = np.asarray(z)
        if z.dtype == LD:
            return np.add.reduceat(self.cl * self._mono(z), self.starts)
        z = z.astype(np.complex128)
        return np.add.reduceat(self.c * self._mono(z), self.starts)

    def maj(self, az):
        """sum |c_k| |z|^k per polynomial (bounds every partial sum of the evaluation)."""
        return np.add.reduceat(self.a * self._mono(np.asarray(az, dtype=float)), self.starts)

    def majdeg(self, az):
        """sum |k| |c_k| |z|^k: first-order sensitivity to a common relative perturbation of the arguments."""
        return np.add.reduceat(self.adeg * self._mono(np.asarray(az, dtype=float)), self.starts)


class NPoly:
    """One sparse polynomial (K, c) decoded from the packed layout / a polyref dictionary."""

    def __init__(self, K, c):
        self.K = np.asarray(K, dtype=np.int64).reshape(-1, 6)
        self.c = np.asarray(c, dtype=np.complex128).reshape(-1)
        self._st = None

    @staticmethod
    def from_blocks(blocks, clmo):
        """Decode a packed list of homogeneous blocks with polyref's table reader (documented bit layout)."""
        Ks, cs = [], []
        for d in range(len(blocks)):
            arr = np.asarray(blocks[d])
            nz = np.flatnonzero(arr)
            if nz.size:
                Ks.append(P.exps(clmo, d)[nz])
                cs.append(arr[nz].astype(np.complex128))
        if not Ks:
            return NPoly(np.zeros((0, 6), dtype=np.int64), np.zeros(0, dtype=complex))
        return NPoly(np.concatenate(Ks), np.concatenate(cs))

    @staticmethod
    def from_dict(p):
        if not p:
            return NPoly(np.zeros((0, 6), dtype=np.int64), np.zeros(0, dtype=complex))
        ks = sorted(p)
        return NPoly(np.array(ks, dtype=np.int64), np.array([complex(p[k]) for k in ks]))

    def to_dict(self):
        return {tuple(int(v) for v in k): complex(c) for k, c in zip(self.K, self.c)}

    def pair(self):
        return (self.K, self.c)

    def stack(self):
        if self._st is None:
            self._st = PolyStack([self.pair()])
        return self._st

    def ev(self, z):
        return self.stack().ev(z)[0]

    def maj(self, az):
        return float(self.stack().maj(az)[0])

    def majdeg(self, az):
        return float(self.stack().majdeg(az)[0])

    def part(self, lo, hi=None):
        d = self.K.sum(axis=1)
        m = (d >= lo) & (d <= (hi if hi is not None else 10 ** 6))
        return NPoly(self.K[m], self.c[m])

    def maxabs_by_degree(self, nmax):
        out = [0.0] * (nmax + 1)
        if len(self.c):
            d = self.K.sum(axis=1)
            a = np.abs(self.c)
            for dd in range(nmax + 1):
                m = d == dd
                if np.any(m):
                    out[dd] = float(a[m].max())
        return out


def pdiff(npoly, i):
    """Exact polynomial derivative through polyref.diff (dictionary arithmetic)."""
    return NPoly.from_dict(P.diff(npoly.to_dict(), i))


def hsym(az, dmax):
    """h_0..h_dmax: complete homogeneous symmetric polynomials of the six |z_i| (= sum over all monomials of a degree)."""
    h = np.zeros(dmax + 1)
    h[0] = 1.0
    for x in az:
        for e in range(1, dmax + 1):
            h[e] = h[e] + x * h[e - 1]
    return h


def ham_field(G):
    """Hamiltonian vector field of G for the convention exp(L_G) f = f + {f,G} + ... with
    {f,g} = sum df/dq dg/dp - df/dp dg/dq:  dq_m/dt = dG/dp_m, dp_m/dt = -dG/dq_m."""
    comps = []
    for m in range(3):
        comps.append(pdiff(G, m + 3).pair())
    for m in range(3):
        d = pdiff(G, m)
        comps.append((d.K, -d.c))
    return PolyStack(comps)


def flow_displacement(field, z):
    """u = z(1) - z(0) for dz/dt = field(z), integrated for the deviation u so that the tolerance is relative to the
    (small) displacement.  Returns (u, |u| scale per component, rhs-majorant per component)."""
    from scipy.integrate import solve_ivp
    z = np.asarray(z, dtype=np.complex128)
    x0 = field.ev(z)
    mx = field.maj(np.abs(z))
    umax = float(np.max(np.abs(x0)))
    if umax == 0.0:
        return np.zeros(6, dtype=np.complex128), np.zeros(6), mx

    def rhs(t, u):
        return field.ev(z + u)
    sol = solve_ivp(rhs, (0.0, 1.0), np.zeros(6, dtype=np.complex128), method="DOP853", rtol=ODE_RTOL, atol=1e-3 * ODE_RTOL * umax, first_step=1.0)
    if not sol.success:
        raise RuntimeError("flow integration failed: %s" % sol.message)
    u = sol.y[:, -1]
    return u, np.full(6, max(float(np.max(np.abs(u))), umax)), mx


# ===================================================================== slope rule
USABLE = 30.0


def slopes_from(rungs):
    """rungs: list of (j, E, floor) on r_j = r0 2^(-j/2).  Slopes over two rungs between usable rungs."""
    ok = {j: E for j, E, fl in rungs if np.isfinite(E) and np.isfinite(fl) and E >= USABLE * fl and E > 0.0}
    out = []
    for j in sorted(ok):
        if j + 2 in ok:
            out.append((j, math.log2(ok[j] / ok[j + 2])))
    return out


NLOW = 6


def judge(rungs, order):
    """(verdict, observed order, slopes).
    observed order = max(the two finest two-rung slopes, Richardson extrapolation 2 s(r/2) - s(r) of the finest slope to
    r = 0: for an analytic error a r^p (1 + b r + ...) the local slope is p + b r + O(r^2)).
      True  : observed order >= order - 0.5;
      False : the NLOW finest slopes (three octaves of r, consecutive rungs, all >= 30x above the floor) are all below
              order - 0.5.  An error a r^p + b r^(p+1) of the *right* order can show slopes below p - 0.5 only while
              b r / a is in (0.45, 1.26) (recovery from a cancellation), i.e. on at most 3-4 consecutive rungs, whereas an
              error of lower order keeps them low down to the floor;
      None  : fewer than 2 slopes measurable, or low slopes on fewer than NLOW consecutive finest rungs (inconclusive)."""
    sl = slopes_from(rungs)
    if len(sl) < 2:
        return None, None, sl
    cand = [s for _, s in sl[-2:]]
    d = dict(sl)
    jf = sl[-1][0]
    if jf - 2 in d:
        cand.append(2.0 * d[jf] - d[jf - 2])
    best = max(cand)
    if best >= order - 0.5:
        return True, best, sl
    tail = [d.get(jf - i) for i in range(NLOW)]
    if all(t is not None and t < order - 0.5 for t in tail):
        return False, best, sl
    return None, best, sl


def fmt_rungs(rungs, r0, n=8):
    us = [(j, E, fl) for j, E, fl in rungs if np.isfinite(E) and E >= USABLE * fl]
    return " ".join("r=%.2e:E=%.2e(fl %.1e)" % (r0 * 2 ** (-j / 2.0), E, fl) for j, E, fl in us[-n:])


# ===================================================================== the instance under test
class Instance:
    """Everything returned by the library for one (H_old, kind) plus decoded copies."""

    def __init__(self, N, modes, clmo, H_old, H_new, G, fwd, inv, tol_exp, kind):
        self.N = int(N)
        self.lam, self.om1, self.om2 = [float(v) for v in modes]
        self.eta = np.array([self.lam, 1j * self.om1, 1j * self.om2])
        self.clmo = clmo
        self.kind = kind
        self.tol_exp = tol_exp
        self.Hold = NPoly.from_blocks(H_old, clmo)
        self.Hnew = NPoly.from_blocks(H_new, clmo)
        self.G = [None] * (self.N + 1)
        self.nG = 0
        for n in range(3, min(self.N, len(G) - 1) + 1):
            g = NPoly.from_blocks([np.zeros(0)] * n + [np.asarray(G[n])], clmo)
            self.G[n] = g
            self.nG += len(g.c)
        self.G_low = any(np.any(np.asarray(G[d]) != 0) for d in range(min(3, len(G))))
        self.G_high = any(np.any(np.asarray(G[d]) != 0) for d in range(self.N + 1, len(G)))
        self.lib = {"fwd": fwd, "inv": inv}
        self.ser = {"fwd": [NPoly.from_blocks(e, clmo) for e in fwd], "inv": [NPoly.from_blocks(e, clmo) for e in inv]}
        self.st = {w: PolyStack([p.pair() for p in self.ser[w]]) for w in ("fwd", "inv")}
        self.nl = {w: PolyStack([p.part(2).pair() for p in self.ser[w]]) for w in ("fwd", "inv")}
        # scales of the coefficient noise (rounding of the library's bracket arithmetic), per degree
        # (input, output and the eliminated part |g_k * divisor_k| that the brackets had to produce and cancel)
        ao, an = self.Hold.maxabs_by_degree(self.N), self.Hnew.maxabs_by_degree(self.N)
        ae = [0.0] * (self.N + 1)
        for n in range(3, self.N + 1):
            g = self.G[n]
            if g is not None and len(g.c):
                Kg = g.K
                div = (Kg[:, 3] - Kg[:, 0]) * self.eta[0] + (Kg[:, 4] - Kg[:, 1]) * self.eta[1] + (Kg[:, 5] - Kg[:, 2]) * self.eta[2]
                ae[n] = float(np.max(np.abs(g.c * div)))
        self.A = np.array([max(ao[d], an[d], ae[d]) if d >= 3 else 0.0 for d in range(self.N + 1)])
        self.B = {}
        for w in ("fwd", "inv"):
            per = [p.maxabs_by_degree(self.N) for p in self.ser[w]]
            self.B[w] = np.array([max(q[d] for q in per) if d >= 2 else 0.0 for d in range(self.N + 1)])
        self._fields = None
        self._jac = {}
        self._flowcache = {}

    def fields(self):
        if self._fields is None:
            self._fields = {n: ham_field(self.G[n]) for n in range(3, self.N + 1) if self.G[n] is not None and len(self.G[n].c)}
        return self._fields

    def jac(self, which):
        if which not in self._jac:
            ser = self.ser[which]
            self._jac[which] = PolyStack([pdiff(ser[i], j).pair() for i in range(6) for j in range(6)])
        return self._jac[which]

    def lib_eval(self, which, z):
        from hiten.algorithms.hamiltonian.center._lie import _evaluate_transform
        return np.asarray(_evaluate_transform(self.lib[which], np.asarray(z, dtype=np.complex128), self.clmo))

    # ---- floors -----------------------------------------------------------
    def noiseH(self, az):
        """rounding of the library's coefficient arithmetic in H_new: eps * (largest coefficient of the degree) on every
        monomial of degree 3..N."""
        return EPS * float(np.dot(self.A, hsym(az, self.N)))

    def noiseS(self, which, az):
        return EPS * float(np.dot(self.B[which], hsym(az, self.N)))

    def noiseDS(self, which, az):
        h = hsym(az, self.N)
        return EPS * float(sum(d * self.B[which][d] * h[d - 1] for d in range(2, self.N + 1)))

    def clean_sum(self, rmax, deriv=False):
        """bound of what absolute cleaning at tol_exp can remove from one coordinate series at |z_i| <= rmax."""
        s = 0.0
        for d in range(2, self.N + 1):
            s += NMONO[d] * (d * rmax ** (d - 1) if deriv else rmax ** d)
        return 8.0 * self.tol_exp * s

    def series_err(self, which, az):
        """per-component bound of |own long-double evaluation of the returned series - exact series of the exact map|"""
        return 64 * EPSL * self.st[which].maj(az) + self.noiseS(which, az) + self.clean_sum(float(np.max(az)))


# --------------------------------------------------------------------- oracle 1: term structure
def check_terms(inst, ctx, case, tag):
    """Returns number of monomials judged.  Bucket: term-structure:<kind>:<tag>."""
    K, c = inst.Hnew.K, inst.Hnew.c
    deg = K.sum(axis=1)
    full = inst.kind == "full"
    # what the rounding of H_n + {H_2, G_n} can leave: needs g_k and the actual quadratic part
    H2 = inst.Hold.part(2, 2).to_dict()
    ideal = {(1, 0, 0, 1, 0, 0): complex(inst.eta[0]), (0, 1, 0, 0, 1, 0): complex(inst.eta[1]), (0, 0, 1, 0, 0, 1): complex(inst.eta[2])}
    E2 = P.sub(H2, ideal)
    E2 = {k: v for k, v in E2.items() if v != 0}
    aeta = np.abs(inst.eta)
    judged = 0
    worst = None
    for n in range(3, inst.N + 1):
        m = deg == n
        if not np.any(m):
            continue
        g = inst.G[n].to_dict() if inst.G[n] is not None else {}
        leak = P.poisson(P.majorant(E2), P.majorant(g), sign=+1) if (E2 and g) else {}
        for k, ck in zip(K[m], c[m]):
            k = tuple(int(v) for v in k)
            div = (k[3] - k[0]) * inst.eta[0] + (k[4] - k[1]) * inst.eta[1] + (k[5] - k[2]) * inst.eta[2]
            S = float(aeta[0] * (k[0] + k[3]) + aeta[1] * (k[1] + k[4]) + aeta[2] * (k[2] + k[5]))
            if full:
                if abs(div) < RES_TOL + 64 * EPS * S:
                    continue          # resonant (or not decidable): exempt, as the statement says
            elif k[0] == k[3]:
                continue
            judged += 1
            tol = 64 * EPS * S * abs(g.get(k, 0.0)) + 2.0 * abs(leak.get(k, 0.0)) + TOL_LIE * max(1.0, abs(div))
            if not abs(ck) <= tol:
                ratio = abs(ck) / tol
                if worst is None or ratio > worst[0]:
                    worst = (ratio, n, k, ck, tol, abs(g.get(k, 0.0)), div)
    if worst is not None:
        _, n, k, ck, tol, gk, div = worst
        ctx.fail("term-structure:%s:%s" % (inst.kind, tag), case,
                 "%s normal form keeps monomial %r of degree %d with coefficient %r (|.|=%.3g; rounding allowance %.3g, |g_k|=%.3g, divisor %r)"
                 % (inst.kind, k, n, ck, abs(ck), tol, gk, div))
    return judged


# --------------------------------------------------------------------- oracles 2-4: ladders
def _dirs(case):
    out = []
    for d in case["dirs"]:
        out.append(np.array([m * complex(math.cos(p), math.sin(p)) for m, p in d], dtype=np.complex128))
    return out


def nonlin_series(inst, z0, r):
    az = np.abs(z0) * r
    return max(float(np.max(inst.nl[w].maj(az) / az)) for w in ("fwd", "inv"))


def nonlin_flow(inst, z0, r):
    az = np.abs(z0) * r
    return sum(float(np.max(f.maj(az) / az)) for f in inst.fields().values())


def pick_r0(measure, dirs, jmax=80):
    """largest rung r = 2^(-j/2) <= 1 with measure <= 1 for every direction (top of the ladder only)."""
    for j in range(0, jmax):
        r = 2.0 ** (-j / 2.0)
        if all(measure(z0, r) <= 1.0 for z0 in dirs):
            return r
    return None


def ladder(errfun, dirs, r0, jmax):
    """errfun(z) -> (E, floor).  Sum over directions.  Stops after the error is below the floor on 3 consecutive rungs."""
    rungs = []
    below = 0
    for j in range(jmax):
        r = r0 * 2.0 ** (-j / 2.0)
        E = fl = 0.0
        for z0 in dirs:
            e, f = errfun((z0 * r).astype(LD))
            E += float(e)
            fl += float(f)
        rungs.append((j, E, fl))
        if not (E >= USABLE * fl):
            below += 1
            if below >= 3 and j >= 4:
                break
        else:
            below = 0
    return rungs


def _rel_err(dw, aw):
    if np.any(aw == 0.0):
        return float("inf")
    return float(np.max(dw / aw))


def _absf(x):
    return np.abs(x).astype(float)


def err_conj_series(inst):
    def f(z):
        az = _absf(z)
        w = inst.st["fwd"].ev(z)
        aw = _absf(w)
        rel = _rel_err(inst.series_err("fwd", az), aw)
        fl = 64 * EPSL * (inst.Hnew.maj(az) + inst.Hold.maj(aw)) + inst.noiseH(az) + inst.Hold.majdeg(aw) * rel
        return abs(inst.Hnew.ev(z) - inst.Hold.ev(w)), fl
    return f


def flow_map(inst, z):
    """Phi(z) = phi_G3 o phi_G4 o ... o phi_GN (z): H_new = exp(L_GN) ... exp(L_G3) H_old, (exp(L_G) f)(z) = f(phi_G(z)).
    The displacements are accumulated in long double.  Returns (w, per-component error bound)."""
    w = np.asarray(z, dtype=LD).copy()
    key = w.tobytes()
    if key in inst._flowcache:
        return inst._flowcache[key]
    dw = np.zeros(6)
    fields = inst.fields()
    for n in range(inst.N, 2, -1):
        if n not in fields:
            continue
        u, ub, mx = flow_displacement(fields[n], w.astype(np.complex128))
        w = w + u.astype(LD)
        dw = dw + ODE_ERR * ub + 64 * EPS * mx
    inst._flowcache[key] = (w, dw)
    return w, dw


def err_conj_flow(inst):
    def f(z):
        az = _absf(z)
        w, dw = flow_map(inst, z)
        aw = _absf(w)
        fl = 64 * EPSL * (inst.Hnew.maj(az) + inst.Hold.maj(aw)) + inst.noiseH(az) + inst.Hold.majdeg(aw) * _rel_err(dw, aw)
        return abs(inst.Hnew.ev(z) - inst.Hold.ev(w)), fl
    return f


def err_series_vs_flow(inst):
    """|Phi_series(z) - Phi_flow(z)| (max norm): O(r^(N+1)) — ties the library's series to the generating functions."""
    def f(z):
        az = _absf(z)
        w1 = inst.st["fwd"].ev(z)
        w2, dw = flow_map(inst, z)
        return float(np.max(np.abs(w1 - w2))), float(np.max(inst.series_err("fwd", az) + dw))
    return f


def err_inverse(inst, first):
    second = "inv" if first == "fwd" else "fwd"

    def f(z):
        az = _absf(z)
        w = inst.st[first].ev(z)
        aw = _absf(w)
        rel = _rel_err(inst.series_err(first, az), aw)
        v = inst.st[second].ev(w)
        fl = float(np.max(inst.series_err(second, aw) + inst.st[second].majdeg(aw) * rel))
        return float(np.max(np.abs(v - z))), fl
    return f


def err_canon(inst, which):
    JL = J6.astype(np.longdouble)
    aJ = np.abs(J6)

    def f(z):
        az = _absf(z)
        Jc = inst.jac(which)
        D = Jc.ev(z).reshape(6, 6)
        M = Jc.maj(az).reshape(6, 6)
        dM = 64 * EPSL * M + inst.noiseDS(which, az) + inst.clean_sum(float(az.max()), deriv=True)
        fl = float(np.max(M.T @ (aJ @ dM) + dM.T @ (aJ @ M))) + 16 * EPSL * float(np.max(M.T @ (aJ @ M)))
        R = np.matmul(np.matmul(D.T, JL.astype(LD)), D) - JL
        return float(np.max(np.abs(R))), fl
    return f


SLOPE_CHECKS = ("conjugacy-series", "conjugacy-flow", "series-vs-flow", "inverse-after-forward", "forward-after-inverse",
                "canonicity-forward", "canonicity-inverse")


def run_oracles(inst, ctx, case, tag, flows=True, reduced=False):
    """All oracles on one instance.  Returns dict with what was measurable."""
    info = {"nG": inst.nG}
    if not reduced:
        info["judged"] = check_terms(inst, ctx, case, tag)
    N = inst.N
    dirs = _dirs(case)
    kind = inst.kind
    if inst.G_low or inst.G_high:
        ctx.fail("generating-function-degree-range:%s:%s" % (kind, tag), case, "returned generating functions contain terms of degree < 3 or > N")
    r0 = pick_r0(lambda z0, r: nonlin_series(inst, z0, r), dirs)
    info["r0"] = r0

    def slope_check(name, errf, order, r, jm=48):
        rungs = ladder(errf, dirs, r, jm)
        ok, best, sl = judge(rungs, order)
        info[name] = None if ok is None else round(best, 2)
        if ok is None and best is not None:
            info[name + ":inconclusive"] = round(best, 2)
        if ok is False:
            ctx.fail("%s:%s:%s" % (name, kind, tag), case,
                     "%s: expected O(r^%d), observed order %.2f (finest slopes: %s); %s"
                     % (name, order, best, ["%.2f" % s for _, s in sl[-NLOW:]], fmt_rungs(rungs, r)))
        return ok
    if r0 is not None:
        # the library's own evaluation of its series agrees with the decoded series (so that "the library's own
        # coordinate change" below is the map callers get from _evaluate_transform)
        nmax = NMONO[N]
        for w in ("fwd", "inv"):
            for z0 in dirs:
                for r in (r0, 0.5 * r0):
                    z = z0 * r
                    got = inst.lib_eval(w, z)
                    own = inst.st[w].ev(z.astype(LD))
                    tolv = (64 + nmax) * EPS * inst.st[w].maj(np.abs(z))
                    if not np.all(np.abs(got - own.astype(np.complex128)) <= tolv):
                        i = int(np.argmax(np.abs(got - own.astype(np.complex128)) / tolv))
                        ctx.fail("evaluate-transform:%s" % tag, case, "_evaluate_transform(%s series)[%d] = %r, the decoded series gives %r at z=%r"
                                 % (w, i, complex(got[i]), complex(own[i]), [complex(v) for v in z]))
        slope_check("conjugacy-series", err_conj_series(inst), N + 1, r0)
        slope_check("inverse-after-forward", err_inverse(inst, "fwd"), N + 1, r0)
        slope_check("forward-after-inverse", err_inverse(inst, "inv"), N + 1, r0)
        if not reduced:
            slope_check("canonicity-forward", err_canon(inst, "fwd"), N, r0)
            slope_check("canonicity-inverse", err_canon(inst, "inv"), N, r0)
    if flows and inst.nG and not reduced:
        rf = pick_r0(lambda z0, r: nonlin_flow(inst, z0, r), dirs)
        info["r0_flow"] = rf
        if rf is not None:
            slope_check("conjugacy-flow", err_conj_flow(inst), N + 1, rf, 28)
            if r0 is not None:
                slope_check("series-vs-flow", err_series_vs_flow(inst), N + 1, min(rf, r0), 28)
    return info


def _outcome(info, k):
    return "measured" if info.get(k) is not None else "inconclusive" if info.get(k + ":inconclusive") is not None else "below-floor"


# ===================================================================== library drivers
def _modes_class(lam, om1, om2, N):
    """smallest non-zero-index divisor of order <= N among k0 == k3 monomials (the only ones that can be small)."""
    best = float("inf")
    for a in range(-N, N + 1):
        for b in range(-N, N + 1):
            if (a, b) == (0, 0) or abs(a) + abs(b) > N:
                continue
            best = min(best, abs(a * om1 + b * om2))
    return best


def _div_band(d):
    return "min-divisor<1e-14" if d < RES_TOL else "min-divisor<1e-3" if d < 1e-3 else "min-divisor<1e-1" if d < 1e-1 else "min-divisor>=1e-1"


_pipes = {}


def build_pipeline(mu, idx, N):
    from hiten import System
    key = (mu, idx, N)
    if key not in _pipes:
        if len(_pipes) > 2:
            _pipes.clear()
        pt = System.from_mu(mu).get_libration_point(idx)
        _pipes[key] = (pt, pt.get_center_manifold(N).dynamics.pipeline)
    return _pipes[key]


def eval_pipeline(case, ctx):
    from hiten.algorithms.hamiltonian.center._lie import _lie_expansion
    mu = float(case["mu"]); idx = int(case["point"]); N = int(case["N"])
    tag = "pipeline"
    stage = "build"
    try:
        pt, pl = build_pipeline(mu, idx, N)
        modes = tuple(float(v) for v in pt.linear_modes)
        stage = "complex_modal"
        Hm = pl.get_hamiltonian("complex_modal")
        clmo = Hm.dynamics.clmo; psi = Hm.dynamics.psi
        stage = "complex_partial_normal"
        Hp = pl.get_hamiltonian("complex_partial_normal")
        stage = "generating_functions(partial)"
        Gp = pl.get_generating_functions("partial")
        stage = "lie_expansions(tol=1e-30)"
        ef = pl.get_lie_expansions(inverse=False, tol=TOL_EXP_DIRECT)
        ei = pl.get_lie_expansions(inverse=True, tol=TOL_EXP_DIRECT)
        stage = "lie_expansions(default tol)"
        efd = pl.get_lie_expansions(inverse=False)
        eid = pl.get_lie_expansions(inverse=True)
        stage = "complex_full_normal"
        Hf = pl.get_hamiltonian("complex_full_normal")
        stage = "generating_functions(full)"
        Gf = pl.get_generating_functions("full")
        stage = "_lie_expansion(full)"
        ff = _lie_expansion(Gf.poly_G, N, psi, clmo, inverse=False, restrict=False)
        fi = _lie_expansion(Gf.poly_G, N, psi, clmo, inverse=True, restrict=False)
    except Exception as e:
        ctx.case(cls=["A", "A:raised"])
        ctx.fail("raises:pipeline:%s:%s" % (stage, type(e).__name__), case, "%s raised %s: %s" % (stage, type(e).__name__, str(e)[:300]))
        return
    if int(Hm.degree) != N or len(Hp.poly_H) != N + 1 or len(Hf.poly_H) != N + 1:
        ctx.fail("pipeline-degree", case, "pipeline of degree %d returned Hamiltonians of degree %r/%r/%r" % (N, Hm.degree, len(Hp.poly_H) - 1, len(Hf.poly_H) - 1))
        return
    mind = _modes_class(modes[0], modes[1], modes[2], N)
    ip = Instance(N, modes, clmo, Hm.poly_H, Hp.poly_H, Gp.poly_G, ef, ei, TOL_EXP_DIRECT, "partial")
    infop = run_oracles(ip, ctx, case, tag, flows=True)
    # the series at the accessor's default cleaning tolerance (1e-16): same oracles with the cleaning allowance in the floor,
    # only when it differs from the uncleaned one at all
    same = all(np.array_equal(np.asarray(a[d]), np.asarray(b[d])) for A_, B_ in ((ef, efd), (ei, eid)) for a, b in zip(A_, B_) for d in range(N + 1))
    if not same:
        idf = Instance(N, modes, clmo, Hm.poly_H, Hp.poly_H, Gp.poly_G, efd, eid, TOL_EXP_PIPE, "partial")
        infod = run_oracles(idf, ctx, case, tag + "-default-tol", reduced=True)
        infop["default-tol"] = {k: infod.get(k) for k in ("conjugacy-series", "inverse-after-forward", "forward-after-inverse")}
    ifu = Instance(N, modes, clmo, Hm.poly_H, Hf.poly_H, Gf.poly_G, ff, fi, TOL_EXP_DIRECT, "full")
    infof = run_oracles(ifu, ctx, case, tag, flows=True)
    suite = [n for n, m in SUITE_MUS.items() if abs(mu - m) <= 1e-9 * m]
    okp = N >= 4 and infop["nG"] >= 10 and infop.get("conjugacy-series") is not None and infop.get("conjugacy-flow") is not None
    okf = N >= 4 and infof["nG"] >= 10 and infof.get("conjugacy-series") is not None and infof.get("conjugacy-flow") is not None
    nt = ("A", "%.5e" % mu, idx, N) if (okp and okf) else None
    cls = ["A", "A:L%d" % idx, "A:N=%d" % N, "A:" + _div_band(mind), "A:mu=" + (suite[0] if suite else "generated"),
           "A:default-tol-series-" + ("identical" if same else "differs")]
    for nm, inf in (("partial", infop), ("full", infof)):
        for k in SLOPE_CHECKS:
            cls.append("A:%s:%s:%s" % (nm, k, _outcome(inf, k)))
    ctx.case(nontrivial=nt, cls=cls, sample={"case": {k: case[k] for k in ("mu", "point", "N")}, "modes": modes, "min_divisor": mind,
                                             "partial": infop, "full": infof})


class _Modes:
    def __init__(self, lam, om1, om2):
        self.linear_modes = (lam, om1, om2)


def build_synthetic(case):
    N = int(case["N"])
    psi, clmo, enc = hamtools.tables(N)
    lam, om1, om2 = float(case["lam"]), float(case["om1"]), float(case["om2"])
    p = {(1, 0, 0, 1, 0, 0): complex(lam), (0, 1, 0, 0, 1, 0): 1j * om1, (0, 0, 1, 0, 0, 1): 1j * om2}
    for row in case["terms"]:
        k = tuple(int(v) for v in row[:6])
        if not 3 <= sum(k) <= N:
            continue
        p[k] = p.get(k, 0) + complex(row[6], row[7])
    blocks = [np.zeros(int(psi[6, d]), dtype=np.complex128) for d in range(N + 1)]
    for k, v in p.items():
        d = sum(k)
        blocks[d][P.positions(clmo, d)[k]] = v
    return N, psi, clmo, (lam, om1, om2), P.typed(blocks)


def eval_synthetic(case, ctx):
    from hiten.algorithms.hamiltonian.center._lie import _lie_expansion, _lie_transform as lt_partial
    from hiten.algorithms.hamiltonian.normal._lie import _lie_transform as lt_full
    N, psi, clmo, modes, H0 = build_synthetic(case)
    kind = case["kind"]
    tag = "synthetic"
    stage = "_lie_transform"
    try:
        pt = _Modes(*modes)
        if kind == "partial":
            Hn, G, _ = lt_partial(pt, H0, psi, clmo, N)
        else:
            Hn, G, _ = lt_full(pt, H0, psi, clmo, N)
        stage = "_lie_expansion"
        ef = _lie_expansion(G, N, psi, clmo, inverse=False, restrict=False)
        ei = _lie_expansion(G, N, psi, clmo, inverse=True, restrict=False)
    except Exception as e:
        ctx.case(cls=["B", "B:raised"])
        ctx.fail("raises:synthetic:%s:%s:%s" % (kind, stage, type(e).__name__), case, "%s raised %s: %s" % (stage, type(e).__name__, str(e)[:300]))
        return
    inst = Instance(N, modes, clmo, H0, Hn, G, ef, ei, TOL_EXP_DIRECT, kind)
    info = run_oracles(inst, ctx, case, tag, flows=True)
    mind = _modes_class(modes[0], modes[1], modes[2], N)
    ok = N >= 4 and info["nG"] >= 10 and info.get("conjugacy-series") is not None and info.get("conjugacy-flow") is not None
    nt = ("B", hashlib.blake2b(repr(case).encode(), digest_size=8).hexdigest()) if ok else None
    cls = ["B", "B:" + kind, "B:N=%d" % N, "B:" + _div_band(mind), "B:ratio=" + case.get("ratio_kind", "?")]
    for k in SLOPE_CHECKS:
        cls.append("B:%s:%s" % (k, _outcome(info, k)))
    cls.append("B:eliminated>=10" if info["nG"] >= 10 else "B:eliminated<10")
    ctx.case(nontrivial=nt, cls=cls, sample={"N": N, "kind": kind, "modes": modes, "nterms": len(case["terms"]), "info": info} if ctx.evaluations % 23 == 0 else None)


def evaluate(case, ctx):
    if case["cls"] == "A":
        eval_pipeline(case, ctx)
    else:
        eval_synthetic(case, ctx)


# ===================================================================== generators
_dir = st.lists(st.tuples(st.floats(0.4, 1.0), st.floats(0.0, 2 * math.pi)).map(list), min_size=6, max_size=6)


def _logu(lo, hi):
    return st.floats(math.log(lo), math.log(hi)).map(math.exp)


@st.composite
def pipeline_case(draw, nmax):
    mu = draw(st.one_of(st.sampled_from(sorted(SUITE_MUS.values())), _logu(1e-4, 0.3), _logu(1e-4, 0.3)))
    return {"cls": "A", "mu": float(mu), "point": draw(st.integers(1, 2)), "N": draw(st.sampled_from(list(range(3, nmax + 1)))),
            "dirs": draw(st.lists(_dir, min_size=2, max_size=2))}


GOLD = (math.sqrt(5.0) - 1.0) / 2.0
_RATIOS = [GOLD, math.sqrt(2.0) - 1.0 + 0.3, 1.0 / math.e + 0.4, math.pi / 4.0, 0.9718]   # om2/om1 of the CR3BP is ~0.97


@st.composite
def synthetic_case(draw, nmax):
    N = draw(st.sampled_from(list(range(3, nmax + 1))))
    kind = draw(st.sampled_from(["partial", "full"]))
    lam = draw(st.floats(0.5, 4.0))
    om1 = draw(st.floats(0.5, 4.0))
    rk = draw(st.sampled_from(["irrational", "irrational", "free", "exact-2:1"]))
    if rk == "irrational":
        om2 = om1 * draw(st.sampled_from(_RATIOS))
    elif rk == "free":
        om2 = om1 * draw(st.floats(0.3, 0.95))
    else:
        om2 = om1 * 0.5           # exact in binary: om1 - 2 om2 == 0, resonant monomials must be kept by the full form
    nt = draw(st.integers(8, 60))
    terms = []
    for _ in range(nt):
        d = draw(st.integers(3, N))
        k = [0] * 6
        for _ in range(d):
            k[draw(st.integers(0, 5))] += 1
        sc = draw(st.sampled_from([1.0, 1.0, 0.1, 3.0]))
        terms.append(k + [draw(st.floats(-1.0, 1.0)) * sc, draw(st.floats(-1.0, 1.0)) * sc])
    return {"cls": "B", "N": N, "kind": kind, "lam": float(lam), "om1": float(om1), "om2": float(om2), "ratio_kind": rk,
            "terms": terms, "dirs": draw(st.lists(_dir, min_size=2, max_size=2))}


# ===================================================================== harness self-test
def selftest():
    """Own machinery on a case with a closed form: G = a q1^2 p2 (degree 3)."""
    a = 0.3 - 0.2j
    G = NPoly.from_dict({(2, 0, 0, 0, 1, 0): a})
    f = ham_field(G)
    z = np.array([0.1 + 0.05j, 0.2, -0.1j, 0.3, 0.1 - 0.1j, 0.2j])
    # q2' = a q1^2, p1' = -2 a q1 p2, everything else constant: exact time-one map
    u, _, _ = flow_displacement(f, z)
    want = np.zeros(6, dtype=complex)
    want[1] = a * z[0] ** 2
    want[3] = -2 * a * z[0] * z[4]
    if not np.max(np.abs(u - want)) <= 1e-15:
        raise HarnessError("flow self-test failed: %r vs %r" % (u, want))
    # ODE error model on a closed-form non-polynomial flow: G = a q1^2 p1 -> q1(1) = q1/(1 - a q1), p1(1) = p1 (1 - a q1)^2
    f = ham_field(NPoly.from_dict({(2, 0, 0, 1, 0, 0): a}))
    for r in (0.5, 0.05, 0.005, 5e-5):
        zz = z * r
        u, ub, _ = flow_displacement(f, zz)
        s = a * zz[0]
        uq = zz[0] * s / (1 - s)
        up = zz[3] * (-2 * s + s * s)
        err = max(abs(u[0] - uq), abs(u[3] - up))
        if not err <= 0.1 * ODE_ERR * float(np.max(ub)):
            raise HarnessError("ODE accuracy self-test failed at r=%g: error %.3g, displacement %.3g" % (r, err, float(np.max(ub))))
    # own evaluator (double and long double) against polyref's exact arithmetic
    pd = {(2, 0, 1, 0, 0, 0): 0.5 - 1j, (0, 1, 0, 1, 0, 3): 2.0, (0, 0, 0, 0, 0, 0): -0.25j, (1, 1, 1, 1, 1, 1): 1.5 + 0.5j}
    exact_v = complex(P.evaluate(P.mapc(pd, P.exact), [P.exact(complex(v)) for v in z]))
    npd = NPoly.from_dict(pd)
    if not (abs(complex(npd.ev(z)) - exact_v) <= 1e-15 and abs(complex(npd.ev(z.astype(LD))) - exact_v) <= 1e-15):
        raise HarnessError("own evaluator self-test failed")
    dd = pdiff(npd, 5)
    if dd.to_dict() != {(0, 1, 0, 1, 0, 2): 6.0 + 0j, (1, 1, 1, 1, 1, 0): 1.5 + 0.5j}:
        raise HarnessError("own derivative self-test failed: %r" % (dd.to_dict(),))
    if not abs(hsym(np.array([1.0] * 6), 4)[4] - NMONO[4]) < 1e-9:
        raise HarnessError("hsym self-test failed")
    # slope rule on a synthetic error curve
    rungs = [(j, 3.0 * (2.0 ** (-j / 2.0)) ** 5, 1e-12) for j in range(20)]
    ok, best, _ = judge(rungs, 5)
    if ok is not True or abs(best - 5) > 1e-9:
        raise HarnessError("slope self-test failed")
    ok, best, _ = judge(rungs, 6)
    if ok is not False:
        raise HarnessError("slope self-test (negative) failed")
    # right order with a large next term of opposite sign (cancellation at r = 1/800), floor cutting the recovery at any
    # place: never a failure
    for cut in range(8, 40):
        rungs = [(j, abs((2.0 ** (-5 - j / 2.0)) ** 7 * (1.0 - 800.0 * 2.0 ** (-5 - j / 2.0))), 0.0 if j < cut else 1.0) for j in range(44)]
        ok, best, _ = judge(rungs, 7)
        if ok is False:
            raise HarnessError("slope self-test (cancellation dip, cut %d) failed: %r" % (cut, best))


def run(ctx):
    selftest()
    nA = ctx.share(ctx.scale(10, 160))
    nB = ctx.share(ctx.scale(240, 3000))
    explore(ctx, "synthetic", synthetic_case(ctx.scale(5, 6)), evaluate, nB, shrink_calls=ctx.scale(12, 200))
    explore(ctx, "pipeline", pipeline_case(ctx.scale(6, 10)), evaluate, nA, shrink_calls=ctx.scale(2, 8))


def replay(ctx, payload):
    evaluate(payload, ctx)
