"""C01 — field, linearisation and energy integral are mutually consistent.

Oracle: SymPy-derived CR3BP field / Jacobian / energy (vf.oracle.cr3bp), the
pointwise Lie derivative of the *library's* energy along the *library's* field,
and energy constancy along trajectories produced by every propagation method.
"""
from __future__ import annotations

import logging
import math

import numpy as np
from hypothesis import strategies as st

from .. import gen
from ..hyp import explore
from ..oracle import cr3bp as O
from ..runner import HarnessError

PROPERTY = "C01"
LEVEL = "exploration"
SHARDS = {"quick": 8, "thorough": 16}
RULE = ("cases = generated (mu, 6-D state at distance > 1e-3 from both primaries, random 6x6 Phi) through the module kernels "
        "_crtbp_accel/_jacobian_crtbp/_var_equations/crtbp_energy/effective_potential/_max_rel_energy_error, the System-level compiled "
        "closures (mu baked in) and System.propagate for every method/order/direction; non-trivial = spatial state (|z|>1e-3 and |vz|>1e-3) "
        "with both primaries within distance 3; distinct by (mu, state) rounded to 6 significant digits")
ASSUMPTIONS = [
    "energy clause asserted as d/dtau E_lib(s + tau*f_lib(s)) = 0 (Richardson central difference) with tolerance 1e-7*sum|terms| + rounding floor",
    "trajectory clause: |dE| <= 1e-6*energy scale on benign arcs (distance to primaries >= 0.12 along the densely sampled reference arc), adaptive rtol/atol as configured by the library default",
    "states within 1e-3 of a primary are outside the domain (statement: away from the two primaries)",
]

logging.disable(logging.CRITICAL)
EPS = 2.220446049250313e-16
_lib = None


def lib():
    global _lib
    if _lib is None:
        from hiten.algorithms.dynamics import rtbp
        from hiten.algorithms.common import energy as en
        _lib = (rtbp, en)
    return _lib


def _phi(seed):
    rng = np.random.default_rng(int(seed))
    return rng.uniform(-2.0, 2.0, size=(6, 6))


def _lie(Efun, s, f, mu):
    """d/dtau E(s + tau f) at 0 by Richardson-extrapolated central differences.
    Returns (derivative, error bound).  With ell = min(r1,r2,1)/|v| the length
    (in tau) on which the potential varies, tau = 1e-2*ell; D(h) = E' + a h^2 +
    b h^4 with b h^4 <~ 20 (h/ell)^2 a h^2, so the extrapolated value is off by
    <~ 1e-3*|D(h)-D(h/2)|; a factor 20 of slack is applied."""
    r1, r2 = O.distances(s, mu)
    vnorm = max(np.linalg.norm(f[:3]), 1e-6)
    ell = min(r1, r2, 1.0) / vnorm
    tau = min(1.0, 1e-2 * ell)

    def D(h):
        return (Efun(s + h * f) - Efun(s - h * f)) / (2 * h)
    d1, d2 = D(tau), D(tau / 2)
    d = (4 * d2 - d1) / 3
    esc = O.energy_scale(s, mu) + 0.5 * (tau * np.linalg.norm(f[3:])) ** 2
    err = 2e-2 * abs(d2 - d1) + 1000 * EPS * esc / tau + 1e-7 * esc / max(ell, 1e-12) * 1e-2
    return d, err


@st.composite
def point_case(draw):
    m = draw(gen.mu())
    s = draw(gen.state6(m, delta=1e-3))
    return {"mu": m, "s": s, "phi_seed": draw(st.integers(0, 2 ** 31))}


def _key(case):
    return ("%.5e" % case["mu"],) + tuple("%.5e" % v for v in case["s"])


def eval_point(case, ctx, rhs_fns=None):
    rtbp, en = lib()
    mu = float(case["mu"]); s = np.array(case["s"], dtype=float)
    r1, r2 = O.distances(s, mu)
    spatial = abs(s[2]) > 1e-3 and abs(s[5]) > 1e-3
    zvz = ":z*vz!=0" if s[2] * s[5] != 0 else ":z*vz==0"
    nt = _key(case) if (spatial and r1 < 3 and r2 < 3) else None
    cls = ["spatial" if spatial else "planar",
           "near-primary" if min(r1, r2) < 0.05 else "mid",
           "mu<1e-6" if mu < 1e-6 else ("mu<1e-3" if mu < 1e-3 else "mu>=1e-3")]
    ctx.case(nontrivial=nt, cls=cls, sample={"mu": mu, "state": case["s"]} if nt and ctx.evaluations % 500 == 0 else None)

    f_or = O.field(s, mu)
    fsc = O.field_scale(s, mu) + O.field_cond(s, mu)
    if rhs_fns is None:
        f_lib = np.asarray(rtbp._crtbp_accel(s, mu), dtype=float)
        J_lib = np.asarray(rtbp._jacobian_crtbp(s[0], s[1], s[2], mu), dtype=float)
        Phi = _phi(case["phi_seed"])
        w = np.concatenate([Phi.ravel(), s])
        dv = np.asarray(rtbp._var_equations(0.0, w, mu), dtype=float)
        tag = "kernel"
    else:
        f_lib = np.asarray(rhs_fns[0](0.0, s), dtype=float)
        J_lib = np.asarray(rhs_fns[1](0.0, s[:3].copy()), dtype=float).reshape(6, 6)
        Phi = _phi(case["phi_seed"])
        w = np.concatenate([Phi.ravel(), s])
        dv = np.asarray(rhs_fns[2](0.0, w), dtype=float)
        tag = "system"
    # (a) field
    if not np.all(np.abs(f_lib - f_or) <= 64 * EPS * fsc):
        k = int(np.argmax(np.abs(f_lib - f_or)))
        ctx.fail("%s:field-component-%d" % (tag, k), case, "rhs[%d]=%.17g oracle=%.17g" % (k, f_lib[k], f_or[k]))
    # (b) Jacobian == derivative of the oracle field, and == finite differences of the library field
    J_or = O.jacobian(s, mu)
    jsc = O.jac_scale(s, mu) + O.jac_cond(s, mu)
    dJ = np.abs(J_lib - J_or)
    if not np.all(dJ <= 256 * EPS * jsc):
        i, j = np.unravel_index(int(np.argmax(dJ)), dJ.shape)
        ctx.fail("%s:jacobian-entry-%d-%d" % (tag, i, j), case, "J[%d,%d]=%.17g d(field)/d(state)=%.17g" % (i, j, J_lib[i, j], J_or[i, j]))
    if rhs_fns is None:
        h = 1e-4 * min(r1, r2, 1.0)
        Jfd = np.zeros((6, 6))
        for k in range(6):
            e = np.zeros(6); e[k] = h
            d1 = (rtbp._crtbp_accel(s + e, mu) - rtbp._crtbp_accel(s - e, mu)) / (2 * h)
            d2 = (rtbp._crtbp_accel(s + e / 2, mu) - rtbp._crtbp_accel(s - e / 2, mu)) / h
            Jfd[:, k] = (4 * d2 - d1) / 3
        tolfd = 1e-6 * jsc + 100 * EPS * fsc / h
        dF = np.abs(J_lib - Jfd)
        if not np.all(dF <= tolfd):
            i, j = np.unravel_index(int(np.argmax(dF)), dF.shape)
            ctx.fail("kernel:jacobian-vs-own-field-fd-%d-%d" % (i, j), case, "J[%d,%d]=%.12g, finite difference of the library field=%.12g" % (i, j, J_lib[i, j], Jfd[i, j]))
    # (c) variational system: same field, same Jacobian, F @ Phi
    if not np.all(np.abs(dv[36:] - f_lib) <= 64 * EPS * fsc):
        k = int(np.argmax(np.abs(dv[36:] - f_lib)))
        ctx.fail("%s:var-state-block-differs-from-field-%d" % (tag, k), case, "var_rhs[36+%d]=%.17g rhs[%d]=%.17g" % (k, dv[36 + k], k, f_lib[k]))
    FP = J_lib @ Phi
    psc = (np.abs(J_lib) @ np.abs(Phi))
    dP = np.abs(dv[:36].reshape(6, 6) - FP)
    if not np.all(dP <= 64 * EPS * (psc + 1e-300)):
        i, j = np.unravel_index(int(np.argmax(dP - 64 * EPS * psc)), dP.shape)
        ctx.fail("%s:var-stm-block-not-F@Phi" % tag, case, "dPhi[%d,%d]=%.17g (F@Phi)=%.17g" % (i, j, dv[:36].reshape(6, 6)[i, j], FP[i, j]))
    if rhs_fns is not None:
        return
    # (d) energy / Jacobi are first integrals of the library's own field
    terms = float(np.sum(np.abs(s[3:] * f_lib[3:])) + np.sum(np.abs(O.grad_omega(s[0], s[1], s[2], mu) * s[3:])))
    for name, Efun in (("crtbp_energy", lambda q: float(en.crtbp_energy(q, mu))),
                       ("kinetic+effective_potential", lambda q: float(en.kinetic_energy(q)) + float(en.effective_potential(q, mu))),
                       ("jacobi", lambda q: float(en.energy_to_jacobi(en.crtbp_energy(q, mu))))):
        d, err = _lie(Efun, s, f_lib, mu)
        k = 2.0 if name == "jacobi" else 1.0
        tol = k * (1e-6 * terms + err)
        if not abs(d) <= tol:
            ctx.fail("energy-not-first-integral:" + name + zvz, case,
                     "d/dt %s along the field = %.6g (tolerance %.3g); z*vz=%.6g" % (name, d, tol, s[2] * s[5]))
    # second Jacobi formula inside _max_rel_energy_error: C(s+tau f) - C(s-tau f) = 2 tau dC/dt + O(tau^3)
    vnorm = max(np.linalg.norm(f_lib[:3]), 1e-6)
    tau = min(1.0, 1e-3 * min(r1, r2, 1.0) / vnorm)
    pair = np.vstack([s - tau * f_lib, s + tau * f_lib])
    rel = float(en._max_rel_energy_error(pair, mu))
    C0 = abs(O.jacobi(pair[0], mu))
    absd = rel * C0 if C0 > 1e-12 else rel
    esc = O.energy_scale(s, mu) + 0.5 * (tau * np.linalg.norm(f_lib[3:])) ** 2
    tol = 2 * tau * 1e-5 * (terms + esc * vnorm / min(r1, r2, 1.0)) + 400 * EPS * esc
    if not absd <= tol:
        ctx.fail("energy-not-first-integral:_max_rel_energy_error" + zvz, case,
                 "|C(s+tau f)-C(s-tau f)|=%.6g for tau=%.3g (tolerance %.3g)" % (absd, tau, tol))
    # consistency of the two reported quantities: jacobi == -2*energy exactly as documented
    E = float(en.crtbp_energy(s, mu))
    if en.energy_to_jacobi(E) != -2 * E or abs(en.jacobi_to_energy(en.energy_to_jacobi(E)) - E) > 4 * EPS * abs(E):
        ctx.fail("jacobi-energy-relation", case, "energy_to_jacobi(E) != -2E")


# ---------------------------------------------------------------- trajectories
@st.composite
def traj_case(draw, mus):
    m = draw(st.sampled_from(mus))
    s = draw(gen.state6(m, delta=0.15, vmax=0.8))
    tf = draw(st.floats(0.2, 3.0))
    method, order = draw(st.sampled_from([("fixed", 4), ("fixed", 6), ("fixed", 8), ("adaptive", 5), ("adaptive", 8)]))
    fwd = draw(st.sampled_from([1, 1, -1]))
    steps = draw(st.sampled_from([400, 1000, 2000]))
    return {"mu": m, "s": s, "tf": tf, "method": method, "order": order, "forward": fwd, "steps": steps}


_systems = {}


def _system(mu):
    from hiten import System
    if mu not in _systems:
        _systems[mu] = System.from_mu(mu)
    return _systems[mu]


def eval_traj(case, ctx):
    rtbp, en = lib()
    mu = float(case["mu"]); s = np.array(case["s"], dtype=float)
    tf = float(case["tf"]) * case["forward"]
    # benign arc by the oracle's own reference flow (no collision, moderate stretching)
    try:
        ref = O.flow(s, tf, mu, rtol=1e-11, atol=1e-11, dense=True)
    except Exception:
        ctx.case(cls="traj:reference-failed")
        return
    ts = np.linspace(0, tf, 1500)
    Y = ref.sol(ts).T
    dmin = min(min(O.distances(y, mu)) for y in Y)
    # benign arcs only (densely sampled): close approaches are where the integration accuracy itself (C02) degrades
    if dmin < 0.12 or np.max(np.abs(Y)) > 10:
        ctx.case(cls="traj:not-benign")
        return
    sysm = _system(mu)
    traj = sysm.propagate(s, tf=float(case["tf"]), steps=case["steps"], method=case["method"], order=case["order"], forward=case["forward"])
    X = np.asarray(traj.states, dtype=float)
    spatial = abs(s[2]) > 1e-3 and abs(s[5]) > 1e-3
    ctx.case(nontrivial=("traj",) + _key(case) + (case["method"], case["order"], case["forward"]) if spatial else None,
             cls=["traj:%s%d" % (case["method"], case["order"]), "traj:fwd" if case["forward"] > 0 else "traj:bwd", "traj:spatial" if spatial else "traj:planar"],
             sample=case if ctx.evaluations % 7 == 0 else None)
    E_lib = np.array([en.crtbp_energy(x, mu) for x in X])
    E_or = np.array([O.energy(x, mu) for x in X])
    esc = max(O.energy_scale(x, mu) for x in X[:: max(1, len(X) // 50)])
    # (i) integration accuracy: the true integral is conserved along the produced trajectory
    drift_or = float(np.max(np.abs(E_or - E_or[0])))
    if not drift_or <= 1e-6 * esc:
        ctx.fail("trajectory-not-on-energy-level:%s%d" % (case["method"], case["order"]), case,
                 "true Jacobi energy moves by %.3g along the propagated trajectory (scale %.3g)" % (drift_or, esc))
        return
    # (ii) the library's reported energy is constant along it
    drift_lib = float(np.max(np.abs(E_lib - E_lib[0])))
    if not drift_lib <= 2e-6 * esc:
        ctx.fail("reported-energy-not-constant-along-trajectory" + (":spatial" if spatial else ":planar"), case,
                 "crtbp_energy moves by %.3g along a trajectory on which the true integral moves by %.3g" % (drift_lib, drift_or))


def run(ctx):
    try:
        O.selftest()
    except AssertionError as e:
        raise HarnessError("cr3bp oracle self-test failed: %r" % (e,))
    explore(ctx, "point", point_case(), eval_point, ctx.share(ctx.scale(16000, 800000)))
    # System-level closures with mu baked in: a few mu values per shard
    from hiten import System
    cat = gen.catalogue_pairs()
    nmu = ctx.scale(2, 12)
    mus = []
    for k in range(nmu):
        idx = (ctx.shard * nmu + k + ctx.seed) % (len(cat) + 4)
        mus.append(cat[idx][2] if idx < len(cat) else [0.5, 0.3, 1e-4, 0.0123][idx - len(cat)])
    for m in mus:
        sysm = System.from_mu(m)
        fns = (sysm.dynsys.rhs, sysm.jacobian_dynsys.rhs, sysm.var_dynsys.rhs)
        if abs(sysm.mu - m) > 0:
            ctx.fail("system-mu-differs", {"mu": m}, "System.from_mu(%r).mu == %r" % (m, sysm.mu))

        @st.composite
        def sc(draw, m=m):
            return {"mu": m, "s": draw(gen.state6(m, delta=1e-3)), "phi_seed": draw(st.integers(0, 2 ** 31))}
        explore(ctx, "system-%g" % m, sc(), lambda c, cx, fns=fns: eval_point(c, cx, fns), ctx.scale(60, 400))
    # trajectories through System.propagate
    tm = [0.01215058560962404, mus[0]] if ctx.tier == "quick" else [0.01215058560962404] + mus[:3]
    tm = [m for m in tm if m >= 1e-7] or [0.01215058560962404]
    explore(ctx, "traj", traj_case(tm), eval_traj, ctx.share(ctx.scale(64, 1600)), shrink=False)


def replay(ctx, payload):
    if "tf" in payload:
        eval_traj(payload, ctx)
    else:
        eval_point(payload, ctx)
