"""C07 — the polynomial Hamiltonian is the Taylor expansion of the true CR3BP Hamiltonian.

Generated (mu, libration point L1..L5, truncation degree N, six unit directions u on S^5).  The physical Hamiltonian is
observed through the low-level builders, through HamiltonianPipeline(point, N).get_hamiltonian("physical") and, for
L1/L2 and N <= 6, through the public point.hamiltonian(N, form="physical") (L3/L4/L5: NotImplementedError accepted).
Phi = the library's own _local2synodic_collinear/_triangular, measured as an affine map Phi(s) = b + M s.

Oracle (vf.oracle.c07_series: multi-precision power-series arithmetic on the textbook energy and equations of motion,
no code shared with hiten, self-tested against vf.oracle.cr3bp): along every ray s = r u the exact energy E(Phi(r u))
and the exact CR3BP acceleration at the library's synodic state Phi(r u) are expanded in powers of r.
H_N(r u) = sum_d r^d h_d(u) is a polynomial in r, hence "H_N differs from the exact shifted and scaled energy by
O(r^(N+1))" holds iff h_d(u) equals the d-th Taylor coefficient for every d <= N, and "Hamilton's equations reproduce
the accelerations to O(r^N)" iff the r-coefficients of A*xddot(r u) (xddot from the coefficient arrays by exact
differentiation, A = measured position block of Phi) agree for d <= N-1.  This coefficient form is the primary
assertion: it is sharp and not limited by the rounding floor.  Where it passes, the literal form is evaluated too on
the radius ladder r_k = r_max 2^-k, k = 0..7: library evaluator vs own evaluator, residual below the rigorous Legendre
remainder bound, log-slope on the two finest usable ratios (>= N+1-0.5 value, >= N-0.5 acceleration), and "adding a
degree does not make it worse" against the separately built H_{N-1}.  Slope and add-a-degree are asserted only where
the oracle's own exact remainder is asymptotic on the same rungs (about 3% / 17% of the directions are not: the
remainder changes sign between rungs, which gives arbitrary slopes for a correct expansion).
"""
from __future__ import annotations

import logging
import math
import os

import mpmath as mp
import numpy as np
from hypothesis import strategies as st

from .. import gen
from ..hyp import explore
from ..oracle import c07_series as S
from ..oracle import cr3bp as O
from ..oracle import polyref as P
from ..runner import HarnessError, shard_replays

PROPERTY = "C07"
LEVEL = "exploration"
SHARDS = {"quick": 4, "thorough": 8}
NUMBA_THREADS = {"quick": 1, "thorough": 1}    # builders take milliseconds single-threaded; prange only adds contention
REPLAY_IN_RUN = True    # regression inputs need the JIT-compiled polynomial stack: replayed inside the shards, not in the parent
os.environ.setdefault("NUMBA_NUM_THREADS", "1")   # --replay / in-process runs
RULE = ("case = (mu from the shared mixture: log-uniform [1e-9,0.5] + catalogue + edge values, point L1..L5, degree N in 2..8 quick / 2..10 thorough, "
        "6 unit directions u on S^5 with all six components non-zero); each direction is one evaluation: Taylor coefficients d=0..N of the value and "
        "d=0..N-1 of the acceleration along the ray, plus the 8-rung radius ladder r_max*2^-k (r_max = half the local distance to the nearest primary). "
        "non-trivial = N >= 4 AND mu not within 1% of the test-suite's Earth-Moon/Sun-Earth/Sun-Jupiter values AND all |u_i| > 0.1 AND the image of the "
        "local origin passed the equilibrium test, so that the coefficients were actually compared (the ladder slope test itself needs >= 2 ratios above the "
        "rounding floor, else it is counted in class 'ratios=0/1' and never failed); distinct by (mu to 6 digits, point, N, direction to 3 digits)")
ASSUMPTIONS = [
    "local coordinates are DEFINED by the library's own _local2synodic_collinear/_triangular (measured as an affine map from the origin and the six basis vectors; affinity asserted on every ladder point)",
    "energy scale = gamma^2 for collinear points, 1 for triangular points (read from the transforms; cross-checked against the measured velocity scaling and by the degree-2 coefficients)",
    "the dropped constant term is documented by the builders ('constant term is removed'), so H_N(0) = 0 is asserted",
    "the equilibrium is located by the library's root finder: a residual gradient of the exact energy at the library's own origin up to |Hess Omega| * 2e-10 (the position tolerance C04 asserts) is accepted and enters the ladder floor with its measured value",
    "acceleration identity: A*xddot(s) = (2Vy + Omega_X, -2Vx + Omega_Y, Omega_Z) at the library's own synodic state Phi(s) (positions and the library's velocities). The velocities enter only the r^1 coefficient (Coriolis); because the statement does not fix the time direction of the map (design note N-1) the Coriolis term of the time-reversed in-plane motion (-2Vy, +2Vx) is accepted too and recorded as class 'coriolis-sign=-1' (observed for L3 on the pinned tree); velocities are NOT compared with pushed-forward velocities",
    "slope and add-a-degree assertions are applied only where the oracle's own exact remainder is in its asymptotic regime on the same rungs (a sign change of the remainder between rungs otherwise gives arbitrary slopes for a correct expansion); the rigorous remainder bound and the coefficient comparison apply always",
    "public route point.hamiltonian(N, form='physical') also computes the centre manifold: exercised for N <= 6 on L1/L2; an explicit NotImplementedError for L3/L4/L5 is accepted, the pipeline/builders are then the observation points",
]
logging.disable(logging.CRITICAL)
mp.mp.dps = S.DPS
EPS = 2.220446049250313e-16
SUITE_MUS = (0.01215058560962404, 3.0034805945423304e-06, 0.0009536838895767034)
NRUNG = 8
DELTA_EQ = 2e-10     # documented accuracy of the collinear equilibrium position (Brent xtol 1e-12, fallback 1e-10; C04 asserts 2e-10)


# ------------------------------------------------------------------ generators
_W = (1.0, 0.83, 0.71, 0.93, 0.67, 0.79)


@st.composite
def direction(draw):
    """Unit vector with six non-zero components.  The fixed unequal weights keep Hypothesis' favourite draws (all
    magnitudes at a bound) away from the symmetric directions |u_1| = ... = |u_6|, on which x^2 - (y^2+z^2)/2 and
    y px - x py vanish, i.e. on which a wrong quadratic potential or Coriolis term is invisible in the value."""
    wide = draw(st.integers(0, 4)) == 0
    lo = 0.03 if wide else 0.4
    v = [draw(st.floats(lo, 1.0)) * _W[i] * (1 if draw(st.booleans()) else -1) for i in range(6)]
    n = math.sqrt(sum(x * x for x in v))
    return [x / n for x in v]


@st.composite
def ham_case(draw, nmax):
    return {"mu": draw(gen.mu()), "point": draw(st.integers(1, 5)), "N": draw(st.integers(2, nmax)),
            "dirs": [draw(direction()) for _ in range(6)]}


# ------------------------------------------------------------------ own polynomial evaluator on the coefficient arrays
class RayPoly:
    """Homogeneous parts of H and of its first/second partial derivatives evaluated on a unit direction u.

    part[d]            = h_d(u)                      (value, degree d)
    d1[j][d]           = (dH/dx_j)_d(u)              (degree-d part of the derivative)
    d2[i][j][d]        = (d2H/dp_i dx_j)_d(u), i in 0..2 (momenta), j in 0..5
    *_abs              = same sums with absolute values (rounding scale)
    """

    def __init__(self, blocks, exps, u, derivs=True):
        N = len(blocks) - 1
        self.N = N
        u = np.asarray(u, float)
        pw = np.ones((6, N + 1))
        for e in range(1, N + 1):
            pw[:, e] = pw[:, e - 1] * u
        self.part = np.zeros(N + 1); self.part_abs = np.zeros(N + 1)
        self.d1 = np.zeros((6, N + 1)); self.d1_abs = np.zeros((6, N + 1))
        self.d2 = np.zeros((3, 6, N + 1)); self.d2_abs = np.zeros((3, 6, N + 1))
        for d in range(N + 1):
            c = blocks[d]
            nz = np.flatnonzero(c)
            if nz.size == 0:
                continue
            c = c[nz]; E = exps[d][nz]
            f = [pw[j][E[:, j]] for j in range(6)]                     # u_j^e
            f1 = [pw[j][np.maximum(E[:, j] - 1, 0)] for j in range(6)]  # u_j^(e-1)
            f2 = [pw[j][np.maximum(E[:, j] - 2, 0)] for j in range(6)]
            full = c * f[0] * f[1] * f[2] * f[3] * f[4] * f[5]
            self.part[d] = math.fsum(full); self.part_abs[d] = float(np.sum(np.abs(full)))
            if d == 0 or not derivs:
                continue
            others = []
            for j in range(6):
                o = np.ones(c.shape[0])
                for k in range(6):
                    if k != j:
                        o = o * f[k]
                others.append(o)
            for j in range(6):
                t = c * E[:, j] * f1[j] * others[j]
                self.d1[j][d - 1] = math.fsum(t); self.d1_abs[j][d - 1] = float(np.sum(np.abs(t)))
            if d == 1:
                continue
            for i in range(3):
                pi = 3 + i
                for j in range(6):
                    if j == pi:
                        t = c * E[:, pi] * (E[:, pi] - 1) * f2[pi] * others[pi]
                    else:
                        o = np.ones(c.shape[0])
                        for k in range(6):
                            if k != j and k != pi:
                                o = o * f[k]
                        t = c * E[:, pi] * E[:, j] * f1[pi] * f1[j] * o
                    self.d2[i][j][d - 2] = math.fsum(t); self.d2_abs[i][j][d - 2] = float(np.sum(np.abs(t)))

    def xddot_parts(self):
        """r-coefficients (orders 0..2N-3) of xddot_i(r u) = sum_j H_{p_i x_j} H_{p_j} - H_{p_i p_j} H_{x_j}, and their abs-sums."""
        N = self.N
        nd = max(2 * N - 2, 1)
        out = np.zeros((3, nd)); outa = np.zeros((3, nd))
        for i in range(3):
            for j in range(3):
                for a in range(N - 1):          # second derivatives: parts 0..N-2
                    for b in range(N):          # first derivatives: parts 0..N-1
                        out[i][a + b] += self.d2[i][j][a] * self.d1[3 + j][b] - self.d2[i][3 + j][a] * self.d1[j][b]
                        outa[i][a + b] += self.d2_abs[i][j][a] * self.d1_abs[3 + j][b] + self.d2_abs[i][3 + j][a] * self.d1_abs[j][b]
        return out, outa


def _real_blocks(poly, ctx, bucket, case):
    """Library coefficient arrays -> list of float64 arrays (imaginary parts must vanish for the physical Hamiltonian)."""
    out = []
    for d in range(len(poly)):
        a = np.asarray(poly[d])
        if np.iscomplexobj(a):
            if a.size and float(np.max(np.abs(a.imag))) > 0.0:
                ctx.fail(bucket + ":imaginary-coefficients", case, "degree %d block has max |Im| = %.3g" % (d, float(np.max(np.abs(a.imag)))))
            a = a.real
        out.append(np.array(a, dtype=float))
    return out


# ------------------------------------------------------------------ library access
_sys_cache = {}
_tab_cache = {}


def _point(mu, idx):
    from hiten import System
    key = (mu, idx)
    if key not in _sys_cache:
        if len(_sys_cache) > 8:
            _sys_cache.clear()
        _sys_cache[key] = System.from_mu(mu).get_libration_point(idx)
    return _sys_cache[key]


def _tables(N):
    from hiten.algorithms.polynomial.base import _init_index_tables
    if N not in _tab_cache:
        psi, clmo = _init_index_tables(N)
        _tab_cache[N] = (psi, clmo, [P.exps(clmo, d) for d in range(N + 1)])
    return _tab_cache[N]


def _phi(pt, idx):
    from hiten.algorithms.hamiltonian.transforms import _local2synodic_collinear, _local2synodic_triangular
    f = _local2synodic_collinear if idx <= 3 else _local2synodic_triangular
    return lambda s: np.asarray(f(pt, np.asarray(s, dtype=float)), dtype=float)


def _suite_mu(mu):
    return any(abs(mu - m) <= 0.01 * m for m in SUITE_MUS)


def _mpf(x):
    return mp.mpf(float(x))


# ------------------------------------------------------------------ the check for one coefficient list
def check_route(ctx, case, L, route, blocks, exps, geo, lib_eval, prev_blocks):
    """All assertions for one observed Hamiltonian (list of real coefficient blocks).  Returns per-direction ladder usability."""
    mu = geo["mu"]; N = len(blocks) - 1
    b = geo["b"]; M = geo["M"]; scale = geo["scale"]; A = M[:3, :3]
    Dp = geo["D"]; masses = (1.0 - mu, mu); Dmin = min(Dp)
    cond = 1.0 + (float(np.max(np.abs(b[:3]))) + 1.0) / Dmin
    hess = geo["hess"]; delta_eq = geo["delta_eq"]
    tag = "%s:%s" % (L, route)
    usable = []
    stats = {"val": ctx.extra.setdefault("max_value_coefficient_error_over_tolerance_per_shard", [0.0]),
             "acc": ctx.extra.setdefault("max_acceleration_coefficient_error_over_tolerance_per_shard", [0.0])}
    if blocks[0].size and blocks[0][0] != 0.0:
        ctx.fail(tag + ":constant-term", case, "H_N(0) = %r although the builders document that the constant term is removed" % float(blocks[0][0]))
    for u in case["dirs"]:
        u = np.asarray(u, float)
        rp = RayPoly(blocks, exps, u)
        w = M @ u
        Xu = w[:3]; Vu = w[3:]
        rho = float(np.linalg.norm(Xu))
        V0 = b[3:]
        # ---- oracle: Taylor coefficients of the exact energy / acceleration along the ray, about the library's own origin
        Es, As = S.ray_series([_mpf(v) for v in b], [mp.fsum(_mpf(M[i][j]) * _mpf(u[j]) for j in range(6)) for i in range(6)], mu, N + 1)
        g = [Es[d] / _mpf(scale) for d in range(N + 2)]
        g[0] = mp.mpf(0)          # shifted energy: E(Phi(r u)) - E(Phi(0))
        # majorants of the terms that make up the d-th coefficient (|P_d| <= 1 for the inverse-distance terms)
        maj = np.zeros(N + 2)
        for d in range(1, N + 2):
            maj[d] = sum(m * rho ** d / D ** (d + 1) for m, D in zip(masses, Dp))
        maj[1] += abs(b[0] * Xu[0]) + abs(b[1] * Xu[1]) + float(np.sum(np.abs(V0 * Vu)))
        maj[2] += 0.5 * float(Vu @ Vu) + 0.5 * (Xu[0] ** 2 + Xu[1] ** 2)
        maj /= scale
        tolv = np.array([16 * (d + 3) * EPS * cond * maj[d] for d in range(N + 1)]) + \
            np.array([16 * (d + 8) * EPS * rp.part_abs[d] for d in range(N + 1)])
        tol_eq = 2.0 * delta_eq * hess * rho / scale
        g1 = abs(float(g[1]))
        bad_origin = False
        # ---- degree 1: the library's origin must be an equilibrium of the exact energy, and H must have no linear part
        if not g1 <= tol_eq + tolv[1]:
            bad_origin = True
            ctx.fail("%s:local2synodic:origin-not-an-equilibrium" % L, case,
                     "exact energy has directional derivative %.6g at the image of the local origin %r along u (allowed %.3g): "
                     "the local origin is not mapped to the equilibrium state" % (float(g[1]) * scale, b.tolist(), (tol_eq + tolv[1]) * scale))
        lin_bad = False
        if not abs(rp.part[1]) <= tol_eq + tolv[1]:
            lin_bad = True
            ctx.fail(tag + ":linear-term-at-equilibrium", case,
                     "H_N has a linear part: h_1(u) = %.6g (an expansion about an equilibrium has none; allowed %.3g)" % (rp.part[1], tol_eq + tolv[1]))
        if bad_origin:
            usable.append((False, 0))
            continue
        # ---- degrees 2..N of the value
        coeff_ok_v = True
        for d in range(2, N + 1):
            if tolv[d] > 0:
                stats["val"][0] = max(stats["val"][0], abs(rp.part[d] - float(g[d])) / tolv[d])
            if not abs(rp.part[d] - float(g[d])) <= tolv[d]:
                coeff_ok_v = False
                ctx.fail(tag + ":value-coefficient:degree-%d" % d, case,
                         "degree-%d part of H_%d along u = %.15g, Taylor coefficient of [E(Phi(r u)) - E(Phi(0))]/scale = %.15g (diff %.3g, allowed %.3g)"
                         % (d, N, rp.part[d], float(g[d]), rp.part[d] - float(g[d]), tolv[d]))
                break
        if lin_bad:
            # a spurious linear part moves the equilibrium: the dynamics and the ladder would only repeat it
            usable.append((True, 0))
            continue
        # ---- acceleration coefficients d = 0..N-1
        xdd, xdda = rp.xddot_parts()
        acc = A @ xdd; acca = np.abs(A) @ xdda
        macc = np.zeros(N + 1)
        for d in range(N + 1):
            macc[d] = sum(m * math.sqrt(2.0) * (d + 1) * rho ** d / D ** (d + 2) for m, D in zip(masses, Dp))
        macc[0] += 2 * float(np.sum(np.abs(V0[:2]))) + abs(b[0]) + abs(b[1])
        macc[1] += 2 * float(np.sum(np.abs(Vu[:2]))) + abs(Xu[0]) + abs(Xu[1])
        nacc = acc.shape[1]
        tola = np.array([16 * (d + 4) * EPS * cond * macc[min(d, N)] if d <= N else 0.0 for d in range(nacc)]) + \
            np.array([16 * (d + 8) * EPS * float(np.max(acca[:, d])) for d in range(nacc)])
        tol_eq_a = 2.0 * delta_eq * hess
        # The velocity enters the acceleration only through the Coriolis term, i.e. only the r^1 coefficient.  Literal
        # reading first: the library's own velocities.  The statement does not fix the time direction of the
        # local-to-synodic map (design note N-1), so the acceleration of the time-reversed in-plane motion through the
        # same synodic state (Coriolis term with the opposite sign) is accepted as well and recorded as a class.
        dV = np.zeros(2)
        coeff_ok = coeff_ok_v
        for d in range(0, N):
            want = np.array([float(As[c][d]) for c in range(3)])
            got = acc[:, d] if d < nacc else np.zeros(3)
            allowed = (tola[d] if d < nacc else 0.0) + (tol_eq_a if d == 0 else 0.0)
            err = float(np.max(np.abs(got - want)))
            if d == 1 and not err <= allowed:
                want2 = want - np.array([4.0 * Vu[1], -4.0 * Vu[0], 0.0])
                if float(np.max(np.abs(got - want2))) <= allowed:
                    ctx.classes["%s:coriolis-sign=-1(library velocities are those of the time-reversed image motion)" % L] += 1
                    dV = -2.0 * Vu[:2]
                    As = ([v for v in As[0]], [v for v in As[1]], As[2])
                    As[0][1] -= 4 * _mpf(Vu[1]); As[1][1] += 4 * _mpf(Vu[0])
                    continue
            elif d == 1:
                ctx.classes["%s:coriolis-sign=+1" % L] += 1
            if allowed > 0:
                stats["acc"][0] = max(stats["acc"][0], err / allowed)
            if not err <= allowed:
                coeff_ok = False
                ctx.fail(tag + ":acceleration-coefficient:degree-%d" % d, case,
                         "r^%d coefficient of A*xddot(r u) from Hamilton's equations of H_%d = %r, of the CR3BP acceleration at the library's synodic state Phi(r u) = %r "
                         "(allowed %.3g; the r^1 coefficient was also tried with the Coriolis sign of the time-reversed motion)" % (d, N, got.tolist(), want.tolist(), allowed))
                break
        if not coeff_ok:
            # the ladder would only repeat the coefficient failure in its literal form
            usable.append((True, 0))
            continue
        # ---- the radius ladder
        rmax = geo["rmax"]
        rs = [rmax * 2.0 ** -k for k in range(NRUNG)]
        E0 = S.energy([_mpf(v) for v in b], mu)
        res = []; resa = []; tail = []; exa = []; fl = []; fla = []; Bk = []; res_prev = []
        rp_prev = RayPoly(prev_blocks, exps[:len(prev_blocks)], u, derivs=False) if prev_blocks is not None else None
        for k, r in enumerate(rs):
            s = r * u
            rpow = np.array([r ** d for d in range(max(N + 1, nacc))])
            Hown = math.fsum(rp.part[d] * rpow[d] for d in range(N + 1))
            Habs = float(np.sum(rp.part_abs * rpow[:N + 1]))
            if lib_eval is not None:
                try:
                    Hlib = complex(lib_eval(s))
                except Exception as e:
                    ctx.fail(tag + ":library-evaluation-raises:%s" % type(e).__name__, case, str(e)[:300])
                    Hlib = complex(Hown)
                if not (abs(Hlib.imag) <= 16 * (N + 8) * EPS * Habs and abs(Hlib.real - Hown) <= 16 * (N + 8) * EPS * Habs):
                    ctx.fail(tag + ":library-evaluation-disagrees-with-coefficients", case,
                             "library evaluates H_%d(s) = %r, the returned coefficient arrays give %.17g at s = %r" % (N, Hlib, Hown, s.tolist()))
            st_mp = S.affine(b, M, s)
            dE = (S.energy(st_mp, mu) - E0) / _mpf(scale)
            TN = mp.fsum(g[d] * _mpf(r) ** d for d in range(N + 1))
            tail.append(float(abs(dE - TN)))
            res.append(float(abs(_mpf(Hown) - dE)))
            if rp_prev is not None:
                Hp = math.fsum(rp_prev.part[d] * rpow[d] for d in range(N))
                res_prev.append((float(abs(_mpf(Hp) - dE)), float(abs(dE - TN + g[N] * _mpf(r) ** N))))
            fl.append(g1 * r + float(np.sum(tolv * rpow[:N + 1])))
            q = [r * rho / D for D in Dp]
            Bk.append(sum(m / D * qq ** (N + 1) / (1 - qq) for m, D, qq in zip(masses, Dp, q)) / scale)
            # dynamics
            if dV[0] != 0.0 or dV[1] != 0.0:
                st_mp = st_mp[:3] + [st_mp[3] + _mpf(r) * _mpf(dV[0]), st_mp[4] + _mpf(r) * _mpf(dV[1]), st_mp[5]]
            am = S.accel(st_mp, mu)
            got = acc @ rpow[:nacc]
            resa.append(float(max(abs(_mpf(got[c]) - am[c]) for c in range(3))))
            # what a correct expansion must leave: library's own terms of order >= N minus the exact tail
            spur = acc[:, N:] @ rpow[N:nacc] if nacc > N else np.zeros(3)
            ttail = [am[c] - mp.fsum(As[c][d] * _mpf(r) ** d for d in range(N)) for c in range(3)]
            exa.append(float(max(abs(_mpf(spur[c]) - ttail[c]) for c in range(3))))
            fla.append(float(abs(As[0][0])) + float(abs(As[1][0])) + float(abs(As[2][0])) + float(np.sum(tola * rpow[:nacc])))
        # rigorous remainder bound on every rung
        for k in range(NRUNG):
            if not res[k] <= Bk[k] + 2 * fl[k]:
                ctx.fail(tag + ":value-residual-exceeds-taylor-remainder-bound", case,
                         "|H_%d(s) - dE/scale| = %.3g at r = %.4g (rung %d) but the degree-%d Taylor remainder is at most %.3g (+ floor %.3g); residuals %s"
                         % (N, res[k], rs[k], k, N, Bk[k], 2 * fl[k], ["%.2e" % v for v in res]))
                break
        # slope on the finest usable ratios (value: >= N+1-0.5, dynamics: >= N-0.5)
        nus = _slope(ctx, case, tag + ":value-residual-slope", res, tail, fl, N + 1, "value residual |H_N - dE/scale|", rs)
        _slope(ctx, case, tag + ":acceleration-residual-slope", resa, exa, fla, N, "acceleration residual |A xddot - a_CR3BP(Phi(s))|", rs)
        usable.append((True, nus))
        # adding a degree (H_{N-1} built separately by the library) must not make it worse at moderate radius
        if rp_prev is not None:
            k = 2
            rN1, tN1 = res_prev[k]
            if tail[k] <= 1.5 * tN1 and tail[k] > 30 * fl[k]:
                ctx.classes["add-degree:checked"] += 1
                if not res[k] <= 2.0 * rN1 + 3.0 * fl[k]:
                    ctx.fail(tag + ":adding-a-degree-makes-it-worse", case,
                             "at r = r_max/4 = %.4g: residual of H_%d is %.3g, of H_%d is %.3g" % (rs[k], N, res[k], N - 1, rN1))
            else:
                ctx.classes["add-degree:guarded-out"] += 1
    return usable


def _slope(ctx, case, bucket, res, exact, floor, order, what, rs):
    """Best of the two finest log2 ratios between consecutive rungs above the floor must reach order-0.5, provided the
    oracle's exact remainder itself is asymptotic (>= order-0.25) on the same rungs.  Returns the number of usable ratios."""
    ok = [k for k in range(len(res)) if res[k] > 30.0 * floor[k] and res[k] > 0 and exact[k] > 0]
    pairs = [(k, k + 1) for k in ok if k + 1 in ok]
    kind = bucket.rsplit(":", 1)[1]
    ctx.classes["%s:ratios=%d" % (kind, min(len(pairs), 3))] += 1
    if len(pairs) < 2:
        return len(pairs)
    fin = pairs[-2:]
    got = max(math.log2(res[a] / res[b]) for a, b in fin)
    want = max(math.log2(exact[a] / exact[b]) for a, b in fin)
    if want < order - 0.25:
        ctx.classes["%s:guarded-out" % kind] += 1
        return len(pairs)
    if got < order - 0.5:
        ctx.fail(bucket, case, "%s: best of the two finest log2 ratios %.2f < %g - 0.5 (rungs %s, radii %s, residuals %s; exact remainder ratios %.2f)"
                 % (what, got, order, fin, ["%.3g" % rs[a] for a, _ in fin] + ["%.3g" % rs[fin[-1][1]]], ["%.2e" % v for v in res], want))
    return len(pairs)


# ------------------------------------------------------------------ one generated case
def eval_case(case, ctx):
    from hiten.algorithms.hamiltonian.hamiltonian import _build_physical_hamiltonian_collinear, _build_physical_hamiltonian_triangular
    from hiten.algorithms.hamiltonian.pipeline import HamiltonianPipeline
    from hiten.algorithms.polynomial.operations import _polynomial_evaluate
    mu = float(case["mu"]); idx = int(case["point"]); N = int(case["N"])
    L = "L%d" % idx
    band = "mu<1e-6" if mu < 1e-6 else "mu<1e-3" if mu < 1e-3 else "mu<routh" if mu < gen.ROUTH else "mu>=routh"
    ndir = len(case["dirs"])
    try:
        pt = _point(mu, idx)
        phi = _phi(pt, idx)
        b = phi(np.zeros(6))
        M = np.zeros((6, 6))
        for j in range(6):
            e = np.zeros(6); e[j] = 1.0
            M[:, j] = phi(e) - b
        pos = np.asarray(pt.position, float)
        gam = float(pt.dynamics.gamma) if idx <= 3 else 1.0
    except Exception as e:
        ctx.case(cls=[L, "N=%d" % N, band], n=ndir)
        ctx.fail("%s:local2synodic:raises:%s" % (L, type(e).__name__), case, str(e)[:300])
        return
    if not (np.all(np.isfinite(b)) and np.all(np.isfinite(M))):
        ctx.case(cls=[L, "N=%d" % N, band], n=ndir)
        ctx.fail("%s:local2synodic:not-finite" % L, case, "Phi(0)=%r" % b.tolist())
        return
    if float(np.max(np.abs(M[:3, 3:]))) != 0.0:
        ctx.fail("%s:local2synodic:positions-depend-on-momenta" % L, case, repr(M[:3, 3:].tolist()))
    if not float(np.max(np.abs(b[:3] - pos))) <= 1e-9:
        ctx.fail("%s:local2synodic:origin-not-at-the-point" % L, case,
                 "local origin maps to %r but %s.position = %r" % (b[:3].tolist(), L, pos.tolist()))
    # energy scale: read from the code (gamma^2 / 1), cross-checked with the measured velocity scaling
    scale = gam * gam
    if not abs(M[5, 5] ** 2 - scale) <= 16 * EPS * scale:
        ctx.fail("%s:local2synodic:velocity-scale-inconsistent-with-energy-scale" % L, case, "(dVz/dpz)^2 = %r, energy scale %r" % (M[5, 5] ** 2, scale))
    D = O.distances(b, mu)
    sig = float(np.linalg.norm(M[:3, :3], 2))
    if not (min(D) > 0 and sig > 0):
        ctx.case(cls=[L, "N=%d" % N, band], n=ndir)
        ctx.fail("%s:local2synodic:degenerate" % L, case, "distances %r, position scale %r" % (D, sig))
        return
    geo = {"mu": mu, "b": b, "M": M, "scale": scale, "D": [float(D[0]), float(D[1])], "rmax": 0.5 * min(D) / sig,
           "hess": float(np.linalg.norm(O.hess_omega(b[0], b[1], b[2], mu), 2)), "delta_eq": DELTA_EQ if idx <= 3 else 0.0}
    psi, clmo, exps = _tables(N)
    # affinity of Phi on the ladder points (ties the measured model to the real map)
    for u in case["dirs"]:
        for k in (0, NRUNG - 1):
            s = geo["rmax"] * 2.0 ** -k * np.asarray(u, float)
            got = phi(s)
            model = b + M @ s
            tol = 16 * EPS * (np.abs(b) + 1.0 + np.abs(M) @ np.abs(s))
            if not np.all(np.abs(got - model) <= tol):
                ctx.fail("%s:local2synodic:not-affine" % L, case, "Phi(s) = %r, Phi(0) + M s = %r at s = %r" % (got.tolist(), model.tolist(), s.tolist()))
                break
            # the mp energy at the affine model agrees with vf.oracle.cr3bp.energy at the library's own output (harness self-check)
            e_d = O.energy(got, mu)
            e_m = float(S.energy(S.affine(b, M, s), mu))
            if not abs(e_d - e_m) <= 256 * EPS * (O.energy_scale(got, mu) + (O.field_scale(got, mu) + O.field_cond(got, mu)) * (float(np.max(np.abs(got[:3]))) + 1.0)):
                raise HarnessError("mp energy %.17g vs vf.oracle.cr3bp.energy %.17g at %r mu=%r" % (e_m, e_d, got.tolist(), mu))
    builder = _build_physical_hamiltonian_collinear if idx <= 3 else _build_physical_hamiltonian_triangular
    routes = []
    try:
        polyB = builder(pt, N)
        routes.append(("builder", polyB, (lambda s, p=polyB: _polynomial_evaluate(p, np.asarray(s, dtype=np.float64), clmo))))
    except Exception as e:
        ctx.fail("%s:builder:raises:%s" % (L, type(e).__name__), case, str(e)[:300])
    prev_blocks = None
    if N > 2:
        try:
            prev_blocks = _real_blocks(builder(pt, N - 1), ctx, "%s:builder" % L, case)
        except Exception as e:
            ctx.fail("%s:builder:raises:%s" % (L, type(e).__name__), case, "degree %d: %s" % (N - 1, str(e)[:300]))
    try:
        Hp = HamiltonianPipeline(pt, N).get_hamiltonian("physical")
        routes.append(("pipeline", Hp.poly_H, (lambda s, h=Hp: h(np.asarray(s, dtype=np.float64)))))
    except Exception as e:
        ctx.fail("%s:pipeline:raises:%s" % (L, type(e).__name__), case, str(e)[:300])
    pub = "skipped"
    if N <= 6:
        try:
            Hq = pt.hamiltonian(N, form="physical")
            routes.append(("public", Hq.poly_H, (lambda s, h=Hq: h(np.asarray(s, dtype=np.float64)))))
            pub = "returned"
        except NotImplementedError as e:
            pub = "NotImplementedError"
            if idx <= 2:
                ctx.fail("%s:public:raises:NotImplementedError" % L, case, str(e)[:300])
        except Exception as e:
            pub = "raised"
            ctx.fail("%s:public:raises:%s" % (L, type(e).__name__), case, str(e)[:300])
    done = []
    usable = [(False, 0)] * ndir
    cls = [L, "N=%d" % N, band, "%s:public-route:%s" % ("L1/L2" if idx <= 2 else "L3/L4/L5", pub)]
    for name, poly, lib_eval in routes:
        if len(poly) != N + 1:
            ctx.fail("%s:%s:wrong-number-of-degree-blocks" % (L, name), case, "%d blocks for degree %d" % (len(poly), N))
            continue
        blocks = _real_blocks(poly, ctx, "%s:%s" % (L, name), case)
        if any(blocks[d].shape[0] != exps[d].shape[0] for d in range(N + 1)):
            ctx.fail("%s:%s:block-sizes" % (L, name), case, "block sizes %r" % [bl.shape[0] for bl in blocks])
            continue
        same = [nm for nm, bl in done if all(np.array_equal(x, y) for x, y in zip(bl, blocks))]
        if same:
            # identical coefficient arrays: only the route's own evaluator remains to be checked
            cls.append("route:%s==%s" % (name, same[0]))
            for u in case["dirs"]:
                rp = RayPoly(blocks, exps, np.asarray(u, float), derivs=False)
                for k in (0, 3):
                    r = geo["rmax"] * 2.0 ** -k
                    s = r * np.asarray(u, float)
                    Hown = math.fsum(rp.part[d] * r ** d for d in range(N + 1))
                    Habs = float(sum(rp.part_abs[d] * r ** d for d in range(N + 1)))
                    try:
                        Hlib = complex(lib_eval(s))
                    except Exception as e:
                        ctx.fail("%s:%s:library-evaluation-raises:%s" % (L, name, type(e).__name__), case, str(e)[:300])
                        break
                    if not (abs(Hlib.imag) <= 16 * (N + 8) * EPS * Habs and abs(Hlib.real - Hown) <= 16 * (N + 8) * EPS * Habs):
                        ctx.fail("%s:%s:library-evaluation-disagrees-with-coefficients" % (L, name), case,
                                 "library evaluates H_%d(s) = %r, the returned coefficient arrays give %.17g at s = %r" % (N, Hlib, Hown, s.tolist()))
            continue
        cls.append("route:%s:checked" % name)
        us = check_route(ctx, case, L, name, blocks, exps, geo, lib_eval, prev_blocks)
        usable = [(a[0] or b_[0], max(a[1], b_[1])) for a, b_ in zip(usable, us)]
        done.append((name, blocks))
    suite = _suite_mu(mu)
    for u, (reached, nus) in zip(case["dirs"], usable):
        generic = min(abs(x) for x in u) > 0.1
        nt = None
        if N >= 4 and not suite and generic and reached:
            nt = ("%.5e" % mu, idx, N, tuple(round(x, 3) for x in u))
        ctx.case(nontrivial=nt, cls=cls + ["direction:%s" % ("generic" if generic else "near-a-coordinate-plane")],
                 sample={"mu": mu, "point": idx, "N": N, "u": u, "usable_ratios": nus} if ctx.evaluations % 211 == 0 else None)


def run(ctx):
    try:
        O.selftest()
        S.selftest()
    except AssertionError as e:
        raise HarnessError("oracle self-test failed: %r" % (e,))
    shard_replays(ctx, replay)
    nmax = ctx.scale(8, 10)
    explore(ctx, "ham", ham_case(nmax), eval_case, ctx.share(ctx.scale(240, 12000)), shrink_calls=ctx.scale(8, 60))


def replay(ctx, payload):
    eval_case(payload, ctx)
