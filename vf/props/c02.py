"""C02 — integrators deliver their declared order and requested tolerance.

Layer 1 (exhaustive): Butcher probe forest (all 200 rooted trees of order <= 8,
autonomous and time-leaf variants) pushed through the REAL stepping code
(RungeKutta(order).integrate, rk_embedded/rk45/dop853 step kernels, the CM map's
table selector) -> elementary weights must equal 1/gamma(tree) up to the declared order.
Layer 2: dense output of RK45 / DOP853 on the forest must reproduce theta^n/gamma.
Layer 3: generated ODEs (non-linear, non-autonomous; polynomial Hamiltonian systems
through the *_ham fast path) through the whole integrate path: observed order from
step halving (fixed), error vs tolerance and its decrease (adaptive), grid/first-sample identities.
"""
from __future__ import annotations

import logging
import math

import numpy as np
from hypothesis import strategies as st

from .. import hamtools
from ..hyp import explore
from ..oracle import rktrees as RT
from ..runner import HarnessError

PROPERTY = "C02"
LEVEL = "exploration"
SHARDS = {"quick": 6, "thorough": 16}
RULE = ("layer 1/2: every rooted tree of order <= 8 (200 trees, exhaustive) x {autonomous, time-leaf} x every stepping entry point; "
        "non-trivial = tree of order >= 3. layer 3: generated ODE instances (quadratic non-autonomous vector fields in R^3 with parameters carried "
        "as constant state components; polynomial Hamiltonians) x integrator x grid; non-trivial = non-linear or non-autonomous instance whose "
        "coarsest-resolution error is above the rounding floor; distinct by (tree, entry point) resp. full instance")
ASSUMPTIONS = [
    "fixed-step order: the better of the two finest pairwise log2 error ratios over step halvings (or, when they are still rising and the finest is within 1 of p, their linear extrapolation to h->0) >= p - 0.5 (p - 0.75 when only two ratios are usable), using only resolutions with >= 8 steps, h*Lam <= 1 (Lam = Lipschitz/frequency estimate) and errors in [1e-11, 1e-2]*scale; fewer than 2 ratios => counted trivial, never failed",
    "adaptive accuracy (at tol and tol/100; when the error at tol is >= the tolerance itself it must also drop >= 1.5x at tol/100): error at every requested time <= 60*max(1, r_scipy)*(rtol*|y|+atol) (calibration: largest observed value of err/(tol*max(1,r_scipy)) over 3100 thorough cases was 16) (the RMS error norm is diluted ~3.6x by the 35 constant parameter components of the template) where r_scipy is SciPy's own error ratio for the same method family on the same instance, instances with ||J||*T <= 6",
    "reference solutions: SciPy DOP853 at rtol=atol=1e-13 on an independently written NumPy field",
]

logging.disable(logging.CRITICAL)

PARENT, ROOTS = RT.forest(8)
NV = int(PARENT.size)
_nchild = np.zeros(NV, dtype=np.int64)
for _v in range(NV):
    if PARENT[_v] >= 0:
        _nchild[PARENT[_v]] += 1
PARENT_T = PARENT.copy()
TPOW = np.zeros(NV, dtype=np.int64)
for _v in range(NV):
    if PARENT[_v] >= 0 and _nchild[_v] == 0:      # non-root leaf -> replaced by a factor t in its parent
        PARENT_T[_v] = -2
        TPOW[PARENT[_v]] += 1


def forest_rhs(t, y):
    out = np.ones(NV)
    for v in range(NV):
        p = PARENT[v]
        if p >= 0:
            out[p] *= y[v]
    return out


def forest_t_rhs(t, y):
    out = np.empty(NV)
    for v in range(NV):
        if PARENT_T[v] == -2:
            out[v] = 0.0
        else:
            out[v] = t ** TPOW[v]
    for v in range(NV):
        p = PARENT_T[v]
        if p >= 0:
            out[p] *= y[v]
    return out


# ---- layer-3 template: quadratic non-autonomous field in R^3, parameters in y[3:38]
NS = 3
NPAR = 9 + 18 + 3 + 3 + 1
DIM3 = NS + NPAR


def tmpl_rhs(t, y):
    out = np.zeros(DIM3)
    w = y[36]
    for i in range(3):
        acc = 0.0
        for j in range(3):
            acc += y[3 + 3 * i + j] * y[j]
        q = 12 + 6 * i
        acc += y[q] * y[0] * y[0] + y[q + 1] * y[0] * y[1] + y[q + 2] * y[0] * y[2]
        acc += y[q + 3] * y[1] * y[1] + y[q + 4] * y[1] * y[2] + y[q + 5] * y[2] * y[2]
        acc += y[30 + i] * np.cos(w * t) + y[33 + i] * np.sin(w * t) * y[i]
        out[i] = acc
    return out


def tmpl_np(t, x, par):
    """Independent NumPy version of the same field (reference)."""
    A = par[0:9].reshape(3, 3)
    Q = par[9:27].reshape(3, 6)
    F = par[27:30]; G = par[30:33]; w = par[33]
    mon = np.array([x[0] * x[0], x[0] * x[1], x[0] * x[2], x[1] * x[1], x[1] * x[2], x[2] * x[2]])
    return A @ x + Q @ mon + F * math.cos(w * t) + G * math.sin(w * t) * x


# ---- second layer-3 template: a narrow forcing pulse (the step controller MUST reject steps that straddle its edges)
def pulse_rhs(t, y):
    out = np.zeros(5)
    u = (t - y[2]) / y[3]
    out[0] = -y[4] * y[0] + y[1] * np.exp(-u * u)
    return out


def pulse_np(t, x, a, t0, w, k):
    u = (t - t0) / w
    return np.array([-k * x[0] + a * math.exp(-u * u)])


_sys = {}


def systems():
    if not _sys:
        from hiten.algorithms.dynamics.rhs import create_rhs_system
        _sys["forest"] = create_rhs_system(forest_rhs, NV, name="probe-forest")
        _sys["forest_t"] = create_rhs_system(forest_t_rhs, NV, name="probe-forest-t")
        _sys["tmpl"] = create_rhs_system(tmpl_rhs, DIM3, name="quad-template")
        _sys["pulse"] = create_rhs_system(pulse_rhs, 5, name="pulse-template")
    return _sys


# ------------------------------------------------------------------ layer 1 + 2
def _check_weights(ctx, entry, variant, vals, h, upto, label=""):
    """vals: root-component values after one step of size h from 0."""
    for (t, r, n, g) in ROOTS:
        if n > upto:
            continue
        phi = vals[r] / h ** n
        want = 1.0 / g
        ctx.case(nontrivial=(entry, variant, r, label) if n >= 3 else None, cls="trees:%s" % entry)
        # absolute tolerance on the returned value: tableau / dense-matrix entries are O(1..1e3),
        # all quantities are O(1) for h <= 1, so rounding is <= ~1e-14; a wrong coefficient shows at >= 1e-6
        if not abs(vals[r] - want * h ** n) <= 2e-13:
            ctx.fail("order-condition:%s:order-%d%s" % (entry, n, ":" + variant if variant != "auto" else ""),
                     {"entry": entry, "variant": variant, "tree": repr(t), "order": n, "h": h},
                     "tree %r (order %d): elementary weight %.17g, required 1/gamma = %.17g" % (t, n, phi, want))


def layer12(ctx, thetas):
    from hiten.algorithms.integrators import rk as RK
    from hiten.algorithms.integrators.coefficients import dop853 as D8, rk45 as R45
    S = systems()
    y0 = np.zeros(NV)
    for variant, key in (("auto", "forest"), ("t-leaf", "forest_t")):
        sysm = S[key]
        f = sysm.rhs
        for h in (1.0, 0.5):
            # fixed-step factories through the public integrate path
            for p in (4, 6, 8):
                for fac in ("RungeKutta", "FixedRK"):
                    integ = getattr(RK, fac)(order=p)
                    sol = integ.integrate(sysm, y0.copy(), np.array([0.0, h]))
                    if not np.array_equal(sol.states[0], y0):
                        ctx.fail("first-sample-not-y0:%s%d" % (fac, p), {"entry": fac, "p": p}, "states[0] != y0")
                    _check_weights(ctx, "%s(order=%d).integrate" % (fac, p), variant, sol.states[-1], h, p)
                    if abs(integ.order - p) > 0:
                        ctx.fail("declared-order-mismatch:%s%d" % (fac, p), {"p": p}, "integrator.order=%r" % (integ.order,))
            # raw kernels
            for p, cls in ((4, RK._RK4), (6, RK._RK6), (8, RK._RK8)):
                o = cls()
                yh, yl, ev = RK.rk_embedded_step_jit_kernel(f, 0.0, y0.copy(), h, o._A, o._B_HIGH, np.empty(0), o._C, False)
                _check_weights(ctx, "rk_embedded_step_jit_kernel[_RK%d]" % p, variant, yh, h, p)
            yh, yl, ev, k = RK.rk45_step_jit_kernel(f, 0.0, y0.copy(), h, RK._RK45._A, RK._RK45._B_HIGH, RK._RK45._C, RK._RK45._E)
            _check_weights(ctx, "rk45_step_jit_kernel:y_high", variant, yh, h, 5)
            _check_weights(ctx, "rk45_step_jit_kernel:y_low", variant, yl, h, 4)
            # dense output RK45 (declared 4th order continuous extension)
            Qc = RK._rk45_build_Q_cache(k[:R45.P.shape[0]], R45.P, NV)
            for th in [0.0, 1.0] + thetas:
                yd = RK._rk45_eval_dense(y0.copy(), Qc, R45.P, th, h)
                if th == 1.0:
                    if not np.max(np.abs(yd - yh)) <= 1e-13:
                        ctx.fail("dense-endpoint:rk45:theta=1", {"variant": variant}, "dense(1) != y_high, max diff %.3g" % np.max(np.abs(yd - yh)))
                elif th == 0.0:
                    if not np.max(np.abs(yd - y0)) == 0.0:
                        ctx.fail("dense-endpoint:rk45:theta=0", {"variant": variant}, "dense(0) != y_old")
                else:
                    _check_weights(ctx, "rk45_dense", variant, yd, th * h, 4, label="%.6f" % th)
            o8 = RK._DOP853
            yh, yl, ev, e5, e3, k8 = RK.dop853_step_jit_kernel(f, 0.0, y0.copy(), h, o8._A, o8._B_HIGH, o8._C, o8._E5, o8._E3)
            _check_weights(ctx, "dop853_step_jit_kernel:y_high", variant, yh, h, 8)
            _check_weights(ctx, "dop853_step_jit_kernel:y_high-err5", variant, yh - e5, h, 5)
            _check_weights(ctx, "dop853_step_jit_kernel:y_high-err3", variant, yh - e3, h, 3)
            f_old = f(0.0, y0.copy()); f_new = f(h, yh)
            Fc = RK._dop853_build_dense_cache(f, 0.0, y0.copy(), f_old, yh, f_new, h, k8, D8.A, D8.C, D8.D,
                                              D8.N_STAGES_EXTENDED, D8.INTERPOLATOR_POWER)
            for th in [0.0, 1.0] + thetas:
                yd = RK._dop853_eval_dense(y0.copy(), Fc, D8.INTERPOLATOR_POWER, th)
                if th == 1.0:
                    if not np.max(np.abs(yd - yh)) <= 1e-13:
                        ctx.fail("dense-endpoint:dop853:theta=1", {"variant": variant}, "dense(1) != y_high, max diff %.3g" % np.max(np.abs(yd - yh)))
                elif th == 0.0:
                    if not np.max(np.abs(yd - y0)) == 0.0:
                        ctx.fail("dense-endpoint:dop853:theta=0", {"variant": variant}, "dense(0) != y_old")
                else:
                    _check_weights(ctx, "dop853_dense", variant, yd, th * h, 7, label="%.6f" % th)
    # second consumer of the fixed-step tables: the centre-manifold map's private stepper
    from hiten.algorithms.poincare.centermanifold import backend as CMB
    for p in (4, 6, 8):
        A, B, C = CMB._get_rk_coefficients(p)
        for n in range(1, p + 1):
            for t in RT.trees(n):
                w = RT.elementary_weight(t, A, B)
                ctx.case(nontrivial=("cm-table", p, repr(t)) if n >= 3 else None, cls="trees:cm-table")
                if not abs(w - 1.0 / RT.gamma(t)) <= 1e-13 * max(1.0, RT.weight_scale(t, A, B)):
                    ctx.fail("order-condition:cm-map-table:order-%d-of-%d" % (n, p), {"p": p, "tree": repr(t)},
                             "CM map RK table for order %d: tree %r weight %.17g vs %.17g" % (p, t, w, 1.0 / RT.gamma(t)))
        if not np.allclose(A.sum(axis=1), C, atol=1e-15):
            ctx.fail("row-sum:cm-map-table:%d" % p, {"p": p}, "c_i != sum_j a_ij")
    ctx.extra["trees"] = len(ROOTS)
    ctx.extra["forest_dim"] = NV
    ctx.extra["tree_layer_exhaustive"] = True


# ------------------------------------------------------------------ layer 3
@st.composite
def ode_case(draw):
    kind = draw(st.sampled_from(["linear-forced", "quadratic", "quadratic-forced", "quadratic-forced"]))
    # mostly rotational linear part (bounded growth over the span) + small symmetric part
    a, b, c = [draw(st.floats(-2.0, 2.0)) for _ in range(3)]
    d = [draw(st.floats(0.0, 0.3)) for _ in range(3)]
    sy = [draw(st.floats(-0.2, 0.2)) for _ in range(3)]
    A = [-d[0], a + sy[0], b + sy[1], -a + sy[0], -d[1], c + sy[2], -b + sy[1], -c + sy[2], -d[2]]
    Q = [0.0] * 18; F = [0.0] * 3; G = [0.0] * 3
    if kind != "linear-forced":
        Q = [draw(st.floats(-0.3, 0.3)) for _ in range(18)]
    if kind != "quadratic":
        F = [draw(st.floats(-1.0, 1.0)) for _ in range(3)]
        G = [draw(st.floats(-1.0, 1.0)) for _ in range(3)]
    w = draw(st.floats(0.5, 3.0))
    x0 = [draw(st.floats(-0.5, 0.5)) for _ in range(3)]
    method = draw(st.sampled_from([("fixed", 4), ("fixed", 6), ("fixed", 8), ("adaptive", 5), ("adaptive", 8)]))
    # longer spans for higher fixed orders so that >= 3 resolutions with >= 8 steps stay above the rounding floor
    T = draw(st.floats(1.0, 3.0)) * ({4: 1.0, 6: 1.5, 8: 2.5}[method[1]] if method[0] == "fixed" else 1.0)
    tol = draw(st.sampled_from([1e-6, 1e-8, 1e-10]))
    atol = draw(st.sampled_from([tol, tol, tol * 1e-2, tol * 1e2]))
    grid = draw(st.sampled_from(["uniform", "nonuniform"]))
    npts = draw(st.integers(3, 40))
    gs = draw(st.integers(0, 2 ** 31))
    return {"kind": kind, "par": A + Q + F + G + [w], "x0": x0, "T": T, "method": method[0], "order": method[1],
            "tol": tol, "atol": atol, "grid": grid, "npts": npts, "gs": gs}


def _grid(case):
    T = case["T"]; n = case["npts"]
    if case["grid"] == "uniform":
        return np.linspace(0.0, T, n)
    rng = np.random.default_rng(case["gs"])
    inc = rng.uniform(0.2, 1.0, size=n - 1)
    t = np.concatenate([[0.0], np.cumsum(inc)])
    t = t * (T / t[-1])
    t[-1] = T
    return t


def _ref(case, t_eval):
    from scipy.integrate import solve_ivp
    par = np.array(case["par"], float)
    sol = solve_ivp(lambda t, x: tmpl_np(t, x, par), (0.0, float(t_eval[-1])), np.array(case["x0"], float), method="DOP853",
                    rtol=1e-13, atol=1e-13, t_eval=t_eval)
    return sol.y.T if sol.success else None


def _observed_order(ratios, p):
    """Observed order from successive log2 error ratios: the better of the two finest ratios and, when they are
    still rising towards the asymptote (pre-asymptotic regime: the ratio error is ~ proportional to h), their
    linear extrapolation to h -> 0, 2*r_last - r_prev -- used only if the finest ratio is already within 1 of p."""
    r_last, r_prev = float(ratios[-1]), float(ratios[-2])
    best = max(r_last, r_prev)
    if r_last > r_prev and r_last >= p - 1.0:
        best = max(best, 2 * r_last - r_prev)
    return best


def eval_ode(case, ctx):
    from hiten.algorithms.integrators.rk import AdaptiveRK, RungeKutta
    from scipy.integrate import solve_ivp
    sysm = systems()["tmpl"]
    par = np.array(case["par"], float)
    y0 = np.concatenate([np.array(case["x0"], float), par])
    T = case["T"]
    p = case["order"]
    nonlin = case["kind"] != "linear-forced"
    if case["method"] == "fixed":
        # observed order from step halving on uniform grids with N, 2N, 4N, ... steps.  An instance that is
        # "too easy" (error at 8 steps already tiny) reaches the rounding floor while still pre-asymptotic, so the
        # span is doubled until the 8-step error is >= 1e-4*scale (or 8x the drawn span).
        integ0 = RungeKutta(order=p)
        ref = None
        for mult in (1.0, 2.0, 4.0, 8.0):
            Tm = case["T"] * mult
            r = _ref(dict(case, T=Tm), np.array([0.0, Tm]))
            if r is None or not np.all(np.isfinite(r)) or np.max(np.abs(r)) > 50:
                break
            T = Tm; ref = r
            s8 = integ0.integrate(sysm, y0.copy(), np.linspace(0.0, T, 9))
            e8 = float(np.max(np.abs(s8.states[-1][:3] - ref[-1])))
            if not np.isfinite(e8) or e8 >= 1e-4 * max(1.0, float(np.max(np.abs(ref[-1])))):
                break
        if ref is None:
            ctx.case(cls="ode:reference-unusable")
            return
        scale = max(1.0, float(np.max(np.abs(ref[-1]))))
        # rounding / reference floor: the 1e-13 reference loses accuracy linearly with the (possibly extended) span
        floor_o = 1e-11 * scale * max(1.0, T / 3.0)
        integ = RungeKutta(order=p)
        errs = []
        N = 2
        while N <= 2048 and len(errs) < 7:
            tv = np.linspace(0.0, T, N + 1)
            sol = integ.integrate(sysm, y0.copy(), tv)
            if N == 2:
                if not np.array_equal(sol.states[0], y0):
                    ctx.fail("first-sample-not-y0:fixed%d" % p, case, "states[0] != y0")
                if not np.array_equal(np.asarray(sol.times), tv):
                    ctx.fail("times-not-requested-grid:fixed%d" % p, case, "returned times differ from t_vals")
            e = float(np.max(np.abs(sol.states[-1][:3] - ref[-1])))
            if not np.isfinite(e):
                e = float("inf")
            if e <= 1e-2 * scale:
                errs.append((N, e))
            if e < floor_o:
                break
            N *= 2
        # asymptotic regime only: h * Lam <= 1 with Lam a Lipschitz / frequency estimate of the instance (the span
        # extension above can make even 64 steps coarse)
        A_ = par[0:9].reshape(3, 3)
        Lam = max(float(np.linalg.norm(A_, 2)) + 2 * float(np.linalg.norm(par[9:27])) * scale + float(np.max(np.abs(par[30:33]))), float(par[33]))
        good = [(N, e) for N, e in errs if e >= 3 * floor_o and N >= 8 and (T / N) * Lam <= 1.0]
        ratios = [math.log2(good[i][1] / good[i + 1][1]) for i in range(len(good) - 1) if good[i + 1][0] == 2 * good[i][0]]
        nt = ("ode", repr(case)) if len(ratios) >= 2 else None
        ctx.case(nontrivial=nt, cls=["ode:fixed%d" % p, "ode:" + case["kind"], "ode:ratios=%d" % min(len(ratios), 3)],
                 sample={"case": case, "errors": good, "log2_ratios": ratios} if nt and ctx.evaluations % 9 == 0 else None)
        if len(ratios) >= 2:
            med = _observed_order(ratios, p)
            # with only two ratios the data are the coarsest usable ones (the finer halvings fell under the floor): the
            # high-order schemes approach their asymptotic order slowly there, so 0.75 instead of 0.5 is allowed
            if med < p - (0.5 if len(ratios) >= 3 else 0.75):
                ctx.fail("observed-order-below-declared:fixed%d" % p, case,
                         "declared order %d, best of the two finest log2 error ratios %.2f from errors %s" % (p, med, ["%d:%.2e" % ne for ne in good]))
        return
    # adaptive
    tv = _grid(case)
    ref = _ref(case, tv)
    if ref is None or not np.all(np.isfinite(ref)) or np.max(np.abs(ref)) > 50:
        ctx.case(cls="ode:reference-unusable")
        return
    tol = case["tol"]
    at0 = case.get("atol", tol)
    fam = "RK45" if p == 5 else "DOP853"
    ssol = solve_ivp(lambda t, x: tmpl_np(t, x, par), (0.0, T), np.array(case["x0"], float), method=fam, rtol=tol, atol=at0, t_eval=tv)
    bound = tol * np.abs(ref) + at0
    r_scipy = float(np.max(np.abs(ssol.y.T - ref) / bound)) if ssol.success else 1.0
    res = {}
    for tt in (tol, tol * 1e-2):
        integ = AdaptiveRK(order=p, rtol=tt, atol=at0 * (tt / tol))
        sol = integ.integrate(sysm, y0.copy(), tv)
        X = np.asarray(sol.states)[:, :3]
        if tt == tol:
            if not np.array_equal(np.asarray(sol.states)[0], y0):
                ctx.fail("first-sample-not-y0:adaptive%d" % p, case, "states[0] != y0")
            if not np.array_equal(np.asarray(sol.times), tv):
                ctx.fail("times-not-requested-grid:adaptive%d" % p, case, "returned times differ from t_vals")
        res[tt] = np.abs(X - ref)
    ratio = float(np.max(res[tol] / bound))
    emax1 = float(np.max(res[tol])); emax2 = float(np.max(res[tol * 1e-2]))
    floor = 1e-12 * max(1.0, float(np.max(np.abs(ref))))
    nt = ("ode", repr(case)) if emax1 > floor else None
    rb = "ode:err/tol<1" if ratio < 1 else ("ode:err/tol<10" if ratio < 10 else ("ode:err/tol<30" if ratio < 30 else "ode:err/tol>=30"))
    ctx.case(nontrivial=nt, cls=["ode:adaptive%d" % p, "ode:" + case["kind"], "ode:grid-" + case["grid"], rb, rb + ":scipy>=10" if r_scipy >= 10 else rb + ":scipy<10"],
             sample={"case": case, "err/tol": ratio, "scipy err/tol": r_scipy, "err(tol)": emax1, "err(tol/100)": emax2} if nt and ctx.evaluations % 9 == 0 else None)
    K = 60.0 * max(1.0, r_scipy)
    ctx.extra.setdefault("adaptive_err_over_tol_max_per_shard", [0.0])
    ctx.extra["adaptive_err_over_tol_max_per_shard"][0] = max(ctx.extra["adaptive_err_over_tol_max_per_shard"][0], ratio / max(1.0, r_scipy))
    ratio2 = float(np.max(res[tol * 1e-2] / (tol * 1e-2 * np.abs(ref) + at0 * 1e-2)))
    if emax2 > 1e3 * floor and not ratio2 <= K:
        ctx.fail("error-exceeds-tolerance-multiple:adaptive%d" % p, case,
                 "max error/(rtol|y|+atol) = %.3g at tol=%g (allowed %.3g)" % (ratio2, tol * 1e-2, K))
    if not ratio <= K:
        ctx.fail("error-exceeds-tolerance-multiple:adaptive%d" % p, case,
                 "max error/(rtol|y|+atol) = %.3g at tol=%g (SciPy %s: %.3g; allowed %.3g)" % (ratio, tol, fam, r_scipy, K))
    elif ratio >= 1.0 and emax1 > 1e3 * floor and not emax2 <= max(emax1 / 1.5, 10 * floor):
        ctx.fail("error-does-not-shrink-with-tolerance:adaptive%d" % p, case,
                 "error %.3g at tol=%g but %.3g at tol=%g" % (emax1, tol, emax2, tol * 1e-2))


@st.composite
def pulse_case(draw):
    return {"a": draw(st.floats(0.5, 2.0)), "t0": draw(st.floats(0.4, 1.2)), "w": draw(st.floats(0.01, 0.1)), "k": draw(st.floats(0.0, 1.0)),
            # magnitudes whose squares underflow are outside the domain (mapped to exactly 0, not filtered)
            "x0": (lambda v: 0.0 if abs(v) < 1e-100 else v)(draw(st.floats(-1.0, 1.0))),
            "order": draw(st.sampled_from([5, 8])), "tol": draw(st.sampled_from([1e-7, 1e-9, 1e-10]))}


def eval_pulse(case, ctx):
    """Step rejection: with max_step = pulse width the pulse is always sampled; steps straddling its edges have error
    estimates far above 1 and must be rejected, otherwise the output error exceeds the tolerance by orders of magnitude."""
    from hiten.algorithms.integrators.rk import AdaptiveRK
    from scipy.integrate import solve_ivp
    a, t0, w, k = case["a"], case["t0"], case["w"], case["k"]
    T = 1.6
    tv = np.linspace(0.0, T, 33)
    f = lambda t, x: pulse_np(t, x, a, t0, w, k)
    ref = solve_ivp(f, (0.0, T), [case["x0"]], method="DOP853", rtol=1e-13, atol=1e-13, max_step=w / 4, t_eval=tv)
    if not ref.success:
        ctx.case(cls="pulse:reference-failed"); return
    tol = case["tol"]; p = case["order"]
    fam = "RK45" if p == 5 else "DOP853"
    ms = w / 2.0     # the pulse is resolved by construction: the embedded error estimate is then reliable
    sc = solve_ivp(f, (0.0, T), [case["x0"]], method=fam, rtol=tol, atol=tol, max_step=ms, t_eval=tv)
    bound = tol * np.abs(ref.y[0]) + tol
    r_scipy = float(np.max(np.abs(sc.y[0] - ref.y[0]) / bound)) if sc.success else 1.0
    y0 = np.array([case["x0"], a, t0, w, k], float)
    try:
        sol = AdaptiveRK(order=p, rtol=tol, atol=tol, max_step=ms).integrate(systems()["pulse"], y0, tv)
    except Exception as e:
        # a smooth, well-posed problem (system at rest, forcing still negligible at the start) must be integrated
        ctx.case(cls="pulse:raised:%s" % type(e).__name__)
        ctx.fail("adaptive-integrator-raises:adaptive%d:%s:quiescent-start" % (p, type(e).__name__), case,
                 "AdaptiveRK(order=%d).integrate raised %s: %s on y' = -k y + a exp(-((t-t0)/w)^2), y(0)=%r" % (p, type(e).__name__, str(e)[:100], case["x0"]))
        return
    err = np.abs(np.asarray(sol.states)[:, 0] - ref.y[0])
    # judged only AFTER the pulse (t >= t0 + 5w): inside it the requested times fall into steps of the size of the
    # pulse and the (uncontrolled, 4th/7th-order) dense output dominates -- SciPy's identical interpolant shows the same
    # errors for the same steps; what this clause is after is the error committed by the accepted steps, which persists
    after = tv >= min(t0 + 5 * w, tv[-1])
    ratio = float(np.max((err / bound)[after]))
    r_scipy = float(np.max((np.abs(sc.y[0] - ref.y[0]) / bound)[after])) if sc.success else 1.0
    ctx.extra.setdefault("pulse_err_over_tol_max_per_shard", [0.0])
    ctx.extra["pulse_err_over_tol_max_per_shard"][0] = max(ctx.extra["pulse_err_over_tol_max_per_shard"][0], ratio / max(1.0, r_scipy))
    ctx.case(nontrivial=("pulse", repr(case)), cls=["pulse:adaptive%d" % p, "pulse:err/tol<10" if ratio < 10 else "pulse:err/tol>=10"],
             sample={"case": case, "err/tol": ratio, "scipy err/tol": r_scipy} if ctx.evaluations % 15 == 0 else None)
    # RMS over 5 components of which 4 are constant parameters dilutes the norm by sqrt(5)
    K = 20.0 * max(1.0, r_scipy)     # calibration: largest observed ratio/max(1, r_scipy) on the unchanged tree was 0.72
    if not ratio <= K:
        ctx.fail("error-exceeds-tolerance-multiple:adaptive%d:pulse" % p, case,
                 "narrow forcing pulse (width %.3g, max_step = width/2): max error/(rtol|y|+atol) = %.3g at tol=%g (SciPy %s with the same max_step: %.3g; allowed %.3g)" % (w, ratio, tol, fam, r_scipy, K))


# ---- polynomial Hamiltonian systems through the *_ham fast path
@st.composite
def ham_case(draw):
    H = draw(hamtools.polyham(maxdeg=4, eps_max=0.3))
    x0 = [draw(st.floats(-0.4, 0.4)) for _ in range(6)]
    method = draw(st.sampled_from([("fixed", 4), ("fixed", 6), ("fixed", 8), ("adaptive", 5), ("adaptive", 8)]))
    T = draw(st.floats(1.0, 3.0)) * ({4: 1.0, 6: 1.5, 8: 3.0}[method[1]] if method[0] == "fixed" else 1.0)
    amp = draw(st.sampled_from([1.0, 1.0, 1e-2, 1e-3]))
    tol = draw(st.sampled_from([1e-7, 1e-9]))
    return {"H": H, "x0": [v * amp for v in x0], "T": T, "method": method[0], "order": method[1],
            "tol": tol, "atol": draw(st.sampled_from([tol, tol * 1e-3, tol * 1e-2, tol * 1e2]))}


_hs = {}


def eval_ham(case, ctx):
    from hiten.algorithms.integrators.rk import AdaptiveRK, RungeKutta
    key = repr(case["H"]["terms"])
    if key not in _hs:
        _hs.clear()
        _hs[key] = hamtools.make_hamsys(case["H"]["terms"], case["H"]["maxdeg"])
    hs = _hs[key]
    KC = hamtools.compile_terms(case["H"]["terms"])
    x0 = np.array(case["x0"], float); T = case["T"]; p = case["order"]
    ref = hamtools.ref_flow(KC, x0, [0.0, T])[-1]
    scale = max(1.0, float(np.max(np.abs(ref))))
    if case["method"] == "fixed":
        integ = RungeKutta(order=p)
        for mult in (2.0, 4.0, 8.0):
            s8 = integ.integrate(hs, x0.copy(), np.linspace(0.0, T, 9))
            e8 = float(np.max(np.abs(s8.states[-1] - ref)))
            if not np.isfinite(e8) or e8 >= 1e-4 * scale:
                break
            T = case["T"] * mult
            ref = hamtools.ref_flow(KC, x0, [0.0, T])[-1]
            scale = max(1.0, float(np.max(np.abs(ref))))
        good = []
        N = 2
        while N <= 1024:
            sol = integ.integrate(hs, x0.copy(), np.linspace(0.0, T, N + 1))
            e = float(np.max(np.abs(sol.states[-1] - ref)))
            if e <= 1e-2 * scale and e >= 1e-11 * scale and N >= 8:
                good.append((N, e))
            if e < 1e-11 * scale:
                break
            N *= 2
        ratios = [math.log2(good[i][1] / good[i + 1][1]) for i in range(len(good) - 1) if good[i + 1][0] == 2 * good[i][0]]
        nt = ("ham", repr(case)) if len(ratios) >= 2 else None
        ctx.case(nontrivial=nt, cls=["ham:fixed%d" % p, "ham:nonsep" if case["H"]["nonsep"] else "ham:sep"])
        if len(ratios) >= 2 and _observed_order(ratios, p) < p - (0.5 if len(ratios) >= 3 else 0.75):
            ctx.fail("observed-order-below-declared:hamiltonian-fixed%d" % p, case,
                     "declared order %d, best of the two finest log2 ratios %.2f, errors %s" % (p, _observed_order(ratios, p), ["%d:%.2e" % ne for ne in good]))
    else:
        tol = case["tol"]; atol = case.get("atol", tol)
        tv = np.linspace(0.0, T, 7)
        refs = hamtools.ref_flow(KC, x0, tv)
        sol = AdaptiveRK(order=p, rtol=tol, atol=atol).integrate(hs, x0.copy(), tv)
        err = np.abs(np.asarray(sol.states) - refs)
        # mixed error control: the norm is an RMS over components of err/(atol + rtol*|y|); judge it the same way
        ratio = float(np.max(np.sqrt(np.mean((err / (tol * np.abs(refs) + atol)) ** 2, axis=1))))
        ctx.case(nontrivial=("ham", repr(case)), cls=["ham:adaptive%d" % p, "ham:nonsep" if case["H"]["nonsep"] else "ham:sep"])
        if not ratio <= 200.0:
            ctx.fail("error-exceeds-tolerance-multiple:hamiltonian-adaptive%d" % p, case, "RMS error/(rtol|y|+atol) = %.3g at rtol=%g atol=%g" % (ratio, tol, atol))


def run(ctx):
    try:
        RT.selftest()
    except AssertionError as e:
        raise HarnessError("rooted-tree oracle self-test failed: %r" % (e,))
    if ctx.shard == 0:
        thetas = [0.5, 0.25, 0.8125, 0.1, 0.97]
        layer12(ctx, thetas)
        return
    n3 = ctx.scale(400, 8000)
    nh = ctx.scale(40, 800)
    w = ctx.nshards - 1
    sh = ctx.shard - 1
    explore(ctx, "ode", ode_case(), eval_ode, (n3 // w) + (1 if sh < n3 % w else 0), shrink=False)
    explore(ctx, "ham", ham_case(), eval_ham, (nh // w) + (1 if sh < nh % w else 0), shrink=False)
    npulse = ctx.scale(100, 2000)
    explore(ctx, "pulse", pulse_case(), eval_pulse, (npulse // w) + (1 if sh < npulse % w else 0), shrink=False)


def replay(ctx, payload):
    if "H" in payload:
        eval_ham(payload, ctx)
    elif "par" in payload:
        eval_ode(payload, ctx)
    elif "t0" in payload and "w" in payload:
        eval_pulse(payload, ctx)
    else:
        layer12(ctx, [0.5, 0.3])
