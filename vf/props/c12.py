"""C12 — invariant-manifold seeds lie on the true stable/unstable Floquet directions of the orbit.

Path under test: `orbit.manifold(stable=, direction=).compute(step, integration_fraction, displacement, dt, method,
order, energy_tol)` -> `manifold.trajectories[i].states[0]`, `.times`, `.states` on differentially corrected
Earth-Moon / Sun-Earth / generic-mu L1/L2 halo and planar Lyapunov orbits.

Oracle (vf.oracle.c12_floquet on top of the SymPy/SciPy reference model vf.oracle.cr3bp; it never sees the library's
STM history, its eigen-decomposition or its sampling grid): for a seed s
  1. candidates t* = local minimisers of |x(t) - s| on the oracle's own dense orbit x(t) = phi_t(x0), t in [-T, T]
     (the corrected orbit closes only up to ~1e-10, so t and t -+ T are distinct, equally legitimate orbit points;
     the statement is existential in the orbit point, so a seed passes when ANY candidate satisfies the direction
     and the magnitude requirement of item 4 jointly; the closure drift between t and t -+ T lies mostly along the
     expanding direction, i.e. along v itself: invisible to the direction test, visible in beta);
  2. at x(t*) the exact monodromy is integrated over one period starting from that point (backward for the stable
     direction, forward for the unstable one) and its dominant eigenvector is the Floquet direction v;
  3. s - x(t) = alpha f + beta v (least squares), t <- t + alpha, repeated with everything recomputed at the new
     point: removes the phase ambiguity of "closest point" (moving the base point by dt changes the seed by dt*f);
  4. asserted: sine of the angle between s - x(t) and span{f, v} <= tol;  |beta| |v[0:3]| = displacement (1 +- tol/
     sigma_min) (library normalisation: eigenvector scaled to unit POSITION norm, services/manifold.py
     _compute_manifold_section);  sign(beta) w.r.t. the orientation of v continued along the orbit is the same for
     every seed of a manifold and opposite for direction='positive' / 'negative';  at phase 0 the base point is
     orbit.initial_state exactly: direct test of s - x0 against v(x0) with floor 1e-4 and |(s-x0)[0:3]| = d to
     rounding.
  5. every retained trajectory: times start at 0 and are strictly decreasing (stable) / increasing (unstable); the
     oracle's Jacobi constant stays within energy_tol of its value at the seed; samples of the trajectory agree
     with the oracle's flow of the seed over the *signed* time (and not with the flow over the opposite time).

Tolerance of the direction test (all terms are computed from the instance):
    tol = FLOOR                                  resolution of the check (1e-3; 1e-4 at phase 0), covers the oracle's
                                                 eigenvector error (<= 1e-13*|M|*kappa ~ 1e-8) and second-order terms
        + K_C * closure * |M|_2                  the orbit is periodic only up to closure = |phi_T(x0)-x0|: the Floquet
                                                 direction of a non-closed orbit is defined up to ~closure*|M|*curvature
        + K_I * eps_lib * G(t) / |s - x(t)|      base point error: the library (and the oracle) integrate x0 -> x(t) with
                                                 local tolerance eps_lib = 1e-12 (oracle 1e-13), amplified by
                                                 G(t) = |D phi_t(x0)|_2, relative to the displacement
        + K_T * eps_lib * |M|_2 * rho(t)         the eigenvector at x0 comes from a monodromy with error eps_lib*|M|; when
                                                 it is transported to time t the error is amplified relative to the
                                                 vector by rho(t) = |Phi(t)|_2 |v0| / |Phi(t) v0| (= 1 in the growing
                                                 direction, up to lambda_u/lambda_s when the stable vector is carried
                                                 forward over a full period: textbook transport v(t) = Phi(t) v(0))
        + 2 |alpha_last| |Df|_2                  what is left of the phase ambiguity after the last iteration (~0)
with K_C = K_T = 10, K_I = 1 (measured on correct code: base-point error ~1e-14*G(t), i.e. 1/100 of the bound;
total sine <= 1/20 of the bound).
"""
from __future__ import annotations

import json
import logging
import math

import numpy as np
from hypothesis import strategies as st

from ..hyp import explore
from ..oracle import c12_floquet as Fq
from ..oracle import cr3bp as O
from ..runner import HarnessError, shard_replays

PROPERTY = "C12"
LEVEL = "exploration"
SHARDS = {"quick": 4, "thorough": 12}
NUMBA_THREADS = {"quick": 2, "thorough": 1}
REPLAY_IN_RUN = True      # replays need a corrected orbit (JIT-heavy): run inside the shards
RULE = ("cases = generated (orbit from the shard's pool of corrected L1/L2 halo / Lyapunov orbits, stable, direction, "
        "number of phase fractions 5..40, displacement 10^[-7,-4], integration_fraction [0.1,1], method/order, dt, "
        "energy_tol 10^[-13,-5]) through orbit.manifold(...).compute(...); one evaluation = one retained seed compared "
        "with the oracle's Floquet direction at its own closest orbit point; non-trivial = seed whose base point is "
        "NOT orbit.initial_state (phase != 0) on an orbit with |lambda_u| > 10, for which the oracle decomposition "
        "was carried out; distinct by (orbit, stable, direction, fractions, displacement, seed index)")
ASSUMPTIONS = [
    "domain: corrected orbits that the ORACLE classifies as hyperbolic with exactly one real positive multiplier pair off the unit circle (|lambda| > 1+1e-3); halo and planar Lyapunov families at L1/L2 (vertical orbits need centre-manifold seeds and are not generated)",
    "the statement is existential in the orbit point: t and t -+ T (orbit closes to ~1e-10 only) are both accepted as base points; the along-flow component of the displacement is not constrained (it is indistinguishable from a shift of the base point)",
    "eps_lib = 1e-12: _compute_stm uses the library's default adaptive DOP853 with rtol = atol = 1e-12 (dynamics/base.py _propagate_dynsys) whatever method the caller selects for the branch trajectories",
    "'displaced by the configured distance' is read in the library's documented normalisation: the POSITION part of the displacement has norm `displacement`",
    "side consistency is asserted with the orientation of v continued along the orbit; it is well defined because the domain has positive multipliers",
    "trajectory-vs-flow comparison: absolute bound 1e3*eps_lib*|D phi_t(seed)|*(1+|y|) for method='adaptive'; for fixed-step methods (dt <= 1e-2, order >= 4, |t| <= 1) only the discriminating form error(signed time) <= 0.1*error(opposite time)",
    "a compute() that raises or retains no trajectory is counted in the class histogram, not judged (the statement is about the initial conditions of a computed manifold)",
    "no Hypothesis shrink pass (one evaluation = orbit correction + manifold computation, seconds each): the stored payload is one generated case restricted to one seed (only_seed)",
]

EPS = float(np.finfo(float).eps)
EPS_LIB = 1e-12
FLOOR = 1e-3
FLOOR0 = 1e-4
K_C = 10.0
K_I = 1.0
K_T = 10.0
K_S = 1e3

_sys_cache = {}
_orb_cache = {}
_margins = []


# ===================================================================== orbits
def _system(name):
    if name not in _sys_cache:
        logging.disable(logging.CRITICAL)
        from hiten import System
        if name == "EM":
            s = System.from_bodies("earth", "moon")
        elif name == "SE":
            s = System.from_bodies("sun", "earth")
        else:
            s = System.from_mu(float(name.split(":", 1)[1]))
        _sys_cache[name] = s
    return _sys_cache[name]


def _okey(spec):
    return json.dumps(spec, sort_keys=True)


def _get_orbit(spec):
    """Corrected library orbit + oracle reference for a spec {"sys","L","family","amp"}; cached per process."""
    k = _okey(spec)
    if k in _orb_cache:
        return _orb_cache[k]
    ent = {"why": None, "orbit": None, "ref": None}
    try:
        sysobj = _system(spec["sys"])
        L = sysobj.get_libration_point(int(spec["L"]))
        fam = spec["family"]
        if fam in ("halo_n", "halo_s"):
            orbit = L.create_orbit("halo", amplitude_z=float(spec["amp"]), zenith="northern" if fam == "halo_n" else "southern")
        else:
            orbit = L.create_orbit("lyapunov", amplitude_x=float(spec["amp"]) * float(L.dynamics.gamma))
        orbit.correct()
        x0 = np.array(orbit.initial_state, dtype=float)
        T = float(orbit.period)
        mu = float(sysobj.mu)
        if not (np.all(np.isfinite(x0)) and math.isfinite(T) and T > 0):
            raise ValueError("non-finite orbit")
        if spec.get("phase"):
            # the same periodic orbit re-expressed from a point OFF its symmetry section (GenericOrbit started at
            # phase*T): Floquet directions must be those of the monodromy at the orbit's own initial state
            from hiten.system.orbits.base import GenericOrbit
            x0 = np.array(O.flow(x0, float(spec["phase"]) * T, mu), dtype=float)
            orbit = GenericOrbit(L, initial_state=x0)
            orbit.period = T
    except Exception as e:  # noqa: BLE001 - building the orbit is not the property under test (C05)
        ent["why"] = "correction-failed:" + type(e).__name__
        _orb_cache[k] = ent
        return ent
    ref = Fq.OrbitRef(x0, T, mu)
    why = ref.domain()
    ent.update({"orbit": orbit, "ref": ref, "mu": mu, "why": ("out-of-domain:" + why) if why else None})
    _orb_cache[k] = ent
    return ent


_AMP = {("halo", 1): (0.05, 0.40), ("halo", 2): (0.05, 0.35), ("lyapunov", 1): (0.01, 0.10), ("lyapunov", 2): (0.01, 0.05)}
_FALLBACK = {"halo": 0.2, "lyapunov": 0.04}


def _spec(sysname, Lp, fam, u):
    lo, hi = _AMP[(fam.split("_")[0], Lp)]
    return {"sys": sysname, "L": int(Lp), "family": fam, "amp": float(round(lo + (hi - lo) * u, 6))}


def _build_pool(ctx):
    """Orbit pool of this shard.  Families / points are assigned by shard so that every tier covers L1/L2 x
    halo/Lyapunov; amplitudes (and the extra mass ratio in thorough) are drawn by Hypothesis."""
    quick = ctx.tier == "quick"
    norb = 1 if quick else 5
    draws = []
    strat = st.tuples(st.floats(0.0, 1.0, allow_nan=False, width=32), st.integers(0, 5), st.floats(-3.0, -1.5, allow_nan=False, width=32))
    explore(ctx, "pool", strat, lambda v, _c: draws.append(v), norb + 2, shrink=False)
    draws = draws[-norb:]          # Hypothesis' first examples are its simplest ones
    slots = [("halo_s", 1), ("halo_n", 2), ("lyapunov", 1), ("lyapunov", 2), ("halo_n", 1), ("halo_s", 2)]
    other = "SE" if ctx.shard % 3 == 0 else "mu:%.6g" % (10.0 ** draws[0][2])
    pool = []
    for j, (u, kfam, _) in enumerate(draws):
        if quick:
            fam, Lp = slots[ctx.shard % 4]
            sysname = "EM"
        else:
            fam, Lp = slots[(ctx.shard + j + (kfam if j >= 3 else 0)) % 6]
            sysname = "EM" if j < 3 else other
        spec = _spec(sysname, Lp, fam, float(u))
        ent = _get_orbit(spec)
        if ent["why"]:
            ctx.case(n=0, cls="pool:%s:%s:L%d:%s" % (ent["why"].split("(")[0], sysname.split(":")[0], Lp, fam))
            spec = dict(spec, amp=_FALLBACK[fam.split("_")[0]])
            ent = _get_orbit(spec)
        if ent["why"]:
            ctx.case(n=0, cls="pool:%s:%s:L%d:%s" % (ent["why"].split("(")[0], sysname.split(":")[0], Lp, fam))
            continue
        if spec not in pool:
            pool.append(spec)
            off = dict(spec, phase=[0.3, 0.62, 0.17, 0.81][(ctx.shard + j) % 4])
            ento = _get_orbit(off)
            if not ento["why"]:
                pool.append(off)
            else:
                ctx.case(n=0, cls="pool:off-section:%s" % ento["why"].split("(")[0])
    return pool


# ===================================================================== cases
_METHODS = [("adaptive", 8), ("adaptive", 8), ("adaptive", 8), ("adaptive", 5), ("fixed", 4), ("fixed", 6), ("fixed", 8)]


def manifold_case(pool, methods=None):
    methods = methods or _METHODS

    @st.composite
    def _s(draw):
        m = draw(st.sampled_from(methods))
        return {"orbit": draw(st.sampled_from(pool)),
                "stable": draw(st.booleans()),
                "direction": draw(st.sampled_from(["positive", "negative"])),
                "nfrac": draw(st.integers(5, 40)),
                "log_d": draw(st.floats(-7.0, -4.0, allow_nan=False, width=32)),
                "ifrac": draw(st.floats(0.1, 1.0, allow_nan=False)),
                "method": m[0], "order": m[1],
                "dt": draw(st.sampled_from([1e-3, 1e-3, 5e-3, 1e-2])),
                "log_etol": draw(st.floats(-13.0, -5.0, allow_nan=False, width=32)),
                "offset": draw(st.integers(0, 39))}

    return _s()


def _compute(orbit, stable, direction, c, d, etol):
    m = orbit.manifold(stable=stable, direction=direction)
    m.compute(step=1.0 / int(c["nfrac"]), integration_fraction=float(c["ifrac"]), displacement=d, dt=float(c["dt"]),
              method=c["method"], order=int(c["order"]), energy_tol=etol, show_progress=False)
    trs = m.trajectories or []
    return [(np.asarray(t.times, dtype=float), np.asarray(t.states, dtype=float)) for t in trs]


def _jacobi_arr(states, mu):
    return -2.0 * np.asarray(O._E_l(*[states[:, k] for k in range(6)], float(mu)), dtype=float)


def _escale_arr(states, mu):
    x, y, z, vx, vy, vz = [states[:, k] for k in range(6)]
    r1 = np.sqrt((x + mu) ** 2 + y * y + z * z)
    r2 = np.sqrt((x - 1 + mu) ** 2 + y * y + z * z)
    return float(np.max(vx * vx + vy * vy + vz * vz + x * x + y * y + 2 * (1 - mu) / r1 + 2 * mu / r2))


def _sine_tol(ref, r, stable, floor):
    t = r["t"]
    terms = {"floor": floor,
             "closure": K_C * ref.closure * ref.normM,
             "base": K_I * EPS_LIB * ref.growth(t) / max(r["ne"], 1e-300),
             "transport": K_T * EPS_LIB * ref.normM * ref.rho(t, stable),
             "phase": 2.0 * abs(r["alpha"]) * r["normDf"]}
    return float(sum(terms.values())), terms


def _check_seed(ref, s, d, stable):
    """Returns dict(kind, ok_dir, sine, tol, terms, sign, pos_ratio, mag_tol, t, dist) for one seed."""
    x0 = ref.x0
    e0 = s - x0
    p0 = float(np.linalg.norm(e0[:3]))
    if p0 <= 1.5 * d:
        # ---- phase 0: base point is orbit.initial_state exactly, no transport
        v = ref.vref[stable]
        ne = float(np.linalg.norm(e0))
        b = float(e0 @ v)
        sine = float(np.linalg.norm(e0 - b * v)) / max(ne, 1e-300)
        tol = FLOOR0 + K_C * ref.closure * ref.normM + K_T * EPS_LIB * ref.normM
        return {"kind": "phase0", "sine": sine, "tol": tol, "ok_dir": sine <= tol, "sign": (1 if b > 0 else -1),
                "pos_ratio": p0 / d, "mag_tol": 1e-9 + 16.0 * EPS * float(np.max(np.abs(x0))) / d, "t": 0.0, "dist": ne,
                "terms": {"floor": FLOOR0}, "orient_ok": True}
    cands = ref.candidates(s)
    if not cands or cands[0][0] > 1e3 * d:
        return {"kind": "far", "dist": cands[0][0] if cands else float("inf"), "ok_dir": False, "sine": 1.0, "tol": 0.0,
                "t": cands[0][1] if cands else 0.0, "terms": {}, "sign": 0, "pos_ratio": float("nan"), "mag_tol": 0.0, "orient_ok": False}
    # The statement is existential in the orbit point: the seed passes when SOME candidate base point satisfies the
    # direction AND the magnitude requirement (t and t -+ T differ by the closure drift, which is mostly along the
    # expanding direction, i.e. along v itself: invisible to the direction test, visible in beta).
    best = None
    for dist, t in cands:
        if dist > 10.0 * cands[0][0] + 1e-12:
            continue
        r = ref.decompose(s, t, stable)
        tol, terms = _sine_tol(ref, r, stable, FLOOR)
        cur = {"kind": "general", "sine": r["sine"], "tol": tol, "terms": terms, "ok_dir": r["sine"] <= tol,
               "sign": (1 if r["beta"] > 0 else -1), "orient_ok": r["orient_cos"] >= 0.5,
               "pos_ratio": r["pos_norm"] / d, "mag_tol": tol / max(r["sigma_min"], 1e-6), "t": r["t"], "dist": r["ne"],
               "alpha": r["alpha"], "sigma_min": r["sigma_min"], "iters": r["iters"]}
        cur["ok_mag"] = abs(cur["pos_ratio"] - 1.0) <= cur["mag_tol"]
        # ranking of failing candidates for the report: direction first, then magnitude
        cur["rank"] = (0, 0.0) if (cur["ok_dir"] and cur["ok_mag"]) else (
            (1, abs(cur["pos_ratio"] - 1.0) / cur["mag_tol"]) if cur["ok_dir"] else (2, cur["sine"] / cur["tol"]))
        if best is None or cur["rank"] < best["rank"]:
            best = cur
        if cur["ok_dir"] and cur["ok_mag"]:
            break
    return best


def _pick(n, cap, offset):
    if n <= cap:
        return list(range(n))
    idx = {0}
    for j in range(cap - 1):
        idx.add((int(offset) + (j * n) // (cap - 1)) % n)
    return sorted(idx)


def eval_case(case, ctx):
    c = case
    ent = _get_orbit(c["orbit"])
    if ent["why"]:
        ctx.case(cls="orbit-unavailable:" + ent["why"].split("(")[0])
        return
    orbit, ref, mu = ent["orbit"], ent["ref"], ent["mu"]
    stable = bool(c["stable"])
    br = "stable" if stable else "unstable"
    d = 10.0 ** float(c["log_d"])
    etol = 10.0 ** float(c["log_etol"])
    meth = "%s%d" % (c["method"], int(c["order"]))
    spec = c["orbit"]
    fam = spec["family"].split("_")[0]
    tag = "%s:L%d:%s" % (spec["sys"].split(":")[0], spec["L"], fam)
    base_cls = ["branch=" + br, "direction=" + c["direction"], "orbit=" + tag, "method=" + meth,
                "d=1e%d" % math.floor(float(c["log_d"])), "spatial" if fam == "halo" else "planar",
                "lambda_u=1e%d" % math.floor(math.log10(abs(ref.lam_u)))]
    try:
        trs = _compute(orbit, stable, c["direction"], c, d, etol)
    except Exception as e:  # noqa: BLE001
        ctx.case(cls="compute-raised:%s:%s" % (br, type(e).__name__))
        return
    nfr = int(c["nfrac"])
    if not trs:
        ctx.case(cls=["no-trajectory-retained:" + meth, "branch=" + br])
        return
    only = c.get("only_seed")
    fails = []

    # ---- every retained trajectory: time direction, Jacobi constant
    worst_e = 0.0
    for i, (tt, xs) in enumerate(trs):
        if only is not None and i != only:
            continue
        dts = np.diff(tt)
        ok_t = (tt[0] == 0.0) and (np.all(dts < 0) if stable else np.all(dts > 0))
        if not ok_t:
            fails.append(("time-direction:" + br, dict(c, only_seed=i),
                          "%s manifold trajectory %d: times[0]=%r, times[1]=%r, times[-1]=%r (expected 0 then strictly %s)" % (
                              br, i, float(tt[0]), float(tt[1]) if tt.size > 1 else None, float(tt[-1]), "decreasing" if stable else "increasing")))
        C = _jacobi_arr(xs, mu)
        err = float(np.max(np.abs(C - C[0])) / abs(C[0]))
        slack = 64.0 * EPS * _escale_arr(xs, mu) / abs(C[0])
        worst_e = max(worst_e, err / etol)
        if not (err <= etol * (1.0 + 1e-9) + slack):
            fails.append(("energy-tolerance-exceeded:" + meth, dict(c, only_seed=i),
                          "retained trajectory %d: max|C(t)-C(0)|/|C(0)| = %.3e > energy_tol = %.3e (oracle Jacobi constant, slack %.1e)" % (i, err, etol, slack)))
    ecls = "energy:worst/tol in " + ("(0.1,1]" if worst_e > 0.1 else ("(1e-3,0.1]" if worst_e > 1e-3 else "<=1e-3"))
    ctx.case(n=0, cls=[ecls, "retained=%s" % ("all" if len(trs) >= nfr else "some"), "fractions=%d..%d" % (10 * (nfr // 10), 10 * (nfr // 10) + 9)])

    # ---- seeds against the oracle's Floquet directions
    cap = 8 if ctx.tier == "quick" else 14
    idx = [only] if only is not None else _pick(len(trs), cap, c["offset"])
    idx = [i for i in idx if 0 <= i < len(trs)]
    signs = []
    for i in idx:
        s = trs[i][1][0]
        r = _check_seed(ref, s, d, stable)
        ph = abs(r["t"]) / ref.T
        cls = list(base_cls) + ["phase=0" if r["kind"] == "phase0" else "phase in [%.2f,%.2f)" % (0.25 * math.floor(ph * 4), 0.25 * math.floor(ph * 4) + 0.25)]
        nt = None
        if r["kind"] == "general" and abs(ref.lam_u) > 10:
            nt = (_okey(spec), stable, c["direction"], nfr, c["log_d"], i)
        smp = None
        if r["kind"] != "far" and len(ctx.samples) < 12 and i in (idx[0], idx[-1]):
            smp = {"case": c, "seed": i, "t_over_T": r["t"] / ref.T, "sine": r["sine"], "tol": r["tol"],
                   "pos_norm_over_d": r["pos_ratio"], "lambda_u": ref.lam_u, "closure": ref.closure}
        ctx.case(nontrivial=nt, cls=cls, sample=smp)
        where = "seed %d of %s/%s manifold (%s, d=%.3e, %d fractions): base point t/T=%.4f" % (
            i, br, c["direction"], tag, d, nfr, r["t"] / ref.T)
        if r["kind"] == "far":
            fails.append(("seed-not-near-orbit:" + br, dict(c, only_seed=i), where + ": distance to the orbit %.3e > 1e3*displacement" % r["dist"]))
            continue
        if r["kind"] == "phase0":
            if abs(r["pos_ratio"] - 1.0) > r["mag_tol"]:
                fails.append(("seed-displacement-magnitude:" + br, dict(c, only_seed=i),
                              where + ": |(s-x0)[0:3]|/displacement = %.12f (base point is orbit.initial_state)" % r["pos_ratio"]))
        if not r["ok_dir"]:
            fails.append(("seed-off-floquet-direction:" + br, dict(c, only_seed=i),
                          where + ": sine of angle between (s - x(t)) and span{f, v_%s} = %.3e (%.2f deg) > tol %.3e %s; |lambda_u| = %.1f" % (
                              "s" if stable else "u", r["sine"], math.degrees(math.asin(min(1.0, r["sine"]))), r["tol"],
                              {k: float("%.2e" % v) for k, v in r["terms"].items()}, ref.lam_u)))
            continue
        _margins.append((r["sine"] / r["tol"], br, r["t"] / ref.T, d))
        if r["kind"] == "general" and not r["ok_mag"]:
            fails.append(("seed-displacement-magnitude:" + br, dict(c, only_seed=i),
                          where + ": |beta|*|v[0:3]|/displacement = %.6f, tolerance %.2e" % (r["pos_ratio"], r["mag_tol"])))
        if r["orient_ok"]:
            signs.append((i, r["sign"]))
    if len({sg for _, sg in signs}) > 1:
        fails.append(("seed-side-varies-along-orbit:" + br, c,
                      "%s/%s manifold (%s): sign of beta w.r.t. the continuously oriented Floquet vector per seed = %r" % (br, c["direction"], tag, signs)))

    # ---- opposite direction lies on the opposite side
    if signs and only is None:
        other = "negative" if c["direction"] == "positive" else "positive"
        try:
            trs2 = _compute(orbit, stable, other, c, d, etol)
        except Exception:  # noqa: BLE001
            trs2 = []
        s2 = []
        for i in sorted({0, len(trs2) // 2}):
            if i < len(trs2):
                r = _check_seed(ref, trs2[i][1][0], d, stable)
                if r["kind"] != "far" and r["ok_dir"] and r["orient_ok"]:
                    s2.append((i, r["sign"]))
        ctx.case(n=0, cls="companion-direction-checked" if s2 else "companion-direction-unavailable")
        if s2 and any(sg == signs[0][1] for _, sg in s2):
            fails.append(("direction-sides-not-opposite:" + br, c,
                          "%s manifold (%s): direction=%s seeds have sign %r, direction=%s seeds %r (same side)" % (br, tag, c["direction"], signs[:3], other, s2)))

    # ---- trajectories are solutions of the CR3BP from their seed over the signed time
    for i in idx[:3]:
        tt, xs = trs[i]
        for target in (0.2, 1.0):
            k = int(np.argmin(np.abs(np.abs(tt) - min(target, abs(tt[-1])))))
            if k == 0:
                continue
            try:
                y, P = O.flow_stm(xs[0], float(tt[k]), mu)
                yw = O.flow(xs[0], -float(tt[k]), mu)
            except RuntimeError:
                continue
            err = float(np.linalg.norm(xs[k] - y))
            errw = float(np.linalg.norm(xs[k] - yw))
            if c["method"] == "adaptive":
                bound = K_S * EPS_LIB * max(1.0, float(np.linalg.norm(P, 2))) * (1.0 + float(np.linalg.norm(y)))
                bad = err > bound
            else:
                bound = 0.1 * errw
                bad = err > bound
            ctx.case(n=0, cls="flow-checked:" + meth)
            if bad:
                fails.append(("trajectory-not-flow-of-seed:%s:%s" % (br, meth), dict(c, only_seed=i),
                              "%s trajectory %d sample %d (t=%.6f): |state - phi_t(seed)| = %.3e > %.3e; |state - phi_{-t}(seed)| = %.3e" % (br, i, k, tt[k], err, bound, errw)))
                break
    seen = set()
    for b, payload, msg in fails:
        if b in seen:
            continue
        seen.add(b)
        ctx.fail(b, payload, msg)


# ===================================================================== entry points
def run(ctx):
    logging.disable(logging.CRITICAL)
    try:
        Fq.selftest()
        O.selftest()
    except AssertionError as e:
        raise HarnessError("C12 oracle self-test failed: %r" % (e,))
    shard_replays(ctx, replay)
    pool = _build_pool(ctx)
    if not pool:
        raise HarnessError("shard %d: no corrected orbit inside the domain could be built" % ctx.shard)
    ctx.extra.setdefault("orbits", [])
    for sp in pool:
        r = _get_orbit(sp)["ref"]
        ctx.extra["orbits"].append({"spec": sp, "period": r.T, "lambda_u": r.lam_u, "lambda_s": r.lam_s, "closure": r.closure})
    n = ctx.scale(8, 12 * len(pool))
    methods = _METHODS
    if ctx.tier == "quick":   # each (method, order, time direction) costs seconds of JIT: one non-default scheme per shard
        alt = [("adaptive", 5), ("fixed", 4), ("fixed", 6), ("fixed", 8)]
        methods = [("adaptive", 8)] * 2 + [alt[(ctx.shard + ctx.seed) % 4]] * 2
    # no Hypothesis shrink pass: every evaluation costs seconds (the hunt re-runs the whole generation) and the stored
    # payload is already one seed of one manifold (only_seed)
    explore(ctx, "manifolds", manifold_case(pool, methods), eval_case, n, shrink=False)
    ctx.extra.setdefault("tightest_direction_margins", [])   # [sine/tol at the first passing candidate, branch, t/T, displacement]
    for m in sorted(_margins, key=lambda t: -t[0])[:2]:
        ctx.extra["tightest_direction_margins"].append(list(m))


def replay(ctx, payload):
    logging.disable(logging.CRITICAL)
    eval_case(payload, ctx)
