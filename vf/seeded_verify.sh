#!/bin/bash
# Verify a seeded change and (optionally) run the property's quick check against it.
# usage: vf/seeded_verify.sh C02 /path/patch.diff /path/demo.py [check-ids...]
# prints: demo(clean)=rc demo(patched)=rc check <id>=rc ...
HERE="$(cd "$(dirname "$0")/.." && pwd)"
PROP="$1"; PATCH="$2"; DEMO="$3"; shift 3
CHECKS="${@:-$PROP}"
W="$(mktemp -d "${TMPDIR:-/tmp}/hiten-seed-XXXXXX")"
mkdir -p "$W/src"; cp -r /repo/src/hiten "$W/src/hiten"; find "$W/src" -name __pycache__ -type d -exec rm -rf {} + 2>/dev/null
if ! (cd "$W" && patch -p1 -s < "$PATCH" >/dev/null 2>&1); then echo "PATCH-DOES-NOT-APPLY $PATCH"; rm -rf "$W"; exit 2; fi
export NUMBA_CACHE_DIR="$W/nbcache"
(cd "$W" && PYTHONPATH=/repo/src timeout 1800 /venv/bin/python -W ignore "$DEMO" >"$W/demo_clean.log" 2>&1); rc0=$?
(cd "$W" && PYTHONPATH="$W/src" timeout 1800 /venv/bin/python -W ignore "$DEMO" >"$W/demo_patched.log" 2>&1); rc1=$?
echo "SEEDED $PROP $(basename $PATCH): demo(clean)=$rc0 demo(patched)=$rc1 :: $(tail -2 "$W/demo_patched.log" | tr '\n' ' ' | cut -c1-200)"
for C in $CHECKS; do
  out="$(cd "$HERE" && HITEN_SRC="$W/src" VF_EVIDENCE_DIR="$W/evidence" VF_VIOL_DIR="$W/viol" ./check "$C" --tier ${SEED_TIER:-quick} 2>&1)"; rc=$?
  echo "SEEDED $PROP $(basename $PATCH): check $C exit=$rc :: $(echo "$out" | grep -m3 -E 'bucket=|HARNESS' | tr '\n' ' ' | cut -c1-400)"
done
rm -rf "$W"
