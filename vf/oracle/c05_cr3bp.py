"""Independent CR3BP oracle for C05 (no hiten import).

Synodic, nondimensional CR3BP: primaries at (-mu,0,0) (mass 1-mu) and
(1-mu,0,0) (mass mu).  Field and first variational equations are written out
in plain numpy and integrated with SciPy's DOP853 (rtol = atol = 1e-13).
"""
from __future__ import annotations

import numpy as np
from scipy.integrate import solve_ivp

RTOL = 1e-13
ATOL = 1e-13


def make_rhs(mu):
    mu = float(mu)
    om = 1.0 - mu
    I3 = np.eye(3)

    def rhs(t, s):
        x, y, z, vx, vy, vz = s[0], s[1], s[2], s[3], s[4], s[5]
        d1x = x + mu
        d2x = x - om
        q = y * y + z * z
        r1 = (d1x * d1x + q) ** 0.5
        r2 = (d2x * d2x + q) ** 0.5
        r13 = r1 ** 3
        r23 = r2 ** 3
        out = np.empty_like(s)
        out[0] = vx
        out[1] = vy
        out[2] = vz
        out[3] = 2.0 * vy + x - om * d1x / r13 - mu * d2x / r23
        out[4] = -2.0 * vx + y - om * y / r13 - mu * y / r23
        out[5] = -om * z / r13 - mu * z / r23
        if s.size > 6:
            Phi = s[6:].reshape(6, 6)
            d1 = np.array([d1x, y, z])
            d2 = np.array([d2x, y, z])
            U = (np.diag([1.0, 1.0, 0.0])
                 - om * (I3 / r13 - 3.0 * np.outer(d1, d1) / r1 ** 5)
                 - mu * (I3 / r23 - 3.0 * np.outer(d2, d2) / r2 ** 5))
            A = np.zeros((6, 6))
            A[0, 3] = A[1, 4] = A[2, 5] = 1.0
            A[3:, :3] = U
            A[3, 4] = 2.0
            A[4, 3] = -2.0
            out[6:] = (A @ Phi).ravel()
        return out

    return rhs


def field_jacobian(mu, s):
    """A(x) = Df(x), the 6x6 Jacobian of the CR3BP field."""
    mu = float(mu)
    om = 1.0 - mu
    x, y, z = float(s[0]), float(s[1]), float(s[2])
    d1 = np.array([x + mu, y, z])
    d2 = np.array([x - om, y, z])
    r1 = float(np.sqrt(d1 @ d1))
    r2 = float(np.sqrt(d2 @ d2))
    I3 = np.eye(3)
    U = (np.diag([1.0, 1.0, 0.0])
         - om * (I3 / r1 ** 3 - 3.0 * np.outer(d1, d1) / r1 ** 5)
         - mu * (I3 / r2 ** 3 - 3.0 * np.outer(d2, d2) / r2 ** 5))
    A = np.zeros((6, 6))
    A[0, 3] = A[1, 4] = A[2, 5] = 1.0
    A[3:, :3] = U
    A[3, 4] = 2.0
    A[4, 3] = -2.0
    return A


def jacobi(mu, s):
    x, y, z, vx, vy, vz = [float(v) for v in s[:6]]
    r1 = ((x + mu) ** 2 + y * y + z * z) ** 0.5
    r2 = ((x - 1.0 + mu) ** 2 + y * y + z * z) ** 0.5
    return x * x + y * y + 2.0 * (1.0 - mu) / r1 + 2.0 * mu / r2 - (vx * vx + vy * vy + vz * vz)


def flow_with_stm(mu, x0, times):
    """States and STMs at the (increasing, positive) `times`, starting from x0 at t = 0.
    Returns (ok, [states], [stms], n_accepted_steps)."""
    x0 = np.asarray(x0, dtype=float)
    s0 = np.concatenate([x0, np.eye(6).ravel()])
    tf = float(times[-1])
    sol = solve_ivp(make_rhs(mu), (0.0, tf), s0, method="DOP853", rtol=RTOL, atol=ATOL,
                    t_eval=[float(t) for t in times])
    if sol.status != 0 or sol.y.shape[1] != len(times) or not np.all(np.isfinite(sol.y)):
        return False, [], [], 0
    states = [sol.y[:6, i].copy() for i in range(len(times))]
    stms = [sol.y[6:, i].reshape(6, 6).copy() for i in range(len(times))]
    return True, states, stms, int(sol.nfev // 12)


def self_test():
    """Jacobi-constant conservation (field) + symplecticity of the STM (variational equations).
    Returns a string describing the failure, or None."""
    mu = 0.0121505856
    x0 = np.array([0.8234, 0.0, 0.0224, 0.0, 0.1343, 0.0])
    ok, st, Ms, _ = flow_with_stm(mu, x0, [0.7, 1.4])
    if not ok:
        return "own DOP853 integration failed on the self-test state"
    c0 = jacobi(mu, x0)
    for s in st:
        if abs(jacobi(mu, s) - c0) > 1e-10:
            return "own field does not conserve the Jacobi constant (%.3e)" % abs(jacobi(mu, s) - c0)
    J = np.zeros((6, 6))
    J[:3, 3:] = np.eye(3)
    J[3:, :3] = -np.eye(3)
    # canonical momenta p = v + (-y, x, 0): M_can = T M T^-1
    T = np.eye(6)
    T[3, 1] = -1.0
    T[4, 0] = 1.0
    for M in Ms:
        Mc = T @ M @ np.linalg.inv(T)
        err = np.max(np.abs(Mc.T @ J @ Mc - J))
        if err > 1e-7 * max(1.0, np.linalg.norm(M, 2) ** 2 * 1e-6):
            return "own STM is not symplectic (%.3e)" % err
    # composition property: Phi(1.4) = Phi(0.7 -> 1.4) Phi(0.7)
    ok2, st2, Ms2, _ = flow_with_stm(mu, st[0], [0.7])
    if not ok2:
        return "own DOP853 integration failed on the self-test restart"
    if np.max(np.abs(Ms2[0] @ Ms[0] - Ms[1])) > 1e-7 * np.linalg.norm(Ms[1], 2):
        return "own STM does not satisfy the composition property"
    if np.max(np.abs(st2[0] - st[1])) > 1e-9:
        return "own flow does not satisfy the group property"
    return None
