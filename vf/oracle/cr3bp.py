"""Independent CR3BP reference model (synodic frame, Szebehely 1967 conventions).

Everything is derived at import time by SymPy from the pseudo-potential
    Omega = (x^2+y^2)/2 + (1-mu)/r1 + mu/r2,
    r1 = |(x+mu, y, z)|, r2 = |(x-1+mu, y, z)|
field     f = (v, 2vy + Omega_x, -2vx + Omega_y, Omega_z)
energy    E = |v|^2/2 - Omega   (Jacobi constant C = -2E up to an additive constant)
Jacobian  Df by symbolic differentiation of f.
No code is shared with hiten.
"""
from __future__ import annotations

import numpy as np
import sympy as sp

_x, _y, _z, _vx, _vy, _vz, _mu = sp.symbols("x y z vx vy vz mu", real=True)
_r1 = sp.sqrt((_x + _mu) ** 2 + _y ** 2 + _z ** 2)
_r2 = sp.sqrt((_x - 1 + _mu) ** 2 + _y ** 2 + _z ** 2)
_Om = (_x ** 2 + _y ** 2) / 2 + (1 - _mu) / _r1 + _mu / _r2
_f = sp.Matrix([_vx, _vy, _vz,
                2 * _vy + sp.diff(_Om, _x),
                -2 * _vx + sp.diff(_Om, _y),
                sp.diff(_Om, _z)])
_vars = (_x, _y, _z, _vx, _vy, _vz)
_J = _f.jacobian(sp.Matrix(_vars))
_E = (_vx ** 2 + _vy ** 2 + _vz ** 2) / 2 - _Om
_Hess = sp.hessian(_Om, (_x, _y, _z))

_field_l = sp.lambdify((*_vars, _mu), list(_f), "numpy", cse=True)
_jac_l = sp.lambdify((*_vars, _mu), _J, "numpy", cse=True)
_E_l = sp.lambdify((*_vars, _mu), _E, "numpy", cse=True)
_Om_l = sp.lambdify((_x, _y, _z, _mu), _Om, "numpy", cse=True)
_gradOm_l = sp.lambdify((_x, _y, _z, _mu), [sp.diff(_Om, v) for v in (_x, _y, _z)], "numpy", cse=True)
_hess_l = sp.lambdify((_x, _y, _z, _mu), _Hess, "numpy", cse=True)


def field(s, mu):
    return np.array(_field_l(*[float(v) for v in s], float(mu)), dtype=float)


def jacobian(s, mu):
    return np.array(_jac_l(*[float(v) for v in s], float(mu)), dtype=float)


def energy(s, mu):
    """E = v^2/2 - Omega (no additive constant)."""
    return float(_E_l(*[float(v) for v in s], float(mu)))


def jacobi(s, mu):
    return -2.0 * energy(s, mu)


def omega(x, y, z, mu):
    return float(_Om_l(float(x), float(y), float(z), float(mu)))


def grad_omega(x, y, z, mu):
    return np.array(_gradOm_l(float(x), float(y), float(z), float(mu)), dtype=float)


def hess_omega(x, y, z, mu):
    return np.array(_hess_l(float(x), float(y), float(z), float(mu)), dtype=float)


def distances(s, mu):
    x, y, z = float(s[0]), float(s[1]), float(s[2])
    return (np.sqrt((x + mu) ** 2 + y * y + z * z), np.sqrt((x - 1 + mu) ** 2 + y * y + z * z))


def field_scale(s, mu):
    """Sum of magnitudes of the terms entering the acceleration (rounding scale)."""
    x, y, z, vx, vy, vz = [float(v) for v in s]
    r1, r2 = distances(s, mu)
    g = (1 - mu) * (abs(x + mu) + abs(y) + abs(z)) / r1 ** 3 + mu * (abs(x - 1 + mu) + abs(y) + abs(z)) / r2 ** 3
    return 2 * abs(vx) + 2 * abs(vy) + abs(vz) + abs(x) + abs(y) + g + 1e-300


def jac_scale(s, mu):
    r1, r2 = distances(s, mu)
    return 3.0 + 4 * (1 - mu) / r1 ** 3 + 4 * mu / r2 ** 3


def field_cond(s, mu):
    """Amplification of the rounding of (x+mu), (x-1+mu) into the acceleration:
    d[(1-mu)(x+mu)/r1^3] <= 4(1-mu)/r1^3 * eps*(|x|+mu), likewise for the secondary."""
    x = abs(float(s[0]))
    r1, r2 = distances(s, mu)
    return 4 * ((1 - mu) * (x + mu) / r1 ** 3 + mu * (x + 1) / r2 ** 3)


def jac_cond(s, mu):
    """Same for the second derivatives of Omega (entries ~ 1/r^3, sensitivity ~ 1/r^4)."""
    x = abs(float(s[0]))
    r1, r2 = distances(s, mu)
    return 15 * ((1 - mu) * (x + mu) / r1 ** 4 + mu * (x + 1) / r2 ** 4)


def energy_scale(s, mu):
    x, y, z, vx, vy, vz = [float(v) for v in s]
    r1, r2 = distances(s, mu)
    return 0.5 * (vx * vx + vy * vy + vz * vz) + 0.5 * (x * x + y * y + z * z) + (1 - mu) / r1 + mu / r2 + 1.0


# ---------------------------------------------------------------- reference flows
def _rhs(t, s, mu):
    return _field_l(*s, mu)


def _rhs_var(t, w, mu):
    s = w[:6]
    Phi = w[6:].reshape(6, 6)
    A = np.array(_jac_l(*s, mu), dtype=float)
    return np.concatenate([np.array(_field_l(*s, mu), dtype=float), (A @ Phi).ravel()])


def flow(s0, t, mu, rtol=1e-13, atol=1e-13, dense=False, t_eval=None):
    """Reference flow phi_t(s0) (t may be negative) with SciPy DOP853."""
    from scipy.integrate import solve_ivp
    if t == 0:
        return np.array(s0, dtype=float) if not dense else None
    sol = solve_ivp(_rhs, (0.0, float(t)), np.array(s0, dtype=float), method="DOP853", rtol=rtol, atol=atol,
                    args=(float(mu),), dense_output=dense, t_eval=t_eval)
    if not sol.success:
        raise RuntimeError("reference integration failed: " + str(sol.message))
    if dense:
        return sol
    if t_eval is not None:
        return sol.y.T
    return sol.y[:, -1]


def flow_stm(s0, t, mu, rtol=1e-13, atol=1e-13):
    """Reference (phi_t(s0), D phi_t(s0)) by integrating the variational equations
    built from the SymPy Jacobian."""
    from scipy.integrate import solve_ivp
    w0 = np.concatenate([np.array(s0, dtype=float), np.eye(6).ravel()])
    if t == 0:
        return w0[:6], np.eye(6)
    sol = solve_ivp(_rhs_var, (0.0, float(t)), w0, method="DOP853", rtol=rtol, atol=atol, args=(float(mu),))
    if not sol.success:
        raise RuntimeError("reference variational integration failed: " + str(sol.message))
    w = sol.y[:, -1]
    return w[:6], w[6:].reshape(6, 6)


def selftest():
    """Oracle self-test on hand-derivable facts (raises AssertionError)."""
    mu = 0.1
    # triangular point is an equilibrium
    L4 = np.array([0.5 - mu, np.sqrt(3) / 2, 0, 0, 0, 0])
    assert np.linalg.norm(field(L4, mu)) < 1e-14
    # Jacobian vs finite differences of own field
    s = np.array([0.3, -0.4, 0.2, 0.1, -0.3, 0.25])
    J = jacobian(s, mu)
    h = 1e-6
    for k in range(6):
        e = np.zeros(6); e[k] = h
        fd = (field(s + e, mu) - field(s - e, mu)) / (2 * h)
        assert np.max(np.abs(fd - J[:, k])) < 1e-7
    # energy is a first integral of own field
    gE = np.zeros(6)
    for k in range(6):
        e = np.zeros(6); e[k] = h
        gE[k] = (energy(s + e, mu) - energy(s - e, mu)) / (2 * h)
    assert abs(gE @ field(s, mu)) < 1e-8
    # two-body limit mu -> 0: circular orbit of radius 1 about the primary is an equilibrium in the rotating frame
    assert np.linalg.norm(field(np.array([0.0, 1.0, 0, 0, 0, 0]), 0.0)) < 1e-14
