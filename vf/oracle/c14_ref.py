"""Reference objects for C14 (centre-manifold Poincare maps) — nothing here calls the library.

* :class:`CMHam`   the reduced Hamiltonian H(q2,p2,q3,p3): a 6-variable polynomial dict (exponents in the library's
                   variable order q1,q2,q3,p1,p2,p3; unpacked from the coefficient *data* by vf.oracle.polyref) restricted
                   to q1 = p1 = 0, with own value / gradient / Hessian evaluation vectorised over points, the Hamilton
                   field  q' = dH/dp, p' = -dH/dq  and the first two time derivatives of a section coordinate.
* :func:`returns`  first return of many points to {x_c = 0} crossed with increasing x_c (or decreasing): all
                   trajectories are integrated at once with SciPy DOP853 (dense output), the crossing of each trajectory is
                   bracketed on a fine sample of the dense output, refined with Brent on the interpolant and polished
                   with two Newton steps along the exact field.
* :func:`linfrac_bound`  the bound on the time error of "linear-fraction" crossing location that the library uses
                   (derived in the docstring), and a pure-Python model of that refinement for the self-test.

CM coordinates are ordered [q2, p2, q3, p3] (RestrictedCenterManifoldState).
"""
from __future__ import annotations

import math

import numpy as np

from . import polyref as P

IDX4 = {"q2": 0, "p2": 1, "q3": 2, "p3": 3}
CONJ = {"q2": "p2", "p2": "q2", "q3": "p3", "p3": "q3"}
PLANE = {"q3": ("q2", "p2"), "p3": ("q2", "p2"), "q2": ("q3", "p3"), "p2": ("q3", "p3")}
SLOT6 = (1, 4, 2, 5)          # [q2,p2,q3,p3] -> slots of (q1,q2,q3,p1,p2,p3)
EPS = 2.220446049250313e-16


class _Poly4:
    """sum_k c_k x^K_k in 4 variables, evaluated for an array of points (4, M)."""

    def __init__(self, d4):
        keys = sorted(d4.keys())
        self.K = np.array(keys, dtype=np.int64).reshape(len(keys), 4)
        self.c = np.array([float(d4[k]) for k in keys], dtype=float)
        self.deg = int(self.K.sum(axis=1).max()) if len(keys) else 0

    def __call__(self, pw):
        """pw: power table (4, deg+1, M) with pw[v, e] = x_v ** e."""
        if not len(self.c):
            return np.zeros(pw.shape[2])
        K = self.K
        m = pw[0, K[:, 0]] * pw[1, K[:, 1]] * pw[2, K[:, 2]] * pw[3, K[:, 3]]      # (nterms, M)
        return self.c @ m

    def abssum(self, pw_abs):
        if not len(self.c):
            return np.zeros(pw_abs.shape[2])
        K = self.K
        m = pw_abs[0, K[:, 0]] * pw_abs[1, K[:, 1]] * pw_abs[2, K[:, 2]] * pw_abs[3, K[:, 3]]
        return np.abs(self.c) @ m


def _diff4(d4, v):
    out = {}
    for k, c in d4.items():
        if k[v] > 0:
            kk = list(k)
            kk[v] -= 1
            out[tuple(kk)] = out.get(tuple(kk), 0.0) + c * k[v]
    return out


class CMHam:
    def __init__(self, d6):
        """d6: {6-tuple exponents: coefficient} (exact or float, possibly complex with zero imaginary part)."""
        d4 = {}
        self.dropped_hyperbolic = 0
        self.max_imag = 0.0
        self.cmax = 0.0
        for k, c in d6.items():
            z = complex(P.tofloat(c, True)) if not isinstance(c, (float, int, complex)) else complex(c)
            self.max_imag = max(self.max_imag, abs(z.imag))
            self.cmax = max(self.cmax, abs(z))
            if k[0] > 0 or k[3] > 0:
                self.dropped_hyperbolic += 1      # vanishes on q1 = p1 = 0
                continue
            k4 = tuple(int(k[s]) for s in SLOT6)
            d4[k4] = d4.get(k4, 0.0) + z.real
        # terms that are linear in q1 or p1 would make q1 = p1 = 0 non-invariant; recorded for the caller
        self.linear_hyperbolic = max([abs(complex(P.tofloat(c, True))) for k, c in d6.items() if k[0] + k[3] == 1] or [0.0])
        self.d4 = d4
        self.H = _Poly4(d4)
        g = [_diff4(d4, v) for v in range(4)]
        self.G = [_Poly4(x) for x in g]
        self.Hs = [[None] * 4 for _ in range(4)]
        for a in range(4):
            for b in range(a, 4):
                self.Hs[a][b] = self.Hs[b][a] = _Poly4(_diff4(g[a], b))
        self.deg = self.H.deg

    # ---- evaluation -----------------------------------------------------------------------------------------
    def _pw(self, X):
        X = np.asarray(X, dtype=float)
        if X.ndim == 1:
            X = X[:, None]
        pw = np.empty((4, self.deg + 1, X.shape[1]))
        pw[:, 0] = 1.0
        for e in range(1, self.deg + 1):
            pw[:, e] = pw[:, e - 1] * X
        return pw

    def value(self, X):
        """X: (4,) or (4, M) -> float or (M,)."""
        r = self.H(self._pw(X))
        return float(r[0]) if np.ndim(X) == 1 else r

    def abssum(self, X):
        r = self.H.abssum(self._pw(np.abs(np.asarray(X, dtype=float))))
        return float(r[0]) if np.ndim(X) == 1 else r

    def grad(self, X, pw=None):
        pw = self._pw(X) if pw is None else pw
        return np.array([g(pw) for g in self.G])          # (4, M)

    def field(self, X, pw=None):
        """Hamilton field in the order [q2, p2, q3, p3]."""
        g = self.grad(X, pw)
        return np.array([g[1], -g[0], g[3], -g[2]])

    def hess(self, X, pw=None):
        pw = self._pw(X) if pw is None else pw
        out = np.empty((4, 4, pw.shape[2]))
        for a in range(4):
            for b in range(a, 4):
                out[a, b] = out[b, a] = self.Hs[a][b](pw)
        return out

    def fdots(self, X, c):
        """(f', f'', |x'|) of f = x_c along the flow at the points X (4, M)."""
        pw = self._pw(X)
        F = self.field(X, pw)
        Hs = self.hess(X, pw)
        j = IDX4[c]
        # f' = F[j]; F = J grad H  =>  dF[j]/dx_b = sign * Hess[conj, b]
        cj = IDX4[CONJ[c]]
        sign = 1.0 if c.startswith("q") else -1.0
        f1 = F[j]
        f2 = sign * np.einsum("bm,bm->m", Hs[cj], F)
        return f1, f2, np.sqrt(np.sum(F * F, axis=0))


# ---------------------------------------------------------------------------------------------------------------------
def _integrate(ham, X0, t1, rtol, atol):
    from scipy.integrate import solve_ivp
    M = X0.shape[1]

    def rhs(t, y):
        return ham.field(y.reshape(4, M)).reshape(-1)

    sol = solve_ivp(rhs, (0.0, t1), X0.reshape(-1).copy(), method="DOP853", rtol=rtol, atol=atol, dense_output=True)
    if not sol.success:
        raise RuntimeError("reference integration failed: %s" % sol.message)
    return sol.sol


def _crossings(ham, dense, M, j, direction, t1, hs, ncand):
    """Up to ncand crossings (f = x_j changing sign in `direction`) per trajectory on (0, t1]."""
    from scipy.optimize import brentq
    n = int(math.ceil(t1 / hs))
    ts = np.linspace(0.0, t1, n + 1)
    f = dense(ts).reshape(4, M, n + 1)[j] * float(direction)        # (M, n+1), crossing wanted: - -> +
    f[:, 0] = 0.0                                                   # the start is on the section by definition
    out = []
    for i in range(M):
        fi = f[i]
        up = np.flatnonzero((fi[:-1] < 0.0) & (fi[1:] >= 0.0))
        dn = np.flatnonzero((fi[:-1] >= 0.0) & (fi[1:] < 0.0))
        cands = []
        for k in up[:ncand]:
            tc = brentq(lambda t: dense(t)[j * M + i], ts[k], ts[k + 1], xtol=1e-14, rtol=8 * EPS)
            y = dense(tc).reshape(4, M)[:, i].copy()
            for _ in range(2):          # polish along the exact field (second-order step)
                F = ham.field(y)[:, 0]
                if F[j] == 0.0:
                    break
                h = -y[j] / F[j]
                if abs(h) > 1e-6:
                    break
                y = y + h * ham.field(y + 0.5 * h * F)[:, 0]
                tc += h
            y[j] = 0.0
            before = dn[dn < k]
            after = dn[dn > k]
            t_neg = tc - (ts[before[-1]] if len(before) else 0.0)          # length of the negative phase before
            t_pos = (ts[after[0]] - tc) if len(after) else (t1 - tc)      # length of the positive phase after (>=)
            cands.append((y, tc, max(t_neg, 0.0), max(t_pos, 0.0)))
        out.append(cands)
    return out


def returns(ham, X0, c, direction=+1, horizon=12.0, first=8.0, ncand=2, rtol=1e-11, atol=1e-13, hs=0.005):
    """Crossings of {x_c = 0} in `direction` (+1: x_c increasing) along the reduced flow from every column of X0 (4, M).

    Returns (cands, complete): cands[i] is a list of up to `ncand` tuples (y, t, t_neg, t_pos) — the crossing point, its
    time, the duration of the phase x_c*direction < 0 that precedes it and of the phase > 0 that follows it (sampled
    with resolution hs; short phases identify grazing crossings that a fixed-step detector may legitimately skip);
    complete[i] is True when the list is known to hold EVERY such crossing up to `horizon`.
    Trajectories without a crossing before `first` are re-integrated up to `horizon`.
    """
    X0 = np.asarray(X0, dtype=float).reshape(4, -1)
    M = X0.shape[1]
    if M == 0:
        return [], np.zeros(0, dtype=bool)
    j = IDX4[c]
    t1 = min(first, horizon)
    out = _crossings(ham, _integrate(ham, X0, t1, rtol, atol), M, j, direction, t1, hs, ncand)
    complete = np.array([t1 >= horizon and len(o) < ncand for o in out], dtype=bool)
    if horizon > t1:
        miss = [i for i in range(M) if not out[i]]
        if miss:
            sub = X0[:, miss]
            o2 = _crossings(ham, _integrate(ham, sub, horizon, rtol, atol), len(miss), j, direction, horizon, hs, ncand)
            for i, cnd in zip(miss, o2):
                out[i] = cnd
                complete[i] = len(cnd) < ncand
    return out, complete


# ---------------------------------------------------------------------------------------------------------------------
def linfrac_bound(dt, f1_min, f2_max):
    """Time error of locating a zero of f on a step [0, dt] by the linear fraction alpha = f0 / (f0 - f1).

    With L the chord through (0, f0), (dt, f1):  f(t) - L(t) = f''(xi)/2 * t (t - dt), so at the chord's zero t_lin
    |f(t_lin)| <= max|f''| dt^2 / 8, and by the mean value theorem |t_lin - t*| = |f(t_lin)| / |f'(eta)|
    <= max|f''| dt^2 / (8 min|f'|), the extrema taken over the step.
    """
    return f2_max * dt * dt / (8.0 * f1_min)


def hermite(s, y0, y1, d0, d1, dt):
    """Cubic Hermite interpolant (textbook basis), for the self-test model of the refinement."""
    h00 = (1 + 2 * s) * (1 - s) ** 2
    h10 = s * (1 - s) ** 2
    h01 = s * s * (3 - 2 * s)
    h11 = s * s * (s - 1)
    return h00 * y0 + h10 * dt * d0 + h01 * y1 + h11 * dt * d1
