"""C07 oracle: exact CR3BP energy / acceleration and their Taylor coefficients along a ray, in multi-precision.

Nothing here imports hiten.  Everything is built from the textbook synodic model
    Omega = (X^2+Y^2)/2 + (1-mu)/r1 + mu/r2,   E = |V|^2/2 - Omega,
    acceleration = (2Vy + Omega_X, -2Vx + Omega_Y, Omega_Z)
(the same model as vf.oracle.cr3bp, against which `selftest` compares in double precision).

`ray_series(b, w, mu, n)` returns the Taylor coefficients in r (orders 0..n) of E and of the three acceleration
components along the affine ray  state(r) = b + r*w  (6-vectors: position, velocity).  It uses truncated power-series
arithmetic (Cauchy products and J.C.P. Miller's recurrence for S^alpha) on mpmath numbers: no numerical
differentiation, no polynomial-expansion theory (Legendre/Chebyshev) shared with the code under test.
"""
from __future__ import annotations

import mpmath as mp

DPS = 40


def _mul(a, b, n):
    out = [mp.mpf(0)] * (n + 1)
    for i, ai in enumerate(a[:n + 1]):
        if ai == 0:
            continue
        for j, bj in enumerate(b[:n + 1 - i]):
            out[i + j] += ai * bj
    return out


def _lin(a, b, n, ca=1, cb=1):
    return [ca * (a[i] if i < len(a) else 0) + cb * (b[i] if i < len(b) else 0) for i in range(n + 1)]


def _pow(s, alpha, n):
    """P = S^alpha for a series with s[0] != 0:  k s0 p_k = sum_{j=1..k} (alpha j - (k-j)) s_j p_{k-j}."""
    p = [mp.mpf(0)] * (n + 1)
    p[0] = mp.power(s[0], alpha)
    for k in range(1, n + 1):
        acc = mp.mpf(0)
        for j in range(1, min(k, len(s) - 1) + 1):
            acc += (alpha * j - (k - j)) * s[j] * p[k - j]
        p[k] = acc / (k * s[0])
    return p


def ray_series(b, w, mu, n):
    with mp.workdps(DPS):
        mu = mp.mpf(mu)
        b = [mp.mpf(v) for v in b]
        w = [mp.mpf(v) for v in w]
        X, Y, Z, Vx, Vy, Vz = [[b[i], w[i]] for i in range(6)]
        sq = lambda a: _mul(a, a, n)
        Z2 = sq(Z)
        X1 = [X[0] + mu, X[1]]
        X2 = [X[0] - 1 + mu, X[1]]
        S1 = _lin(_lin(sq(X1), sq(Y), n), Z2, n)
        S2 = _lin(_lin(sq(X2), sq(Y), n), Z2, n)
        i1 = _pow(S1, mp.mpf(-1) / 2, n)
        i2 = _pow(S2, mp.mpf(-1) / 2, n)
        Om = _lin(_lin(sq(X), sq(Y), n, mp.mpf(1) / 2, mp.mpf(1) / 2), _lin(i1, i2, n, 1 - mu, mu), n)
        kin = _lin(_lin(sq(Vx), sq(Vy), n), sq(Vz), n)
        E = _lin(kin, Om, n, mp.mpf(1) / 2, -1)
        c1 = _pow(S1, mp.mpf(-3) / 2, n)
        c2 = _pow(S2, mp.mpf(-3) / 2, n)
        g = _lin(c1, c2, n, 1 - mu, mu)
        gx = _lin(_mul(X1, c1, n), _mul(X2, c2, n), n, 1 - mu, mu)
        ax = _lin(_lin(Vy, X, n, 2, 1), gx, n, 1, -1)
        ay = _lin(_lin(Vx, Y, n, -2, 1), _mul(Y, g, n), n, 1, -1)
        az = _lin([], _mul(Z, g, n), n, 0, -1)
        return E, (ax, ay, az)


def energy(s, mu):
    with mp.workdps(DPS):
        mu = mp.mpf(mu)
        X, Y, Z, Vx, Vy, Vz = [mp.mpf(v) for v in s]
        r1 = mp.sqrt((X + mu) ** 2 + Y ** 2 + Z ** 2)
        r2 = mp.sqrt((X - 1 + mu) ** 2 + Y ** 2 + Z ** 2)
        return (Vx ** 2 + Vy ** 2 + Vz ** 2) / 2 - ((X ** 2 + Y ** 2) / 2 + (1 - mu) / r1 + mu / r2)


def accel(s, mu):
    with mp.workdps(DPS):
        mu = mp.mpf(mu)
        X, Y, Z, Vx, Vy, Vz = [mp.mpf(v) for v in s]
        r1 = mp.sqrt((X + mu) ** 2 + Y ** 2 + Z ** 2)
        r2 = mp.sqrt((X - 1 + mu) ** 2 + Y ** 2 + Z ** 2)
        g = (1 - mu) / r1 ** 3 + mu / r2 ** 3
        return (2 * Vy + X - (1 - mu) * (X + mu) / r1 ** 3 - mu * (X - 1 + mu) / r2 ** 3,
                -2 * Vx + Y - Y * g, -Z * g)


def affine(b, M, s):
    """b + M s in multi-precision (b, M, s given as doubles: every double is an exact rational)."""
    with mp.workdps(DPS):
        return [mp.mpf(float(b[i])) + mp.fsum(mp.mpf(float(M[i][j])) * mp.mpf(float(s[j])) for j in range(6)) for i in range(6)]


def selftest():
    """(1) mp energy / acceleration agree with the SymPy-derived double model of vf.oracle.cr3bp;
    (2) the series sums reproduce the direct evaluation; (3) a hand-derivable expansion."""
    from . import cr3bp as O
    mu = 0.0121505856
    b = [0.8369, 0.01, -0.02, 0.03, -0.01, 0.02]
    w = [0.05, -0.08, 0.03, 0.1, 0.2, -0.1]
    E, A = ray_series(b, w, mu, 45)
    with mp.workdps(DPS):
        for r in (0.1, 0.4):
            s = [b[i] + mp.mpf(r) * w[i] for i in range(6)]
            assert abs(mp.fsum(E[k] * mp.mpf(r) ** k for k in range(46)) - energy(s, mu)) < mp.mpf(10) ** -15
            am = accel(s, mu)
            for c in range(3):
                assert abs(mp.fsum(A[c][k] * mp.mpf(r) ** k for k in range(46)) - am[c]) < mp.mpf(10) ** -13
            sd = [float(v) for v in s]
            assert abs(float(energy(sd, mu)) - O.energy(sd, mu)) < 1e-14
            f = O.field(sd, mu)
            am = accel(sd, mu)
            assert max(abs(float(am[c]) - f[3 + c]) for c in range(3)) < 1e-13
        # two-body limit: along the x-axis from X=2 with mu=0:  -1/(2+r) = -1/2 + r/4 - r^2/8 ...,  -(2+r)^2/2
        E, A = ray_series([2, 0, 0, 0, 0, 0], [1, 0, 0, 0, 0, 0], 0, 4)
        want = [-2 - mp.mpf(1) / 2, -2 + mp.mpf(1) / 4, -mp.mpf(1) / 2 - mp.mpf(1) / 8, mp.mpf(1) / 16, -mp.mpf(1) / 32]
        assert max(abs(E[k] - want[k]) for k in range(5)) < mp.mpf(10) ** -30
