"""Exact reference polynomials in 6 variables — independent oracle for hiten's packed polynomial kernels.

A polynomial is a plain dict ``{(k0,k1,k2,k3,k4,k5): coeff}``; the exponent tuple follows the library's variable
order ``(q1, q2, q3, p1, p2, p3)`` (base.py / algebra.py docstrings), canonical pairs are (q_m, p_m) = (x_m, x_{m+3}).
Coefficients are exact: Python ``int``, ``fractions.Fraction`` or :class:`CF` (complex number with exact rational
parts).  Nothing here imports the library; the bridge functions only read the *data* of a ``clmo`` table using the
documented bit layout (k1..k5 in five 6-bit fields, k0 = degree - sum).

API: const var add sub scale mul power diff integrate poisson evaluate subst truncate part degree mapc majorant ones
     exact (float/complex -> exact)  tofloat (exact -> float/complex)
     exps(clmo, d)  to_dict(poly_list, clmo)  from_dict(p, max_deg, psi, clmo, ...)  to_array / from_array  typed(list)
"""
from __future__ import annotations

import numbers
from fractions import Fraction

NV = 6


class CF:
    """Exact complex number re + i*im (parts: int or Fraction)."""
    __slots__ = ("re", "im")

    def __init__(self, re=0, im=0):
        self.re, self.im = re, im

    @staticmethod
    def of(x):
        return x if isinstance(x, CF) else CF(x, 0)

    def __add__(self, o):
        o = CF.of(o)
        return CF(self.re + o.re, self.im + o.im)
    __radd__ = __add__

    def __neg__(self):
        return CF(-self.re, -self.im)

    def __sub__(self, o):
        return self + (-CF.of(o))

    def __rsub__(self, o):
        return CF.of(o) + (-self)

    def __mul__(self, o):
        o = CF.of(o)
        return CF(self.re * o.re - self.im * o.im, self.re * o.im + self.im * o.re)
    __rmul__ = __mul__

    def __truediv__(self, n):  # division by an exact REAL number only
        return CF(Fraction(self.re) / n, Fraction(self.im) / n)

    def __eq__(self, o):
        o = CF.of(o)
        return self.re == o.re and self.im == o.im

    def __hash__(self):
        return hash((self.re, self.im)) if self.im != 0 else hash(self.re)

    def __complex__(self):
        return complex(float(self.re), float(self.im))

    def __repr__(self):
        return "CF(%r, %r)" % (self.re, self.im)


def abs1(c):
    """|re|+|im|: exact upper bound of the modulus (equal to it for reals)."""
    return abs(c.re) + abs(c.im) if isinstance(c, CF) else abs(c)


def exact(x):
    """float -> Fraction, complex -> CF of Fractions (binary floats convert exactly); exact types pass through."""
    if isinstance(x, (int, Fraction, CF)):
        return x
    if isinstance(x, numbers.Integral):
        return int(x)
    if isinstance(x, numbers.Real):
        return Fraction(float(x))
    z = complex(x)
    return CF(Fraction(z.real), Fraction(z.imag))


def tofloat(c, cplx=False):
    """Correctly rounded double (parts separately for CF)."""
    if isinstance(c, CF):
        return complex(float(Fraction(c.re)), float(Fraction(c.im)))
    return complex(float(Fraction(c)), 0.0) if cplx else float(Fraction(c))


# ------------------------------------------------------------------ algebra
def _put(r, k, c):
    s = r.get(k, 0) + c
    if s == 0:
        r.pop(k, None)
    else:
        r[k] = s


def clean(p):
    return {k: c for k, c in p.items() if not c == 0}


def const(c):
    return clean({(0,) * NV: c})


def var(i, c=1):
    return clean({tuple(1 if j == i else 0 for j in range(NV)): c})


def add(p, q):
    r = dict(p)
    for k, c in q.items():
        _put(r, k, c)
    return r


def scale(p, a):
    return clean({k: a * c for k, c in p.items()})


def sub(p, q):
    return add(p, scale(q, -1))


def mul(p, q, max_deg=None):
    """Product; with max_deg the exact product truncated at total degree max_deg."""
    r = {}
    for k1, c1 in p.items():
        d1 = sum(k1)
        for k2, c2 in q.items():
            if max_deg is not None and d1 + sum(k2) > max_deg:
                continue
            _put(r, tuple(a + b for a, b in zip(k1, k2)), c1 * c2)
    return r


def power(p, n, max_deg=None):
    r = const(1)
    for _ in range(n):
        r = mul(r, p, max_deg)
    return r


def diff(p, i):
    r = {}
    for k, c in p.items():
        if k[i] > 0:
            _put(r, k[:i] + (k[i] - 1,) + k[i + 1:], c * k[i])
    return r


def integrate(p, i):
    """Antiderivative in x_i with zero integration constant."""
    r = {}
    for k, c in p.items():
        n = k[i] + 1
        _put(r, k[:i] + (n,) + k[i + 1:], c / n if isinstance(c, CF) else Fraction(c) / n)
    return r


def poisson(p, q, sign=-1):
    """{p,q} = sum_m dp/dq_m dq/dp_m - dp/dp_m dq/dq_m.  sign=+1 adds both halves (majorant of the term sums)."""
    r = {}
    for m in range(3):
        r = add(r, mul(diff(p, m), diff(q, m + 3)))
        r = add(r, scale(mul(diff(p, m + 3), diff(q, m)), sign))
    return r


def evaluate(p, x):
    tot = 0
    for k, c in p.items():
        t = c
        for xi, e in zip(x, k):
            if e:
                t = t * xi ** e if not isinstance(xi, CF) else t * _cpow(xi, e)
        tot = tot + t
    return tot


def _cpow(z, e):
    r = CF(1, 0)
    for _ in range(e):
        r = r * z
    return r


def subst(p, C, shifts=None, max_deg=None):
    """p(x) with x_i = sum_j C[i][j] y_j + shifts[i], as a polynomial in y (truncated at max_deg if given)."""
    L = []
    for i in range(NV):
        li = {}
        for j in range(NV):
            li = add(li, var(j, C[i][j]))
        if shifts is not None:
            li = add(li, const(shifts[i]))
        L.append(li)
    cache = {}
    r = {}
    for k, c in p.items():
        t = const(c)
        for i in range(NV):
            if k[i]:
                if (i, k[i]) not in cache:
                    cache[(i, k[i])] = power(L[i], k[i], max_deg)
                t = mul(t, cache[(i, k[i])], max_deg)
        r = add(r, t)
    return r


def truncate(p, n):
    return {k: c for k, c in p.items() if sum(k) <= n}


def part(p, d):
    """Homogeneous part of degree d."""
    return {k: c for k, c in p.items() if sum(k) == d}


def degree(p):
    return max((sum(k) for k in p), default=-1)


def mapc(p, f):
    return clean({k: f(c) for k, c in p.items()})


def majorant(p):
    """Coefficients replaced by |re|+|im| >= |c|: running the same operation on majorants bounds sum|terms| per slot."""
    return mapc(p, abs1)


def ones(p):
    """Coefficients replaced by 1: running the same operation on these counts the terms summed into each slot."""
    return {k: 1 for k in p}


# ------------------------------------------------------------------ bridge to the packed layout
_EXPS = {}
_POS = {}


def exps(clmo, d):
    """(n,6) int64 array: exponents of every slot of degree d, unpacked from the table data (documented layout)."""
    import numpy as np
    key = (id(clmo), d)
    hit = _EXPS.get(key)
    if hit is None or hit[0] is not clmo:
        a = np.asarray(clmo[d]).astype(np.int64)
        E = np.empty((a.shape[0], NV), dtype=np.int64)
        for j in range(1, NV):
            E[:, j] = (a >> (6 * (j - 1))) & 0x3F
        E[:, 0] = d - E[:, 1:].sum(axis=1)
        _EXPS[key] = hit = (clmo, E)
    return hit[1]


def positions(clmo, d):
    """{exponent tuple: slot} for degree d (own inverse of the table; not the library's encode dict)."""
    key = (id(clmo), d)
    hit = _POS.get(key)
    if hit is None or hit[0] is not clmo:
        _POS[key] = hit = (clmo, {tuple(int(v) for v in row): i for i, row in enumerate(exps(clmo, d))})
    return hit[1]


def from_array(arr, d, clmo):
    """Dense coefficient array of one homogeneous degree -> exact dict."""
    import numpy as np
    arr = np.asarray(arr)
    E = exps(clmo, d)
    cplx = np.iscomplexobj(arr)
    out = {}
    for i in np.flatnonzero(arr):
        v = arr[i]
        out[tuple(int(e) for e in E[i])] = CF(Fraction(float(v.real)), Fraction(float(v.imag))) if cplx else Fraction(float(v))
    return out


def to_dict(poly_list, clmo):
    """List of homogeneous blocks (index = degree) -> exact dict."""
    out = {}
    for d in range(len(poly_list)):
        out.update(from_array(poly_list[d], d, clmo))
    return out


def to_array(p, d, psi, clmo, dtype=complex):
    """Homogeneous exact dict (all keys of degree d) -> dense array (each part correctly rounded)."""
    import numpy as np
    arr = np.zeros(int(psi[NV, d]), dtype=dtype)
    pos = positions(clmo, d)
    cplx = np.iscomplexobj(arr)
    for k, c in p.items():
        if sum(k) != d:
            raise ValueError("term %r is not of degree %d" % (k, d))
        v = tofloat(c, cplx)
        if not cplx and isinstance(v, complex):
            raise ValueError("complex coefficient for a real array")
        arr[pos[k]] = v
    return arr


def from_dict(p, max_deg, psi, clmo, encode_dict_list=None, dtype=complex):
    """Exact dict -> python list of dense blocks for degrees 0..max_deg (terms above max_deg are an error)."""
    if degree(p) > max_deg:
        raise ValueError("polynomial degree exceeds max_deg; truncate first")
    return [to_array(part(p, d), d, psi, clmo, dtype) for d in range(max_deg + 1)]


def typed(blocks):
    """python list of arrays -> numba typed List (what the list-level kernels take)."""
    from numba.typed import List
    out = List()
    for b in blocks:
        out.append(b)
    return out
