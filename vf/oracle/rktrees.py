"""Rooted trees, Butcher order conditions and the probe forest (oracle for C02).

A tree is a sorted tuple of its child sub-trees; the single vertex is ().
order(t) = number of vertices, gamma(t) = order(t) * prod gamma(children).
For an explicit RK tableau (A, b):  Phi(t) = sum_i b_i * prod_children (A Phi(child))_i,
and the method has order p iff Phi(t) == 1/gamma(t) for every tree with order(t) <= p.

Probe system (Butcher): one component per vertex, y_v' = prod_{c child of v} y_c
(leaf: 1), y(0) = 0.  The exact flow gives y_root(h) = h^|t| / gamma(t) and ONE
explicit RK step of size h from 0 returns exactly h^|t| * Phi(t) in the root
component, so pushing the forest through the real stepping code measures the
elementary weights the code actually applies.
"""
from __future__ import annotations

from fractions import Fraction
from functools import lru_cache
from itertools import combinations_with_replacement

import numpy as np


@lru_cache(maxsize=None)
def trees(n):
    """All rooted trees with n vertices (canonical form)."""
    if n == 1:
        return ((),)
    out = set()
    # multiset of children whose orders sum to n-1
    def parts(total, maxpart):
        if total == 0:
            yield ()
            return
        for k in range(min(total, maxpart), 0, -1):
            for rest in parts(total - k, k):
                yield (k,) + rest
    for p in parts(n - 1, n - 1):
        # choose trees for each part size; group equal sizes with multiset choice
        groups = {}
        for k in p:
            groups[k] = groups.get(k, 0) + 1
        choices = [list(combinations_with_replacement(trees(k), m)) for k, m in groups.items()]

        def rec(i, acc):
            if i == len(choices):
                out.add(tuple(sorted(acc)))
                return
            for c in choices[i]:
                rec(i + 1, acc + list(c))
        rec(0, [])
    return tuple(sorted(out))


def order(t):
    return 1 + sum(order(c) for c in t)


def gamma(t):
    g = order(t)
    for c in t:
        g *= gamma(c)
    return g


def phi_vec(t, A):
    """Vector Phi_i(t) (stage weights), floats."""
    s = A.shape[0]
    v = np.ones(s)
    for c in t:
        v = v * (A @ phi_vec(c, A))
    return v


def elementary_weight(t, A, b):
    return float(b @ phi_vec(t, A))


def weight_scale(t, A, b):
    """sum |b_i| prod |..| : magnitude of the terms (rounding scale)."""
    return float(np.abs(b) @ phi_vec(t, np.abs(A)))


def forest(maxorder):
    """Stack all trees of order <= maxorder into one system.
    Returns (parent array, list of (tree, root index, order, gamma))."""
    parent = []
    roots = []

    def add(t, par):
        idx = len(parent)
        parent.append(par)
        for c in t:
            add(c, idx)
        return idx
    for n in range(1, maxorder + 1):
        for t in trees(n):
            r = add(t, -1)
            roots.append((t, r, n, gamma(t)))
    return np.array(parent, dtype=np.int64), roots


def exact_weights_fraction(t, A, b):
    """Exact rational elementary weight for a rational tableau (lists of Fractions)."""
    s = len(b)

    def pv(tt):
        v = [Fraction(1)] * s
        for c in tt:
            w = pv(c)
            Aw = [sum((A[i][j] * w[j] for j in range(s)), Fraction(0)) for i in range(s)]
            v = [v[i] * Aw[i] for i in range(s)]
        return v
    v = pv(t)
    return sum((b[i] * v[i] for i in range(s)), Fraction(0))


def selftest():
    counts = [len(trees(n)) for n in range(1, 9)]
    assert counts == [1, 1, 2, 4, 9, 20, 48, 115], counts
    # classical RK4 has order 4 exactly and fails at order 5
    A = np.array([[0, 0, 0, 0], [.5, 0, 0, 0], [0, .5, 0, 0], [0, 0, 1, 0]], float)
    b = np.array([1 / 6, 1 / 3, 1 / 3, 1 / 6])
    for n in range(1, 5):
        for t in trees(n):
            assert abs(elementary_weight(t, A, b) - 1 / gamma(t)) < 1e-15
    assert max(abs(elementary_weight(t, A, b) - 1 / gamma(t)) for t in trees(5)) > 1e-3
    # sum over trees of order n of  n!/(gamma*sigma) ... spot check gamma of the tall tree and the bushy tree
    tall = ((((),),),)
    assert gamma(tall) == 24 and gamma(((), (), ())) == 4
