"""C12 oracle: Floquet directions of a periodic CR3BP orbit, independent of hiten.

Built only on vf.oracle.cr3bp (SymPy-derived field / Jacobian, SciPy DOP853 at 1e-13).  Given the orbit's
(x0, T, mu) as *data*, OrbitRef provides

* the orbit x(t) = phi_t(x0) and the state-transition matrix Phi(0->t) = D phi_t(x0) as dense solutions on
  t in [-1.02 T, 1.02 T] (the orbit is only periodic up to the corrector's tolerance, so t and t -+ T are
  different, equally legitimate "points of the orbit");
* candidates(s): the local minimisers t of |x(t) - s| (coarse grid + bounded Brent on the dense solution);
* floquet(xb, stable): the stable (unstable) Floquet direction AT the point xb as the dominant eigenvector of
  D phi_{-T}(xb) (resp. D phi_{+T}(xb)) obtained by integrating the variational equations over one period
  starting at xb.  Taking the dominant eigenvector of the backward map for the stable direction avoids the
  ill-conditioned "small eigenvalue of a matrix of norm 1e3" computation; no STM history is re-used;
* decompose(s, t, stable): iterates  s - x(t) = alpha f(x(t)) + beta v(t)  (least squares), t <- t + alpha, with
  everything recomputed exactly at the new base point, so that the phase ambiguity of "the closest point" is
  removed to second order; returns sine of the angle between s - x(t) and span{f, v}, beta, conditioning data;
* orientation of v(t) by continuity in t from a fixed reference orientation at x0, transported in the
  well-conditioned time direction (backward for the stable, forward for the unstable direction).
"""
from __future__ import annotations

import numpy as np
from scipy.integrate import solve_ivp
from scipy.optimize import minimize_scalar

from . import cr3bp as O

RTOL = 1e-13


def _dominant(B):
    """(lambda, unit eigenvector, ratio to the next modulus, relative imaginary part) of the dominant eigenpair."""
    w, V = np.linalg.eig(B)
    order = np.argsort(-np.abs(w))
    k = order[0]
    lam = w[k]
    v = V[:, k]
    # rotate the (possibly complex-scaled) eigenvector so that its largest component is real
    j = int(np.argmax(np.abs(v)))
    v = v / (v[j] / abs(v[j]))
    imag = float(np.linalg.norm(v.imag) / np.linalg.norm(v)) + abs(lam.imag) / abs(lam)
    vr = v.real / np.linalg.norm(v.real)
    return float(lam.real), vr, float(abs(w[order[0]]) / abs(w[order[1]])), imag


class OrbitRef:
    def __init__(self, x0, T, mu, ngrid=4000):
        self.x0 = np.array(x0, dtype=float)
        self.T = float(T)
        self.mu = float(mu)
        T = self.T
        w0 = np.concatenate([self.x0, np.eye(6).ravel()])
        kw = dict(method="DOP853", rtol=RTOL, atol=RTOL, args=(self.mu,), dense_output=True)
        self._F = solve_ivp(O._rhs_var, (0.0, 1.02 * T), w0, **kw)
        self._B = solve_ivp(O._rhs_var, (0.0, -1.02 * T), w0, **kw)
        if not (self._F.success and self._B.success):
            raise RuntimeError("reference orbit integration failed")
        xT, M = O.flow_stm(self.x0, T, self.mu)
        _, Mi = O.flow_stm(self.x0, -T, self.mu)
        self.M = M
        self.closure = float(np.linalg.norm(xT - self.x0))
        self.normM = float(np.linalg.norm(M, 2))
        self.eigs = np.linalg.eigvals(M)
        lu, vu, gap_u, im_u = _dominant(M)
        li, vs, gap_s, im_s = _dominant(Mi)
        self.lam_u = lu
        self.lam_s = 1.0 / li
        self.vref = {False: self._fix(vu), True: self._fix(vs)}
        self.gap = min(gap_u, gap_s)
        self.imag = max(im_u, im_s)
        # coarse grid for the closest-point search
        self._ts = np.linspace(-1.01 * T, 1.01 * T, ngrid + 1)
        self._h = float(self._ts[1] - self._ts[0])
        neg = self._ts < 0
        G = np.empty((self._ts.size, 6))
        G[neg] = self._B.sol(self._ts[neg])[:6].T
        G[~neg] = self._F.sol(self._ts[~neg])[:6].T
        self._grid = G
        self.fmax = float(max(np.linalg.norm(O.field(G[k], self.mu)) for k in range(0, G.shape[0], 50)))

    @staticmethod
    def _fix(v):
        j = int(np.argmax(np.abs(v)))
        return v if v[j] > 0 else -v

    # ------------------------------------------------------------ domain
    def domain(self, margin=1e-3):
        """None when the orbit has exactly one real multiplier pair off the unit circle (|lambda| > 1 + margin),
        positive multipliers, simple dominant eigenvalues; otherwise a short reason."""
        w = self.eigs
        big = [z for z in w if abs(z) > 1.0 + margin]
        if len(big) != 1:
            return "multipliers-outside-unit-circle=%d" % len(big)
        if abs(big[0].imag) > 1e-9 * abs(big[0]) or self.imag > 1e-7:
            return "complex-dominant-multiplier"
        if not (self.lam_u > 0 and self.lam_s > 0):
            return "negative-multiplier"
        if self.gap < 1.0 + margin:
            return "dominant-multiplier-not-simple"
        if abs(self.lam_u * self.lam_s - 1.0) > 1e-4:
            return "multipliers-not-reciprocal(orbit not periodic enough)"
        return None

    # ------------------------------------------------------------ dense accessors
    def W(self, t):
        w = (self._F if t >= 0 else self._B).sol(float(t))
        return w[:6].copy(), w[6:].reshape(6, 6).copy()

    def X(self, t):
        return (self._F if t >= 0 else self._B).sol(float(t))[:6]

    def point(self, t):
        """x(t) by a direct (non-dense) integration from x0."""
        return O.flow(self.x0, float(t), self.mu, rtol=RTOL, atol=RTOL) if t != 0 else self.x0.copy()

    def growth(self, t):
        return max(1.0, float(np.linalg.norm(self.W(t)[1], 2)))

    def _wrap(self, t, stable):
        """Time equivalent to t (mod T) from which the Floquet vector is transported in its growing direction."""
        if stable:
            return t if t <= 0 else t - self.T
        return t if t >= 0 else t + self.T

    def transported(self, t, stable):
        """Phi(0 -> tau) vref with tau = t (mod T) chosen in the well-conditioned direction (orientation reference;
        valid because the multipliers are positive)."""
        tau = self._wrap(t, stable)
        return self.W(tau)[1] @ self.vref[stable]

    def rho(self, t, stable):
        """||Phi(0->t)||_2 / ||Phi(0->t) vref||: amplification, relative to the transported Floquet vector itself, of
        an error committed in that vector at x0 when it is transported to time t."""
        tau = self._wrap(t, stable)
        n = float(np.linalg.norm(self.W(tau)[1] @ self.vref[stable]))
        if tau != t:   # Phi(0->t) v = lambda^{+-1} Phi(0->tau) v by periodicity
            n *= (self.lam_s if stable else 1.0 / self.lam_u)
        return max(1.0, float(np.linalg.norm(self.W(t)[1], 2)) / max(n, 1e-300))

    # ------------------------------------------------------------ closest points
    def candidates(self, s, keep=3):
        s = np.asarray(s, dtype=float)
        d = np.linalg.norm(self._grid - s[None, :], axis=1)
        n = d.size
        idx = [k for k in range(n) if (k == 0 or d[k] <= d[k - 1]) and (k == n - 1 or d[k] < d[k + 1])]
        dmin = float(d.min())
        idx = [k for k in idx if d[k] <= dmin + 2.0 * self._h * self.fmax]
        out = []
        for k in idx:
            lo = self._ts[max(k - 1, 0)]
            hi = self._ts[min(k + 1, n - 1)]
            r = minimize_scalar(lambda t: float(np.sum((self.X(t) - s) ** 2)), bounds=(lo, hi), method="bounded",
                                options={"xatol": 1e-12})
            out.append((float(np.sqrt(max(r.fun, 0.0))), float(r.x)))
        out.sort()
        return out[:keep]

    # ------------------------------------------------------------ Floquet direction at a point
    def floquet(self, xb, stable):
        _, B = O.flow_stm(xb, -self.T if stable else self.T, self.mu, rtol=RTOL, atol=RTOL)
        lam, v, gap, imag = _dominant(B)
        return (1.0 / lam if stable else lam), v, gap, imag

    def decompose(self, s, t, stable, iters=3):
        s = np.asarray(s, dtype=float)
        out = None
        for it in range(iters):
            xb = self.point(t)
            f = O.field(xb, self.mu)
            lam, v, gap, imag = self.floquet(xb, stable)
            w = self.transported(t, stable)
            cosw = float(v @ w) / max(float(np.linalg.norm(w)), 1e-300)
            if cosw < 0:
                v = -v
            e = s - xb
            nf = float(np.linalg.norm(f))
            A = np.column_stack([f / nf, v])
            c, _, _, sv = np.linalg.lstsq(A, e, rcond=None)
            r = e - A @ c
            ne = float(np.linalg.norm(e))
            alpha = float(c[0]) / nf          # time shift that removes the along-flow component
            nDf = float(np.linalg.norm(O.jacobian(xb, self.mu), 2))
            out = {"t": float(t), "xb": xb, "e": e, "ne": ne, "alpha": alpha, "beta": float(c[1]), "v": v, "f": f,
                   "sine": float(np.linalg.norm(r)) / max(ne, 1e-300), "sigma_min": float(sv[-1]), "lam": lam,
                   "orient_cos": abs(cosw), "normDf": nDf, "gap": gap, "imag": imag, "iters": it + 1,
                   "pos_norm": abs(float(c[1])) * float(np.linalg.norm(v[:3]))}
            # Stopping early is always sound: the caller's tolerance contains 2*|alpha|*|Df| for the phase shift that
            # was not applied.  A displacement 17 degrees or more off the plane cannot be rescued by an O(d) shift.
            if abs(alpha) * nDf <= 1e-7 or it == iters - 1 or out["sine"] > 0.3:
                break
            t = t + alpha
            if abs(t) > 1.015 * self.T:
                break
        return out


def selftest():
    """Hand-checkable facts (raises AssertionError): on a numerically periodic Earth-Moon L1 planar Lyapunov orbit
    obtained by the oracle's own differential correction, (i) seeds built from the oracle's own Floquet vectors at an
    arbitrary phase decompose with sine ~ 0 and beta = d, (ii) the unstable vector grows and the stable vector decays
    under the oracle's linearised flow, (iii) a seed along the *other* direction is rejected."""
    mu = 0.0121505856
    x0 = np.array([0.8263, 0.0, 0.0, 0.0, 0.09674, 0.0])
    # own Newton on (y, vx) = 0 at the second crossing: unknowns (vy, half period)
    th = 1.3605
    for _ in range(12):
        xh, P = O.flow_stm(x0, th, mu)
        fh = O.field(xh, mu)
        J = np.array([[P[1, 4], fh[1]], [P[3, 4], fh[3]]])
        dv, dt = np.linalg.solve(J, -np.array([xh[1], xh[3]]))
        x0[4] += dv
        th += dt
        if abs(dv) + abs(dt) < 1e-13:
            break
    T = 2 * th
    ref = OrbitRef(x0, T, mu, ngrid=1000)
    assert ref.closure < 1e-8, ref.closure
    assert ref.domain() is None, ref.domain()
    assert ref.lam_u > 100 and 0 < ref.lam_s < 1e-2
    t = 0.37 * T
    xb = ref.point(t)
    for stable in (True, False):
        lam, v, gap, imag = ref.floquet(xb, stable)
        # (ii) growth / decay under the linearised flow over one period from xb
        _, Mb = O.flow_stm(xb, T, mu)
        g = np.linalg.norm(Mb @ v)
        assert (g < 1e-2) if stable else (g > 100), (stable, g)
        d = 1e-6
        s = xb + d * v / np.linalg.norm(v[:3])
        c = ref.candidates(s)
        assert c and (abs(c[0][1] - t) < 1e-4 * T or abs(abs(c[0][1] - t) - T) < 1e-4 * T), c
        r = ref.decompose(s, c[0][1], stable)
        assert r["sine"] < 1e-5 and abs(r["pos_norm"] / d - 1) < 1e-4, (stable, r["sine"], r["pos_norm"])
        # (iii) the wrong direction is seen as wrong
        r2 = ref.decompose(s, c[0][1], not stable)
        assert r2["sine"] > 0.05, r2["sine"]
