"""Exact planar segment geometry in rational arithmetic (oracle for C19)."""
from fractions import Fraction as F


def _f(x):
    return F(x)  # floats convert exactly


def _orient(ax, ay, bx, by, cx, cy):
    return (bx - ax) * (cy - ay) - (by - ay) * (cx - ax)


def _sgn(x):
    return (x > 0) - (x < 0)


def _on_seg(ax, ay, bx, by, px, py):
    return min(ax, bx) <= px <= max(ax, bx) and min(ay, by) <= py <= max(ay, by)


def segments_intersect(a0, a1, b0, b1):
    ax, ay = a0; bx, by = a1; cx, cy = b0; dx, dy = b1
    o1 = _sgn(_orient(ax, ay, bx, by, cx, cy))
    o2 = _sgn(_orient(ax, ay, bx, by, dx, dy))
    o3 = _sgn(_orient(cx, cy, dx, dy, ax, ay))
    o4 = _sgn(_orient(cx, cy, dx, dy, bx, by))
    if o1 != o2 and o3 != o4:
        return True
    if o1 == 0 and _on_seg(ax, ay, bx, by, cx, cy):
        return True
    if o2 == 0 and _on_seg(ax, ay, bx, by, dx, dy):
        return True
    if o3 == 0 and _on_seg(cx, cy, dx, dy, ax, ay):
        return True
    if o4 == 0 and _on_seg(cx, cy, dx, dy, bx, by):
        return True
    return False


def point_seg_dist2(p, a, b):
    px, py = p; ax, ay = a; bx, by = b
    ux, uy = bx - ax, by - ay
    L = ux * ux + uy * uy
    if L == 0:
        t = F(0)
    else:
        t = ((px - ax) * ux + (py - ay) * uy) / L
        t = min(max(t, F(0)), F(1))
    qx, qy = ax + t * ux, ay + t * uy
    return (px - qx) ** 2 + (py - qy) ** 2


def seg_seg_dist2(a0, a1, b0, b1):
    """Exact squared distance between closed segments (points as float pairs)."""
    a0 = (_f(a0[0]), _f(a0[1])); a1 = (_f(a1[0]), _f(a1[1]))
    b0 = (_f(b0[0]), _f(b0[1])); b1 = (_f(b1[0]), _f(b1[1]))
    if segments_intersect(a0, a1, b0, b1):
        return F(0)
    return min(point_seg_dist2(a0, b0, b1), point_seg_dist2(a1, b0, b1),
               point_seg_dist2(b0, a0, a1), point_seg_dist2(b1, a0, a1))


def classify(a0, a1, b0, b1):
    ux, uy = _f(a1[0]) - _f(a0[0]), _f(a1[1]) - _f(a0[1])
    vx, vy = _f(b1[0]) - _f(b0[0]), _f(b1[1]) - _f(b0[1])
    A = ux * ux + uy * uy
    C = vx * vx + vy * vy
    if A == 0 and C == 0:
        return "both-zero-length"
    if A == 0 or C == 0:
        return "zero-length"
    cr = ux * vy - uy * vx
    if cr == 0:
        wx, wy = _f(b0[0]) - _f(a0[0]), _f(b0[1]) - _f(a0[1])
        if ux * wy - uy * wx == 0:
            return "collinear"
        return "parallel"
    if cr * cr < F(1, 10 ** 16) * A * C:
        return "near-parallel"
    return "generic"


def dist_tol(a0, a1, b0, b1, scale):
    """Tolerance on the distance between returned closest points.

    For segments at angle th the parameter of the closest point is known to
    eps/sin(th)^2, i.e. the distance to ~ L*min(sin th, eps/sin th) <= L*sqrt(eps);
    outside the near-parallel band 1e-9*scale is ample."""
    ux, uy = a1[0] - a0[0], a1[1] - a0[1]
    vx, vy = b1[0] - b0[0], b1[1] - b0[1]
    A = ux * ux + uy * uy
    C = vx * vx + vy * vy
    if A == 0.0 or C == 0.0:
        return 1e-9 * scale
    cr = ux * vy - uy * vx
    if cr * cr >= 1e-10 * A * C:
        return 1e-9 * scale
    return 3e-7 * scale
