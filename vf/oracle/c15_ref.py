"""C15 reference detector (independent of hiten).

Written from the property statement and the library's *documented* rules:

* section function g(x) = n.x - c (``_AffinePlaneEvent``);
* a segment [k, k+1] is a crossing iff ``_SurfaceEvent.is_crossing`` holds for
  (g_k, g_{k+1}): None: g_k*g_{k+1} <= 0 and g_k != g_{k+1}; +1: g_k < 0 <= g_{k+1};
  -1: g_k > 0 >= g_{k+1};
* a sample with |g_k| < tol_on_surface is "on the surface"; direction None
  reports every such sample (``_on_surface_indices``: "all on-surface points
  are included"), a direction filter keeps "only points with the appropriate
  sign change";
* segments whose left sample is a reported on-surface sample are excluded
  from the crossing search "to avoid duplicate crossings";
* hits are time ordered, deduplicated by a time and a plane-point tolerance,
  truncated at max_hits_per_traj.

Where the statement / docs leave a choice (which on-surface samples a
direction filter keeps at tangencies and in runs of zeros, whether a crossing
that ends on an on-surface sample is reported in addition to that sample,
which neighbour the dedup compares with, what the cubic interpolant does in a
non-monotone segment) the reference produces *optional* events, and the
matcher accepts every explanation of the reported hits that uses each event at
most once, in order, uses every *required* event unless the documented dedup /
truncation could have removed it, and leaves no hit unexplained.
"""
from __future__ import annotations

import math
from fractions import Fraction as F

EPS = 2.0 ** -52


# --------------------------------------------------------------------------- exact section values
def exact_g(normal, offset, states):
    """Exact rational g_k = n.x_k - c for every sample, plus per-sample
    (a) `any-order exact` flag: every partial sum of the products in any order
    (also with FMA) is exactly representable, so a float dot product returns the
    exact value, and (b) an any-order rounding bound 8*eps*(sum|n_j x_j| + |c|)."""
    nf = [F(float(v)) for v in normal]
    cf = F(float(offset))
    gs, exact, rb, mag = [], [], [], []
    for row in states:
        terms = [nf[j] * F(float(row[j])) for j in range(6) if nf[j] != 0]
        S = sum((abs(x) for x in terms), abs(cf))
        g = sum(terms, -cf)
        q = max([x.denominator for x in terms] + [cf.denominator])
        ok = S * q < 2 ** 53
        gs.append(g)
        exact.append(ok)
        mag.append(float(S))
        rb.append(0.0 if ok else 8.0 * EPS * float(S))
    return gs, exact, rb, mag


def residual(normal, offset, state):
    """|n.state - c| evaluated exactly on the reported floats."""
    r = -F(float(offset))
    for j in range(6):
        if normal[j] != 0:
            r += F(float(normal[j])) * F(float(state[j]))
    return abs(float(r))


# --------------------------------------------------------------------------- events
class Ev(object):
    __slots__ = ("kind", "seg", "lo", "hi", "req", "partner", "alt_ok", "tref", "pref", "prad", "tag")

    def __init__(self, kind, seg, lo, hi, req, tag, partner=None, alt_ok=False, tref=None, pref=None, prad=0.0):
        self.kind = kind      # "on" (sample seg), "x" (crossing in segment seg), "sub" (sub-interval of a wild cubic segment)
        self.seg = seg
        self.lo = lo
        self.hi = hi
        self.req = req
        self.tag = tag
        self.partner = partner
        self.alt_ok = alt_ok
        self.tref = tref
        self.pref = pref
        self.prad = prad


def is_cross(d, a, b):
    """Documented `_SurfaceEvent.is_crossing` (sign logic, no products)."""
    if d is None:
        return a != b and ((a <= 0.0 <= b) or (b <= 0.0 <= a))
    if d == 1:
        return a < 0.0 <= b
    return a > 0.0 >= b


def slopes(t, v, k):
    """Documented derivative estimate for segment k: central differences where a
    neighbour exists, the segment secant otherwise."""
    N = len(t)
    sec = (v[k + 1] - v[k]) / (t[k + 1] - t[k])
    d0 = (v[k + 1] - v[k - 1]) / (t[k + 1] - t[k - 1]) if k >= 1 else sec
    d1 = (v[k + 2] - v[k]) / (t[k + 2] - t[k]) if k + 2 < N else sec
    return d0, d1, sec


def on_status(g, on, d):
    """must / may / forbid for every on-surface sample (None otherwise)."""
    N = len(g)
    st = [None] * N
    for k in range(N):
        if not on[k]:
            continue
        if k == N - 1:
            st[k] = "may"          # the last sample is never the left end of a segment: not documented either way
            continue
        if d is None:
            st[k] = "must"         # "If None, all on-surface points are included"
            continue
        b = d * g[k + 1]
        a = d * g[k - 1] if k >= 1 else None
        if b < 0 and (a is None or a > 0):
            st[k] = "forbid"       # strictly the wrong passage: "only points with the appropriate sign change"
        elif a is not None and a < 0 and b > 0 and not on[k - 1] and not on[k + 1]:
            st[k] = "must"         # isolated on-surface sample inside a compatible sign change
        else:
            st[k] = "may"          # tangency / run of on-surface samples / boundary: not pinned down by the docs
    return st


def build_events(t, g, on, P, cfg):
    """t, g: floats (g exact); on: bool list; P: list of 2-D projected sample points.
    cfg: dict(direction, refine, cubic, st) -> (events, passages, info)."""
    d = cfg["direction"]
    r = int(cfg["refine"])
    cubic = bool(cfg["cubic"])
    N = len(g)
    ev = []
    info = set()
    status = on_status(g, on, d)
    step = 1.0 / (r + 1) if r > 0 else 1.0

    def chord_len(k):
        return math.hypot(P[k + 1][0] - P[k][0], P[k + 1][1] - P[k][1])

    def overshoot(k):
        if not cubic or k < 1 or k + 2 >= N:
            return 0.0
        dt = t[k + 1] - t[k]
        tot = 0.0
        for c in (0, 1):
            d0, d1, sec = slopes(t, [p[c] for p in P], k)
            tot += (4.0 / 27.0) * dt * (abs(d0 - sec) + abs(d1 - sec))
        return tot

    for k in range(N - 1):
        dt = t[k + 1] - t[k]
        left = status[k]
        on_idx = None
        if left in ("must", "may"):
            on_idx = len(ev)
            ev.append(Ev("on", k, t[k], t[k], left == "must", "on-" + left, tref=t[k], pref=P[k]))
            info.add("on-surface-" + left)
        elif left == "forbid":
            info.add("on-surface-forbidden")
        cr = is_cross(d, g[k], g[k + 1])
        right_on = on[k + 1]
        last = (k + 1 == N - 1)
        R = (not right_on) or last
        tag = "strict" if (not on[k] and not right_on) else ("into-last-sample" if (right_on and last) else ("into-on-sample" if right_on else "from-on-sample"))
        sstar = None
        if cr:
            sstar = g[k] / (g[k] - g[k + 1])
            sstar = min(1.0, max(0.0, sstar))

        def xevent(req, partner, alt_ok, lo=None):
            if cubic:
                e = Ev("x", k, t[k] if lo is None else lo, t[k + 1], req, tag, partner, alt_ok,
                       tref=None, pref=P[k], prad=chord_len(k) + overshoot(k))
                twin = r > 0
            else:
                tr = t[k] + sstar * dt
                pr = (P[k][0] + sstar * (P[k + 1][0] - P[k][0]), P[k][1] + sstar * (P[k + 1][1] - P[k][1]))
                e = Ev("x", k, t[k], t[k + 1], req, tag, partner, alt_ok, tref=tr, pref=pr)
                xb = sstar * (r + 1)
                twin = r > 0 and abs(xb - round(xb)) <= 1e-9 and 0 < round(xb) < r + 1
            ev.append(e)
            info.add("cross-" + tag)
            if twin and cfg.get("twin"):
                # root on a sub-interval boundary is seen from both sides; the documented dedup merges the
                # two candidates only if its time tolerance exceeds the rounding of the hit time
                ev.append(Ev("x", k, e.lo, e.hi, False, "boundary-twin", None, False, tref=e.tref, pref=e.pref, prad=e.prad))
                info.add("boundary-twin")

        wild = False
        if cubic and r > 0:
            # the sub-sampled interpolant decides; strict only where it is provably monotone
            if on[k] or right_on:
                wild = True
            else:
                d0, d1, sec = slopes(t, g, k)
                D = g[k + 1] - g[k]
                if D == 0.0:
                    mono_lo = mono_hi = (d0 == 0.0 and d1 == 0.0)
                else:
                    a0 = d0 * dt / D
                    a1 = d1 * dt / D
                    mono_lo = (0.0 <= a0 <= 2.9 and 0.0 <= a1 <= 2.9)      # Fritsch-Carlson box: monotone
                    mono_hi = (0.05 <= a0 <= 2.5 and 0.05 <= a1 <= 2.5)    # and slope bounded away from 0
                guard = min(abs(g[k]), abs(g[k + 1])) >= 64 * EPS * max(abs(g[k]), abs(g[k + 1]), abs(d0 * dt), abs(d1 * dt))
                if cr:
                    if mono_hi:
                        xevent(True, None, False)
                    else:
                        wild = True
                else:
                    if not (mono_lo and guard):
                        wild = True
            if wild:
                info.add("wild-cubic-segment")
                m0 = 1 if left == "must" else 0
                pr = chord_len(k) + overshoot(k)
                pad = 1e-12 * dt
                for m in range(m0, r + 1):
                    ev.append(Ev("sub", k, t[k] + m * step * dt - pad, t[k] + (m + 1) * step * dt + pad, False, "wild",
                                 pref=P[k], prad=pr))
        elif r > 0:
            # linear interpolant, sub-sampled: same crossings; only the first sub-interval of an
            # accepted on-surface segment is skipped
            if cr:
                late = sstar >= step * (1.0 - 1e-9)
                if left == "must":
                    if late:
                        xevent(False, None, False)
                elif left == "may":
                    xevent(R, on_idx, late)
                else:
                    xevent(R, None, False)
        else:
            if cr:
                if left == "must":
                    pass          # excluded "to avoid duplicate crossings"
                elif left == "may":
                    xevent(R, on_idx, False)
                else:
                    xevent(R, None, False)
    if N >= 1 and status[N - 1] is not None and N >= 2:
        ev.append(Ev("on", N - 1, t[N - 1], t[N - 1], False, "on-last", tref=t[N - 1], pref=P[N - 1]))

    # passages: consecutive off-surface samples of opposite sign (on-surface samples in between)
    passages = []
    prev = None
    for k in range(N):
        if on[k]:
            continue
        if prev is not None:
            a, b = g[prev], g[k]
            if (a < 0 < b or b < 0 < a) and (d is None or (b > 0) == (d == 1)):
                passages.append((prev, k))
        prev = k
    return ev, passages, info


# --------------------------------------------------------------------------- closeness (documented dedup tolerances)
def _win_gap(lo1, hi1, lo2, hi2):
    return max(0.0, lo2 - hi1, lo1 - hi2)


def close_hit_event(ht, hp, e, dt_tol, dp_tol, st, sp):
    lo, hi = (e.tref - st, e.tref + st) if e.tref is not None else (e.lo, e.hi)
    if _win_gap(ht, ht, lo, hi) <= dt_tol + st:
        return True
    if e.pref is not None:
        if math.hypot(hp[0] - e.pref[0], hp[1] - e.pref[1]) <= dp_tol + e.prad + sp:
            return True
    return False


def close_event_event(e1, e2, dt_tol, dp_tol, st, sp):
    lo1, hi1 = (e1.tref - st, e1.tref + st) if e1.tref is not None else (e1.lo, e1.hi)
    lo2, hi2 = (e2.tref - st, e2.tref + st) if e2.tref is not None else (e2.lo, e2.hi)
    if _win_gap(lo1, hi1, lo2, hi2) <= dt_tol + st:
        return True
    if e1.pref is not None and e2.pref is not None:
        if math.hypot(e1.pref[0] - e2.pref[0], e1.pref[1] - e2.pref[1]) <= dp_tol + e1.prad + e2.prad + sp:
            return True
    return False


# --------------------------------------------------------------------------- matching
def match(hits_t, hits_p, ev, cfg):
    """Order-preserving assignment hits -> events.  Returns (assignment list | None, used_excuse: bool)."""
    n, m = len(hits_t), len(ev)
    dt_tol, dp_tol, st, sp = cfg["dt_tol"], cfg["dp_tol"], cfg["st"], cfg["sp"]
    mh = cfg["max_hits"]
    compat = [[(ev[j].lo - st <= hits_t[a] <= ev[j].hi + st) for j in range(m)] for a in range(n)]

    def skippable(j, a, pm):
        e = ev[j]
        if not e.req:
            return 1
        if e.partner is not None and pm:
            return 1
        if mh is not None and a >= mh:
            return 2
        if a >= 1 and close_hit_event(hits_t[a - 1], hits_p[a - 1], e, dt_tol, dp_tol, st, sp):
            return 2
        if j >= 1 and close_event_event(ev[j - 1], e, dt_tol, dp_tol, st, sp):
            return 2
        if e.partner is not None:
            # the on-surface sample was accepted (so this segment hosts no crossing) and then deduplicated itself
            pe = ev[e.partner]
            if a >= 1 and close_hit_event(hits_t[a - 1], hits_p[a - 1], pe, dt_tol, dp_tol, st, sp):
                return 2
            if e.partner >= 1 and close_event_event(ev[e.partner - 1], pe, dt_tol, dp_tol, st, sp):
                return 2
        return 0

    memo = {}

    def go(a, j, pm):
        """pm: was event j-1 matched?"""
        key = (a, j, pm)
        if key in memo:
            return memo[key]
        res = None
        if j == m:
            res = ([], False) if a == n else None
        else:
            e = ev[j]
            partner_matched = (e.partner is not None and e.partner == j - 1 and pm)
            if a < n and compat[a][j] and (not partner_matched or e.alt_ok):
                sub = go(a + 1, j + 1, True)
                if sub is not None:
                    res = ([j] + sub[0], sub[1])
            if res is None:
                s = skippable(j, a, partner_matched)
                if s:
                    sub = go(a, j + 1, False)
                    if sub is not None:
                        res = (sub[0], sub[1] or s == 2)
        memo[key] = res
        return res

    import sys
    need = 4 * (n + m) + 200
    if sys.getrecursionlimit() < need:
        sys.setrecursionlimit(need)
    return go(0, 0, False)


# --------------------------------------------------------------------------- textbook cubic Hermite
def hermite(s, y0, y1, m0, m1, dt):
    """Standard cubic Hermite basis (value)."""
    s2 = s * s
    s3 = s2 * s
    return (2 * s3 - 3 * s2 + 1) * y0 + (s3 - 2 * s2 + s) * dt * m0 + (-2 * s3 + 3 * s2) * y1 + (s3 - s2) * dt * m1


def pt_seg_dist(p, a, b):
    ux, uy = b[0] - a[0], b[1] - a[1]
    L = ux * ux + uy * uy
    if L <= 0.0:
        return math.hypot(p[0] - a[0], p[1] - a[1])
    lam = ((p[0] - a[0]) * ux + (p[1] - a[1]) * uy) / L
    lam = min(1.0, max(0.0, lam))
    return math.hypot(p[0] - (a[0] + lam * ux), p[1] - (a[1] + lam * uy))
