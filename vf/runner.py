"""Runner: tier/seed handling, sharding, evidence, VIOLATION / KNOWN-FINDING lines.

Usage (via ./check):  check Cxx --tier quick|thorough [--replay FILE] [--shards N]

Exit codes: 0 held on everything explored (possibly KNOWN-FINDING lines),
            1 at least one VIOLATION not listed in known_findings.json,
            2 harness error (never printed as a violation).
"""
from __future__ import annotations

import argparse
import fnmatch
import hashlib
import importlib
import json
import os
import sys
import time
import traceback
import zlib
from collections import Counter

ROOT = os.path.dirname(os.path.dirname(os.path.abspath(__file__)))
MAX_SAMPLES = 12
MAX_NT_KEYS = 2_000_000


class HarnessError(Exception):
    """Raised by property modules when the *harness* (oracle self-test,
    generator health) is broken.  Becomes exit code 2."""


def _jsonable(x):
    try:
        import numpy as np
    except Exception:  # pragma: no cover
        np = None
    if isinstance(x, dict):
        return {str(k): _jsonable(v) for k, v in x.items()}
    if isinstance(x, (list, tuple, set, frozenset)):
        return [_jsonable(v) for v in x]
    if np is not None:
        if isinstance(x, np.ndarray):
            return _jsonable(x.tolist())
        if isinstance(x, (np.integer,)):
            return int(x)
        if isinstance(x, (np.floating,)):
            return float(x)
        if isinstance(x, (np.complexfloating,)):
            return {"re": float(x.real), "im": float(x.imag)}
        if isinstance(x, np.bool_):
            return bool(x)
    if isinstance(x, complex):
        return {"re": x.real, "im": x.imag}
    if isinstance(x, float):
        if x != x or x in (float("inf"), float("-inf")):
            return repr(x)
        return x
    if isinstance(x, (int, str, bool)) or x is None:
        return x
    return repr(x)


class Ctx:
    """Per-shard collector handed to a property module."""

    def __init__(self, prop, tier, seed, shard=0, nshards=1, collecting=True):
        self.prop = prop
        self.tier = tier
        self.seed = int(seed)
        self.shard = shard
        self.nshards = nshards
        self.collecting = collecting
        self.evaluations = 0
        self.nt_keys = set()
        self.classes = Counter()
        self.samples = []
        self.verdicts = {}      # bucket -> dict(count, payload, msg)
        self.notes = []
        self.assumptions = []
        self.extra = {}
        self.exhaustive = None

    # ---- budget helpers -------------------------------------------------
    def scale(self, quick, thorough):
        return quick if self.tier == "quick" else thorough

    def share(self, total):
        """This shard's share of a total case budget."""
        base, rem = divmod(int(total), self.nshards)
        return base + (1 if self.shard < rem else 0)

    def hseed(self, label=""):
        h = zlib.crc32(("%s|%s|%d|%d" % (self.prop, label, self.seed, self.shard)).encode())
        return h & 0x7FFFFFFF

    # ---- recording ------------------------------------------------------
    def case(self, nontrivial=None, cls=None, sample=None, n=1):
        """Count one evaluated case.  `nontrivial`: hashable key if the case
        is non-trivial by the module's rule (distinct keys are counted)."""
        self.evaluations += n
        if nontrivial is not None and len(self.nt_keys) < MAX_NT_KEYS:
            self.nt_keys.add(int.from_bytes(hashlib.blake2b(repr(nontrivial).encode(), digest_size=8).digest(), "big"))
        if cls is not None:
            if isinstance(cls, (list, tuple, set)):
                for c in cls:
                    self.classes[str(c)] += 1
            else:
                self.classes[str(cls)] += 1
        if sample is not None and len(self.samples) < MAX_SAMPLES:
            self.samples.append(_jsonable(sample))
        elif sample is None and nontrivial is not None and len(self.samples) < 3:
            # guarantee that a run with non-trivial cases always shows some of them
            self.samples.append({"nontrivial_case_key": _jsonable(nontrivial)})

    def sample(self, s):
        if len(self.samples) < MAX_SAMPLES:
            self.samples.append(_jsonable(s))

    def fail(self, bucket, payload, msg=""):
        """Record a property violation verdict under a root-cause bucket."""
        v = self.verdicts.get(bucket)
        if v is None:
            self.verdicts[bucket] = {"count": 1, "payload": _jsonable(payload), "msg": str(msg)[:2000]}
        else:
            v["count"] += 1

    def note(self, s):
        self.notes.append(str(s))

    def assume(self, s):
        if s not in self.assumptions:
            self.assumptions.append(s)

    # ---- (de)serialisation for shards ------------------------------------
    def dump(self):
        return {
            "evaluations": self.evaluations,
            "nt_keys": list(self.nt_keys),
            "classes": dict(self.classes),
            "samples": self.samples,
            "verdicts": self.verdicts,
            "notes": self.notes,
            "assumptions": self.assumptions,
            "extra": _jsonable(self.extra),
            "exhaustive": self.exhaustive,
        }

    def merge(self, d):
        self.evaluations += d["evaluations"]
        self.nt_keys.update(d["nt_keys"])
        self.classes.update(d["classes"])
        for s in d["samples"]:
            if len(self.samples) < MAX_SAMPLES:
                self.samples.append(s)
        for b, v in d["verdicts"].items():
            if b in self.verdicts:
                self.verdicts[b]["count"] += v["count"]
            else:
                self.verdicts[b] = v
        self.notes.extend(d["notes"])
        for a in d["assumptions"]:
            self.assume(a)
        for k, v in d["extra"].items():
            if k in self.extra and isinstance(v, (int, float)) and isinstance(self.extra[k], (int, float)):
                self.extra[k] += v
            elif k in self.extra and isinstance(v, list) and isinstance(self.extra[k], list):
                self.extra[k].extend(v)
            elif k in self.extra and isinstance(v, dict) and isinstance(self.extra[k], dict):
                for kk, vv in v.items():
                    if kk in self.extra[k] and isinstance(vv, (int, float)):
                        self.extra[k][kk] += vv
                    else:
                        self.extra[k][kk] = vv
            else:
                self.extra[k] = v
        if d["exhaustive"] is not None:
            self.exhaustive = d["exhaustive"] if self.exhaustive is None else (self.exhaustive and d["exhaustive"])


def _shard_entry(args):
    modname, prop, tier, seed, shard, nshards, nthreads = args
    os.environ["NUMBA_NUM_THREADS"] = str(nthreads)
    os.environ.setdefault("OMP_NUM_THREADS", str(nthreads))
    try:
        mod = importlib.import_module(modname)
        ctx = Ctx(prop, tier, seed, shard, nshards)
        mod.run(ctx)
        return ("ok", ctx.dump())
    except HarnessError as e:
        return ("harness", "shard %d: %s" % (shard, e))
    except BaseException:
        return ("harness", "shard %d crashed:\n%s" % (shard, traceback.format_exc()))


def shard_replays(ctx, replay_fn):
    """For modules with REPLAY_IN_RUN = True: replay replays/<ID>/reg-*.json inside the shards
    (file k goes to shard k mod nshards) so that JIT-heavy replays run in parallel, once."""
    rdir = os.path.join(ROOT, "replays", ctx.prop)
    if not os.path.isdir(rdir):
        return
    files = sorted(f for f in os.listdir(rdir) if f.startswith("reg-") and f.endswith(".json"))
    n = 0
    for k, fn in enumerate(files):
        if k % ctx.nshards != ctx.shard:
            continue
        with open(os.path.join(rdir, fn)) as f:
            rp = json.load(f)
        replay_fn(ctx, rp["payload"])
        n += 1
    ctx.extra["regression_replays_in_shards"] = n


def load_known():
    p = os.path.join(ROOT, "known_findings.json")
    if not os.path.exists(p):
        return []
    with open(p) as f:
        return json.load(f)


def match_known(known, prop, bucket):
    for k in known:
        if k.get("property") != prop or k.get("status") != "open":
            continue
        if any(fnmatch.fnmatchcase(bucket, alt) for alt in k.get("key", "").split("|")):
            return k
    return None


def safe_name(bucket):
    return "".join(c if (c.isalnum() or c in "-_.") else "_" for c in bucket)[:120]


def write_evidence(prop, mod, ctx, tier, seed, wall, nviol, known_hits):
    cov = {
        "evaluations": int(ctx.evaluations),
        "distinct_nontrivial": int(len(ctx.nt_keys)),
        "rule": getattr(mod, "RULE", ""),
        "samples": ctx.samples[:MAX_SAMPLES],
        "classes": dict(sorted(ctx.classes.items())),
        "buckets_seen": {b: v["count"] for b, v in ctx.verdicts.items()},
        "known_findings_hit": known_hits,
        "shards": ctx.nshards,
        "notes": ctx.notes[:40],
    }
    if ctx.exhaustive is not None:
        cov["exhaustive"] = bool(ctx.exhaustive)
    for k, v in ctx.extra.items():
        if k not in cov:
            cov[k] = v
    ev = {
        "property_id": prop,
        "tier": tier,
        "seed": int(seed),
        "level": getattr(mod, "LEVEL", "exploration"),
        "coverage": cov,
        "assumptions": list(getattr(mod, "ASSUMPTIONS", [])) + ctx.assumptions,
        "wall_s": round(wall, 3),
        "violations": int(nviol),
    }
    evdir = os.environ.get("VF_EVIDENCE_DIR") or os.path.join(ROOT, "evidence")
    os.makedirs(evdir, exist_ok=True)
    path = os.path.join(evdir, prop + ".json")
    try:
        import jsonschema  # type: ignore
        sp = "/root/.vp/EVIDENCE.schema.json"
        lp = os.path.join(ROOT, "vf", "EVIDENCE.schema.json")
        sp = sp if os.path.exists(sp) else lp
        if os.path.exists(sp):
            with open(sp) as f:
                jsonschema.validate(ev, json.load(f))
    except ImportError:
        pass
    tmp = path + ".tmp"
    with open(tmp, "w") as f:
        json.dump(ev, f, indent=1, sort_keys=False)
    os.replace(tmp, path)
    return ev


def main(argv=None):
    ap = argparse.ArgumentParser()
    ap.add_argument("prop")
    ap.add_argument("--tier", default=os.environ.get("VERIF_TIER", "quick"), choices=["quick", "thorough"])
    ap.add_argument("--replay", default=None)
    ap.add_argument("--shards", type=int, default=None)
    ap.add_argument("--seed", type=int, default=None)
    a = ap.parse_args(argv)
    prop = a.prop.upper()
    seed = a.seed if a.seed is not None else int(os.environ.get("VERIF_SEED", "1") or "1")
    tier = a.tier
    modname = "vf.props." + prop.lower()
    t0 = time.time()
    known = load_known()
    try:
        mod = importlib.import_module(modname)
    except Exception:
        print("HARNESS-ERROR property=%s import failed" % prop)
        traceback.print_exc()
        return 2

    total = Ctx(prop, tier, seed, 0, 1)

    if a.replay:
        try:
            with open(a.replay) as f:
                rp = json.load(f)
            mod.replay(total, rp["payload"])
        except HarnessError as e:
            print("HARNESS-ERROR property=%s %s" % (prop, e))
            return 2
        except Exception:
            print("HARNESS-ERROR property=%s replay crashed" % prop)
            traceback.print_exc()
            return 2
        rc = 0
        for b, v in total.verdicts.items():
            k = match_known(known, prop, b)
            if k:
                print("KNOWN-FINDING: property=%s %s [%s]" % (prop, k.get("what", ""), b))
            else:
                print("VIOLATION property=%s replay=%s" % (prop, a.replay))
                print("  bucket=%s %s" % (b, v["msg"]))
                rc = 1
        if not total.verdicts:
            print("REPLAY-OK property=%s %s" % (prop, a.replay))
        return rc

    shards_cfg = getattr(mod, "SHARDS", None)
    nshards = a.shards or (shards_cfg.get(tier, 1) if isinstance(shards_cfg, dict) else 1)
    ncpu = os.cpu_count() or 1
    nthreads = getattr(mod, "NUMBA_THREADS", None)
    if isinstance(nthreads, dict):
        nthreads = nthreads.get(tier)
    if not nthreads:
        nthreads = max(1, ncpu // max(1, nshards))
    total.nshards = nshards

    harness_errors = []
    # 1. regression replays (stored shrunk inputs; plain oracle, no hypothesis)
    rdir = os.path.join(ROOT, "replays", prop)
    vdir = os.environ.get("VF_VIOL_DIR") or rdir
    nreplayed = 0
    if os.path.isdir(rdir) and hasattr(mod, "replay") and not getattr(mod, "REPLAY_IN_RUN", False):
        for fn in sorted(os.listdir(rdir)):
            if not fn.startswith("reg-") or not fn.endswith(".json"):
                continue
            try:
                with open(os.path.join(rdir, fn)) as f:
                    rp = json.load(f)
                mod.replay(total, rp["payload"])
                nreplayed += 1
            except HarnessError as e:
                harness_errors.append("replay %s: %s" % (fn, e))
            except Exception:
                harness_errors.append("replay %s crashed:\n%s" % (fn, traceback.format_exc()))
    total.extra["regression_replays"] = nreplayed

    # 2. generated search
    if nshards <= 1:
        os.environ.setdefault("NUMBA_NUM_THREADS", str(nthreads))
        try:
            total.nshards = 1
            mod.run(total)
        except HarnessError as e:
            harness_errors.append(str(e))
        except Exception:
            harness_errors.append("run crashed:\n" + traceback.format_exc())
    else:
        import multiprocessing as mp
        from concurrent.futures import ProcessPoolExecutor, as_completed
        from concurrent.futures.process import BrokenProcessPool
        mpctx = mp.get_context("spawn")
        jobs = [(modname, prop, tier, seed, i, nshards, nthreads) for i in range(nshards)]
        shard_timeout = float(os.environ.get("VF_SHARD_TIMEOUT", "7200" if tier == "quick" else "43200"))
        done_shards = set()
        ex = ProcessPoolExecutor(max_workers=min(nshards, ncpu), mp_context=mpctx)
        futs = {ex.submit(_shard_entry, j): j[4] for j in jobs}
        try:
            for fut in as_completed(futs, timeout=shard_timeout):
                sh = futs[fut]
                try:
                    status, res = fut.result()
                except BrokenProcessPool:
                    continue
                done_shards.add(sh)
                if status == "ok":
                    total.merge(res)
                else:
                    harness_errors.append(res)
        except TimeoutError:
            harness_errors.append("shards %s did not finish within %.0f s (inconclusive, not a violation)" % (sorted(set(range(nshards)) - done_shards), shard_timeout))
        finally:
            for pr in list((getattr(ex, "_processes", None) or {}).values()):
                try:
                    pr.kill()
                except Exception:
                    pass
            ex.shutdown(wait=False, cancel_futures=True)
        dead = sorted(set(range(nshards)) - done_shards)
        if dead and not any("did not finish" in h for h in harness_errors):
            # a worker process died (segfault / abort inside compiled library code on a generated, valid input):
            # the code under test crashed instead of returning or raising -- reported as a violation ("handled or
            # rejected cleanly, never crashes or corrupts"); the shard seeds are the replay information.
            total.evaluations += 1
            total.fail("worker-process-died", {"shards_not_finished": dead, "seed": seed, "tier": tier, "nshards": nshards},
                       "a shard process died while evaluating generated inputs (crash inside the library); shards not finished: %s (the pool is torn down when one worker dies)" % dead)

    wall = time.time() - t0
    # 3. verdicts
    rc = 0
    known_hits = []
    nviol = 0
    os.makedirs(rdir, exist_ok=True)
    for b in sorted(total.verdicts):
        v = total.verdicts[b]
        k = match_known(known, prop, b)
        if k:
            known_hits.append(b)
            print("KNOWN-FINDING: property=%s %s [%s x%d]" % (prop, k.get("what", ""), b, v["count"]))
            continue
        nviol += 1
        rpath = os.path.join(os.path.relpath(vdir, ROOT), "viol-" + safe_name(b) + ".json")
        os.makedirs(vdir, exist_ok=True)
        with open(os.path.join(ROOT, rpath), "w") as f:
            json.dump({"property": prop, "bucket": b, "msg": v["msg"], "payload": v["payload"]}, f, indent=1)
        print("VIOLATION property=%s replay=%s" % (prop, rpath))
        print("  bucket=%s count=%d %s" % (b, v["count"], v["msg"]))
        rc = 1
    try:
        if not os.listdir(rdir):
            os.rmdir(rdir)
    except OSError:
        pass

    if harness_errors:
        for h in harness_errors:
            print("HARNESS-ERROR property=%s %s" % (prop, h))
        # a harness error never hides a violation but is never reported as one
        if rc == 0:
            rc = 2

    if total.evaluations > 0:
        try:
            ev = write_evidence(prop, mod, total, tier, seed, wall, nviol, known_hits)
            c = ev["coverage"]
            print("property=%s tier=%s seed=%d evaluations=%d distinct_nontrivial=%d violations=%d known=%d wall=%.1fs" % (
                prop, tier, seed, c["evaluations"], c["distinct_nontrivial"], nviol, len(known_hits), wall))
            if c["distinct_nontrivial"] < 2 and rc == 0:
                print("HARNESS-ERROR property=%s fewer than 2 distinct non-trivial cases (vacuous run)" % prop)
                rc = 2
        except Exception:
            print("HARNESS-ERROR property=%s evidence could not be written" % prop)
            traceback.print_exc()
            if rc == 0:
                rc = 2
    elif rc == 0:
        print("HARNESS-ERROR property=%s nothing was evaluated" % prop)
        rc = 2
    return rc


if __name__ == "__main__":
    sys.exit(main())
