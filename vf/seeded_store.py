"""Store a confirmed seeded change:  seeded_store.py C02 1 /tmp/seed-out/c02 "needs..." "caught_by" "first bucket" """
import json, os, shutil, sys
pid, k, src, needs, caught, bucket = sys.argv[1:7]
dst = "/verif/seeded/%s-%s" % (pid, k)
os.makedirs(dst, exist_ok=True)
shutil.copy(os.path.join(src, "patch%s.diff" % k), os.path.join(dst, "patch.diff"))
shutil.copy(os.path.join(src, "demo%s.py" % k), os.path.join(dst, "demo.py"))
if os.path.exists(os.path.join(src, "notes%s.md" % k)):
    shutil.copy(os.path.join(src, "notes%s.md" % k), os.path.join(dst, "notes.md"))
meta = {
    "property": pid,
    "origin": "independent sub-agent given only the property text and a scratch worktree of /repo (nothing from /verif)",
    "needs_to_manifest": needs,
    "ran": [
        "vf/seeded_verify.sh %s seeded/%s-%s/patch.diff seeded/%s-%s/demo.py <checks>" % (pid, pid, k, pid, k),
        "demo.py on the unchanged tree: exit 0; on a scratch copy with patch.diff applied: exit 1 (confirmed by me)",
        "existing test modules listed in notes.md pass with the change (run by the seeding agent)",
    ],
    "caught_by": [c for c in caught.split(",") if c],
    "missed_by": [],
    "first_bucket": bucket,
}
json.dump(meta, open(os.path.join(dst, "meta.json"), "w"), indent=1)
print("stored", dst)
