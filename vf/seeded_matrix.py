"""Print the seeded-change catch matrix (markdown) from seeded/*/meta.json:  python -m vf.seeded_matrix"""
import json, os
ROOT = os.path.dirname(os.path.dirname(os.path.abspath(__file__)))
rows = []
for d in sorted(os.listdir(os.path.join(ROOT, "seeded"))):
    mp = os.path.join(ROOT, "seeded", d, "meta.json")
    if not os.path.exists(mp):
        continue
    m = json.load(open(mp))
    rows.append((d, m["property"], m["needs_to_manifest"], ", ".join(m.get("caught_by", [])) or "—",
                 m.get("first_bucket", ""), m.get("history", "")))
print("| seeded change | breaks | needs, in order to manifest | caught by | bucket | history |")
print("|---|---|---|---|---|---|")
for r in rows:
    print("| `seeded/%s` | %s | %s | %s | `%s` | %s |" % tuple(x.replace("|", "/") for x in r))
print()
print("%d seeded changes, %d caught by at least one registered check." % (len(rows), sum(1 for r in rows if r[3] != "—")))
