"""Hypothesis driver: collect-then-shrink.

`explore(ctx, label, strategy, evaluate, n)`:
  * collect pass: `evaluate(case, ctx)` is called on `n` generated cases; it
    records cases/verdicts on ctx (ctx.case / ctx.fail) and never raises for a
    property failure.  Generation continues past failures.
  * shrink pass: for each *new* bucket seen in the collect pass (not a known
    finding), the same seeded generation is re-run with a predicate restricted
    to that bucket and Hypothesis shrinking enabled (bounded number of
    predicate calls); the minimal failing case replaces the stored payload.
All randomness comes from Hypothesis, seeded from VERIF_SEED (ctx.hseed).
"""
from __future__ import annotations

import hypothesis
from hypothesis import HealthCheck, Phase, given, settings, seed

from .runner import Ctx, HarnessError, load_known, match_known

_SUPPRESS = [HealthCheck.too_slow, HealthCheck.data_too_large, HealthCheck.large_base_example,
             HealthCheck.function_scoped_fixture, HealthCheck.differing_executors]


def explore(ctx, label, strategy, evaluate, n, shrink=True, shrink_calls=None):
    n = int(n)
    if n <= 0:
        return
    before = set(ctx.verdicts)
    hs = ctx.hseed(label)
    # Hypothesis' first example is the minimal one (all-zero / first alternative); for small
    # budgets it would dominate, so it is drawn but not evaluated.
    skip = {"first": n < 50}

    @seed(hs)
    @settings(max_examples=n + (1 if skip["first"] else 0), database=None, deadline=None, derandomize=False,
              phases=[Phase.generate], suppress_health_check=_SUPPRESS,
              report_multiple_bugs=False, print_blob=False)
    @given(strategy)
    def collect(case):
        if skip["first"]:
            skip["first"] = False
            return
        evaluate(case, ctx)

    try:
        collect()
    except hypothesis.errors.FailedHealthCheck as e:
        raise HarnessError("generator health check failed in %s/%s: %s" % (ctx.prop, label, e))

    new = [b for b in ctx.verdicts if b not in before]
    if not new or not shrink:
        return
    known = load_known()
    if shrink_calls is None:
        shrink_calls = ctx.scale(300, 3000)
    for b in new:
        if match_known(known, ctx.prop, b):
            continue
        best = {"case": None, "msg": None}
        budget = {"left": shrink_calls + n}

        @seed(hs)
        @settings(max_examples=n, database=None, deadline=None, derandomize=False,
                  phases=[Phase.generate, Phase.shrink], suppress_health_check=list(HealthCheck),
                  report_multiple_bugs=False, print_blob=False)
        @given(strategy)
        def hunt(case):
            if budget["left"] <= 0:
                return
            budget["left"] -= 1
            sub = Ctx(ctx.prop, ctx.tier, ctx.seed, ctx.shard, ctx.nshards, collecting=False)
            evaluate(case, sub)
            if b in sub.verdicts:
                best["case"] = sub.verdicts[b]["payload"]
                best["msg"] = sub.verdicts[b]["msg"]
                raise AssertionError(b)

        try:
            hunt()
        except AssertionError:
            pass
        except Exception:
            pass
        if best["case"] is not None:
            ctx.verdicts[b]["payload"] = best["case"]
            ctx.verdicts[b]["msg"] = best["msg"]
            ctx.verdicts[b]["shrunk"] = True


def run_machine(ctx, label, machine_cls, n, steps):
    """Run a RuleBasedStateMachine with the shard's seed; machine records on
    its class attribute `ctx` and never raises for property failures."""
    from hypothesis.stateful import run_state_machine_as_test
    st = settings(max_examples=int(n), stateful_step_count=int(steps), database=None, deadline=None,
                  derandomize=False, phases=[Phase.generate], suppress_health_check=list(HealthCheck),
                  report_multiple_bugs=False, print_blob=False)
    run_state_machine_as_test(seed(ctx.hseed(label))(machine_cls), settings=st)
